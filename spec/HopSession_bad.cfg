SPECIFICATION Spec
CONSTANTS MaxOpens = 2
          Acts = {"idle"}
          SecondByType = TRUE
INVARIANTS NoCrash
CHECK_DEADLOCK FALSE
