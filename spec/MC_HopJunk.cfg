SPECIFICATION Spec
INVARIANTS EndpointLive SessionsIntact EmitEdges
CHECK_DEADLOCK FALSE
