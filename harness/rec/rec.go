// Package rec writes ndjson trace files for TLC trace validation.
package rec

import (
	"bufio"
	"encoding/json"
	"os"
	"sync"
)

// W is a concurrency-safe ndjson writer.
type W struct {
	mu sync.Mutex
	f  *os.File
	b  *bufio.Writer
	N  int
}

// New creates (truncates) path.
func New(path string) (*W, error) {
	f, err := os.Create(path)
	if err != nil {
		return nil, err
	}
	return &W{f: f, b: bufio.NewWriterSize(f, 1<<20)}, nil
}

// Must is New that panics.
func Must(path string) *W {
	w, err := New(path)
	if err != nil {
		panic(err)
	}
	return w
}

// Ev writes one event: ev name plus alternating key, value.
func (w *W) Ev(ev string, kv ...any) {
	m := make(map[string]any, len(kv)/2+1)
	m["ev"] = ev
	for i := 0; i+1 < len(kv); i += 2 {
		m[kv[i].(string)] = kv[i+1]
	}
	w.Obj(m)
}

// Obj writes any JSON value as one line.
func (w *W) Obj(v any) {
	b, err := json.Marshal(v)
	if err != nil {
		panic(err)
	}
	w.mu.Lock()
	w.b.Write(b)
	w.b.WriteByte('\n')
	w.N++
	w.mu.Unlock()
}

// Raw writes an already encoded line.
func (w *W) Raw(b []byte) {
	w.mu.Lock()
	w.b.Write(b)
	w.b.WriteByte('\n')
	w.N++
	w.mu.Unlock()
}

// Close flushes and closes.
func (w *W) Close() error {
	w.mu.Lock()
	defer w.mu.Unlock()
	if err := w.b.Flush(); err != nil {
		return err
	}
	return w.f.Close()
}

// Flush writes buffered lines to the file (used before an action that may crash the process).
func (w *W) Flush() {
	w.mu.Lock()
	w.b.Flush()
	w.mu.Unlock()
}
