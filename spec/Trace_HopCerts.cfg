SPECIFICATION TSpec
CONSTANTS K = 0
CONSTRAINT HW
POSTCONDITION Accepted
CHECK_DEADLOCK FALSE
