SPECIFICATION Spec
CONSTANTS D = 4  DB = 0  Win = 3  MaxLoss = 3  MaxDup = 0  MaxTx = 14  DropOnMaxRTO = FALSE
INVARIANTS Prefix EOFAfterData EmitLoss
CHECK_DEADLOCK FALSE
