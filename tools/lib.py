# Common machinery for the hop-go verification checks.
#
# Every check is   tools/check <ID> [--tier quick|thorough] [--replay PATH]
# and follows the verdict policy of DESIGN.md §2.5:
#   exit 0  property held on everything explored (KNOWN-FINDING lines allowed)
#   exit 1  + "VIOLATION property=<id> replay=<path>"  real-code behaviour contradicts the property
#   exit 2  machinery could not conclude (never a violation)
import atexit, json, os, re, shutil, subprocess, sys, tempfile, time, hashlib

VERIF = os.path.dirname(os.path.dirname(os.path.abspath(__file__)))
REPO = os.environ.get("VERIF_REPO", "/repo")
REPO_MARK = REPO.rstrip("/") + "/"      # prefix of repository source paths in stack traces and race reports
SPEC = os.path.join(VERIF, "spec")
HARNESS = os.path.join(VERIF, "harness")
OVERLAY = os.path.join(VERIF, "overlay")
EVIDENCE = os.environ.get("VERIF_EVIDENCE") or os.path.join(VERIF, "evidence")
REPLAYS = os.environ.get("VERIF_REPLAYS") or os.path.join(VERIF, "replays")
TLAJAR = "/opt/veriftools/tla/tla2tools.jar:/opt/veriftools/tla/CommunityModules-deps.jar"
NCPU = os.cpu_count() or 4


class Inconclusive(Exception):
    """Machinery failure: exit 2, never a violation."""


_scratch_dirs = []


def scratch(prefix="vf-"):
    base = os.environ.get("VERIF_TMP") or tempfile.gettempdir()
    d = tempfile.mkdtemp(prefix=prefix, dir=base)
    _scratch_dirs.append(d)
    return d


@atexit.register
def _cleanup():
    if os.environ.get("VERIF_KEEP"):
        for d in _scratch_dirs:
            sys.stderr.write("kept scratch %s\n" % d)
        return
    for d in _scratch_dirs:
        shutil.rmtree(d, ignore_errors=True)


def seed():
    try:
        return int(os.environ.get("VERIF_SEED", "1"))
    except ValueError:
        return 1


def log(*a):
    print(*a, flush=True)


# ----------------------------------------------------------------------------------------------
# Go side
# ----------------------------------------------------------------------------------------------

def go_env(extra=None):
    env = dict(os.environ)
    env["GOFLAGS"] = "-mod=mod"
    env["GOPROXY"] = "off"
    env.pop("GOSUMDB", None)
    env.pop("GOTOOLCHAIN", None)
    env.pop("GOWORK", None)
    if extra:
        env.update({k: str(v) for k, v in extra.items()})
    return env


_harness_dir = None


def harness_dir():
    """Copy the harness module to scratch, point it at REPO, return its path."""
    global _harness_dir
    if _harness_dir:
        return _harness_dir
    d = os.path.join(scratch("vf-h-"), "harness")
    shutil.copytree(HARNESS, d)
    with open(os.path.join(d, "go.mod"), "w") as f:
        f.write("module verif/harness\n\ngo 1.24\n\nrequire hop.computer/hop v0.0.0\n\n"
                "replace hop.computer/hop => %s\n\n"
                "replace github.com/BurntSushi/toml => github.com/drebelsky/toml v0.0.2\n" % REPO)
    shutil.copy(os.path.join(REPO, "go.sum"), os.path.join(d, "go.sum"))
    _harness_dir = d
    return d


def go_build(cmd, race=False, tags="verif"):
    """Build harness/cmd/<cmd> against REPO's working tree; returns binary path."""
    d = harness_dir()
    out = os.path.join(d, "bin-" + cmd + ("-race" if race else "") + ("-" + tags.replace(",", "_") if tags != "verif" else ""))
    args = ["go", "build", "-tags", tags, "-o", out]
    if race:
        args.append("-race")
    args.append("./cmd/" + cmd)
    p = subprocess.run(args, cwd=d, env=go_env(), capture_output=True, text=True)
    if p.returncode != 0:
        raise Inconclusive("harness build failed (%s):\n%s" % (cmd, (p.stdout + p.stderr)[-4000:]))
    return out


def run(args, cwd=None, env=None, timeout=None, stdin=None):
    """Run a process; returns (rc, stdout, stderr); rc=None on timeout."""
    try:
        p = subprocess.run(args, cwd=cwd, env=env, capture_output=True, text=True, timeout=timeout, input=stdin)
        return p.returncode, p.stdout, p.stderr
    except subprocess.TimeoutExpired as e:
        so = e.stdout.decode("utf8", "replace") if isinstance(e.stdout, bytes) else (e.stdout or "")
        se = e.stderr.decode("utf8", "replace") if isinstance(e.stderr, bytes) else (e.stderr or "")
        return None, so, se


def overlay_test(pkg, run_regex, env_extra=None, timeout=600, race=False, tags="verif", extra_args=None, only=None):
    """Run white-box drivers: every /verif/overlay/<pkg>/*_test.go is injected (add-only) into
    REPO/<pkg> with `go test -overlay`.  Returns (rc, stdout, stderr)."""
    src = os.path.join(OVERLAY, pkg)
    files = [f for f in sorted(os.listdir(src)) if f.endswith(".go") and (only is None or f in only)]
    repl = {}
    for f in files:
        dst = os.path.join(REPO, pkg, f)
        if os.path.exists(dst):
            raise Inconclusive("overlay would replace an existing repository file: " + dst)
        repl[dst] = os.path.join(src, f)
    sd = scratch("vf-ov-")
    oj = os.path.join(sd, "overlay.json")
    with open(oj, "w") as fh:
        json.dump({"Replace": repl}, fh)
    args = ["go", "test", "-tags", tags, "-overlay", oj, "-vet=off", "-count=1", "-timeout", "%ds" % timeout,
            "-run", run_regex]
    if race:
        args.append("-race")
    if extra_args:
        args += extra_args
    args.append("./" + pkg)
    return run(args, cwd=REPO, env=go_env(env_extra), timeout=timeout + 60)


# ----------------------------------------------------------------------------------------------
# TLC
# ----------------------------------------------------------------------------------------------

class TLCResult:
    def __init__(self):
        self.rc = None
        self.out = ""
        self.generated = 0
        self.distinct = 0
        self.queue = 0
        self.depth = 0
        self.ok = False
        self.violated = None      # name of invariant / property
        self.kind = None          # invariant | action | temporal | deadlock | postcondition | error | timeout
        self.last_state = {}      # var -> text, of the last state printed in an error trace
        self.trace_len = 0
        self.wall = 0.0
        self.coverage = {}        # action -> (taken, distinct) when -coverage given
        self.cmd = ""

    def summary(self):
        return dict(ok=self.ok, generated=self.generated, distinct=self.distinct, depth=self.depth,
                    violated=self.violated, kind=self.kind, wall_s=round(self.wall, 2), cmd=self.cmd)


_STATE_RE = re.compile(r"^State (\d+): ", re.M)


def parse_tlc(out, res):
    m = None
    for m in re.finditer(r"(\d+) states generated, (\d+) distinct states found, (\d+) states left on queue", out):
        pass
    if m:
        res.generated, res.distinct, res.queue = int(m.group(1)), int(m.group(2)), int(m.group(3))
    m = re.search(r"The depth of the complete state graph search is (\d+)", out)
    if m:
        res.depth = int(m.group(1))
    if "Model checking completed. No error has been found." in out:
        res.ok = True
    m = re.search(r"Error: Invariant (\S+) is violated", out)
    if m:
        res.violated, res.kind = m.group(1).rstrip("."), "invariant"
    m = re.search(r"Error: Action property (\S+) is violated", out)
    if m:
        res.violated, res.kind = m.group(1).rstrip("."), "action"
    m = re.search(r"Error: Temporal propert(?:y|ies) (.*?) (?:was|were) violated", out)
    if "Error: Temporal properties were violated" in out or m:
        res.violated, res.kind = (m.group(1) if m else "temporal"), "temporal"
    if "Error: Deadlock reached" in out:
        res.violated, res.kind = "deadlock", "deadlock"
    m = re.search(r"Error: The postcondition (\S+)?", out)
    if "POSTCONDITION" in out.upper() and "violated" in out and res.kind is None:
        res.violated, res.kind = "postcondition", "postcondition"
    if res.kind is None and not res.ok and re.search(r"^Error: ", out, re.M):
        res.kind = "error"
    # last state of an error trace
    states = list(_STATE_RE.finditer(out))
    if states:
        res.trace_len = int(states[-1].group(1))
        tail = out[states[-1].end():]
        tail = tail.split("\n\n")[0]
        body = out[states[-1].start():].split("\n\n")[0]
        cur = None
        for line in body.split("\n")[1:]:
            mm = re.match(r"^/\\ (\w+) = (.*)$", line)
            if mm:
                cur = mm.group(1)
                res.last_state[cur] = mm.group(2)
            elif cur and line.strip():
                res.last_state[cur] += " " + line.strip()
    # coverage
    for mm in re.finditer(r"^<(\w+) line \d+, col \d+ to line \d+, col \d+ of module (\w+)>: (\d+):(\d+)", out, re.M):
        res.coverage[mm.group(1)] = (int(mm.group(4)), int(mm.group(3)))
    return res


def tlc(module, cfg=None, files=None, workers=None, timeout=900, simulate=None, depth=None, tlc_seed=None,
        coverage=False, deadlock=True, extra=None, jvm=None, dfs=False, dump_dot=None, workdir=None, heap=None):
    """Run TLC on spec/<module>.tla with spec/<cfg> in a scratch copy of /verif/spec.
    files: dict name->content (or ->path with '@' prefix) of extra files to place next to the spec
    (trace ndjson etc).  Returns TLCResult."""
    d = workdir or scratch("vf-tlc-")
    for f in os.listdir(SPEC):
        if f.endswith(".tla") or f.endswith(".cfg"):
            shutil.copy(os.path.join(SPEC, f), os.path.join(d, f))
    for name, content in (files or {}).items():
        dst = os.path.join(d, name)
        if isinstance(content, str) and content.startswith("@"):
            shutil.copy(content[1:], dst)
        else:
            with open(dst, "w") as fh:
                fh.write(content)
    meta = os.path.join(d, "meta-%d" % int(time.time() * 1000))
    jopts = ["-XX:+UseParallelGC", "-Xss64m"]
    if heap:
        jopts.append("-Xmx" + heap)
    if dfs:
        jopts.append("-Dtlc2.tool.queue.IStateQueue=StateDeque")
    if jvm:
        jopts += jvm
    args = ["java"] + jopts + ["-cp", TLAJAR, "tlc2.TLC", "-noGenerateSpecTE", "-metadir", meta,
                               "-config", cfg or (module + ".cfg")]
    if workers is None:
        workers = NCPU
    args += ["-workers", str(workers)]
    if simulate is not None:
        args += ["-simulate", simulate]
    if depth is not None:
        args += ["-depth", str(depth)]
    if tlc_seed is not None:
        args += ["-seed", str(tlc_seed)]
    if coverage:
        args += ["-coverage", "1"]
    if not deadlock:
        args += ["-deadlock"]
    if dump_dot:
        args += ["-dump", "dot,actionlabels", dump_dot]
    if extra:
        args += extra
    args.append(module + ".tla")
    res = TLCResult()
    res.cmd = "tlc " + " ".join(args[args.index("tlc2.TLC") + 1:])
    t0 = time.time()
    env = dict(os.environ)
    env.pop("JAVA_TOOL_OPTIONS", None)
    rc, so, se = run(args, cwd=d, env=env, timeout=timeout)
    res.wall = time.time() - t0
    res.rc = rc
    res.out = so + ("\n" + se if se else "")
    res.dir = d
    if rc is None:
        res.kind = "timeout"
        parse_tlc(res.out, res)
        res.ok = False
        res.kind = "timeout"
        return res
    parse_tlc(res.out, res)
    if simulate is not None and rc == 0 and res.kind is None:
        res.ok = True
    shutil.rmtree(meta, ignore_errors=True)
    return res


def apalache(module, init, inv, length, timeout=1200, text=None):
    """apalache-mc check on spec/<module>.tla (or the given text) in scratch; returns 'NoError' | 'Error' | 'other:<tail>'."""
    d = scratch("vf-apa-")
    src = os.path.join(SPEC, module + ".tla")
    dst = os.path.join(d, module + ".tla")
    if text is None:
        shutil.copy(src, dst)
    else:
        with open(dst, "w") as fh:
            fh.write(text)
    rc, so, se = run(["apalache-mc", "check", "--init=" + init, "--inv=" + inv, "--length=%d" % length, "--out-dir=" + os.path.join(d, "out"), module + ".tla"],
                     cwd=d, timeout=timeout, env=dict(os.environ, JVM_ARGS="-Xmx8g"))
    out = (so or "") + (se or "")
    m = re.search(r"The outcome is: (\w+)", out)
    if rc is None:
        return "other:timeout"
    return m.group(1) if m and m.group(1) in ("NoError", "Error") else "other:" + out[-400:]


def tlc_must_pass(res, what):
    """Design-stage run on the unchanged spec: anything but success is a machinery problem."""
    if not res.ok:
        tail = res.out[-3000:]
        raise Inconclusive("%s: TLC did not succeed (kind=%s violated=%s)\n%s" % (what, res.kind, res.violated, tail))
    return res


# ----------------------------------------------------------------------------------------------
# Known findings, evidence, verdict
# ----------------------------------------------------------------------------------------------

def load_known():
    p = os.path.join(VERIF, "known_findings.json")
    if not os.path.exists(p):
        return []
    with open(p) as fh:
        return json.load(fh).get("findings", [])


class Verdict:
    """Collects violations (each with a signature), matches known findings, writes evidence, exits."""

    def __init__(self, pid, tier, level="model_checking"):
        self.pid = pid
        self.tier = tier
        self.level = level
        self.t0 = time.time()
        self.viol = []          # dict(sig=..., what=..., replay=...)
        self.cov = dict(states=0, transitions=0, traces_validated_against_impl=0, samples=[], evaluations=0,
                        distinct_nontrivial=0, rule="", exhaustive=False, tlc_runs=[])
        self.assumptions = []
        self._distinct = set()

    def add_tlc(self, name, res):
        self.cov["states"] += res.distinct
        self.cov["transitions"] += res.generated
        self.cov["tlc_runs"].append(dict(name=name, **res.summary()))

    def count(self, key, n=1):
        self.cov[key] = self.cov.get(key, 0) + n

    def case(self, key, nontrivial=True):
        """Count one evaluated case; distinct_nontrivial counts distinct keys flagged non-trivial."""
        self.cov["evaluations"] += 1
        if nontrivial:
            h = hashlib.blake2b(repr(key).encode(), digest_size=8).digest()
            self._distinct.add(h)

    def sample(self, s, cap=12):
        if len(self.cov["samples"]) < cap:
            self.cov["samples"].append(s)

    def violation(self, sig, what, replay_obj=None):
        """sig: stable signature string used to match known findings."""
        path = None
        if replay_obj is not None:
            os.makedirs(REPLAYS, exist_ok=True)
            h = hashlib.blake2b(sig.encode(), digest_size=6).hexdigest()
            path = os.path.join(REPLAYS, "%s-%s.json" % (self.pid, h))
            with open(path, "w") as fh:
                json.dump(dict(property=self.pid, signature=sig, what=what, case=replay_obj), fh, indent=1, default=str)
        self.viol.append(dict(sig=sig, what=what, replay=path))

    def finish(self):
        known = [k for k in load_known() if k.get("property") == self.pid and k.get("status", "open") == "open"]
        unknown = []
        seen_known = {}
        for v in self.viol:
            hit = None
            for k in known:
                if re.search(k["match"], v["sig"]):
                    hit = k
                    break
            if hit:
                seen_known.setdefault(hit["id"], (hit, v))
            else:
                unknown.append(v)
        for kid, (k, v) in sorted(seen_known.items()):
            log("KNOWN-FINDING: property=%s %s [%s]" % (self.pid, k["what"], kid))
        self.cov["distinct_nontrivial"] = len(self._distinct)
        self.cov["known_findings_seen"] = sorted(seen_known)
        wall = time.time() - self.t0
        ev = dict(property_id=self.pid, tier=self.tier, seed=seed(), level=self.level, coverage=self.cov,
                  assumptions=self.assumptions, wall_s=round(wall, 2), violations=len(unknown))
        if not self.cov["samples"]:
            self.cov["samples"] = ["(no sample recorded)"]
        os.makedirs(EVIDENCE, exist_ok=True)
        with open(os.path.join(EVIDENCE, self.pid + ".json"), "w") as fh:
            json.dump(ev, fh, indent=1, default=str)
        reported = set()
        for v in unknown:
            if v["sig"] in reported:
                continue
            reported.add(v["sig"])
            if len(reported) > 20:
                break
            log("VIOLATION property=%s replay=%s" % (self.pid, v["replay"] or "-"))
            log("  signature: %s" % v["sig"])
            log("  %s" % v["what"])
        log("%s %s: %d evaluations, %d states, %d traces validated, %d known finding(s), %d violation(s), %.1fs"
            % (self.pid, self.tier, self.cov["evaluations"], self.cov["states"],
               self.cov["traces_validated_against_impl"], len(seen_known), len(reported), wall))
        return 1 if unknown else 0


def read_ndjson(path):
    out = []
    with open(path) as fh:
        for line in fh:
            line = line.strip()
            if line:
                out.append(json.loads(line))
    return out


def write_ndjson(path, events):
    with open(path, "w") as fh:
        for e in events:
            fh.write(json.dumps(e, separators=(",", ":")) + "\n")
