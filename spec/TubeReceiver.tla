----------------------------- MODULE TubeReceiver -----------------------------
(* The reassembly core of a reliable tube (tubes/receiver.go: receive, processIntoBuffer).    *)
(* Frames are numbered from 1; the window is [next, next + Win] inclusive; fragments wait in a *)
(* priority queue until they are in order; a FIN frame closes the stream once everything      *)
(* before it has been delivered.  `buf` is the sequence of frame numbers whose data has been  *)
(* appended to the read buffer - the property of C08 for the core is that it is always        *)
(* <<1, 2, ..., k>>: in order, no gaps, no duplicates.                                        *)
EXTENDS Integers, Sequences, FiniteSets, TLC

CONSTANTS N,        \* data frames 1..N, FIN is frame N+1 (or any number the peer chooses)
          Win,      \* window size in frames (code: 1000)
          MaxSteps

Kinds == {"data", "fin", "ack"}
Nums  == 1..(N + 1) \cup {Win + 1, Win + 2, Win + 3}       \* in-order numbers and three around the far window edge

VARIABLES next, frags, buf, closed, steps, hist
vars == <<next, frags, buf, closed, steps, hist>>

Init == next = 1 /\ frags = {} /\ buf = <<>> /\ closed = FALSE /\ steps = 0 /\ hist = <<>>

InWindow(n) == next <= n /\ n <= next + Win

(* drain: move in-order fragments to the buffer; fragments below the window are discarded     *)
RECURSIVE Drain(_, _, _, _)
Drain(nx, fr, bf, cl) ==
    IF \E x \in fr : x.no = nx
    THEN LET x == CHOOSE y \in fr : y.no = nx
         IN  Drain(nx + 1, {y \in fr : y.no # nx}, Append(bf, nx), cl \/ x.fin)
    ELSE <<nx, {y \in fr : y.no > nx}, bf, cl>>
(* the heap may hold a data fragment and a FIN with the same number (hostile peer); the first *)
(* one popped wins; CHOOSE fixes one - behaviours with such collisions are not generated      *)

Recv(n, k) ==
    /\ steps < MaxSteps
    /\ ~(\E x \in frags : x.no = n /\ x.fin # (k = "fin"))
    /\ steps' = steps + 1
    /\ IF closed
       THEN /\ UNCHANGED <<next, frags, buf, closed>>
            /\ hist' = Append(hist, [n |-> n, k |-> k, res |-> "eof", fin |-> FALSE, next |-> next, buf |-> Len(buf), closed |-> closed])
       ELSE IF k \in {"data", "fin"} /\ InWindow(n)
            THEN LET d == Drain(next, frags \cup {[no |-> n, fin |-> k = "fin"]}, buf, FALSE)
                 IN /\ next' = d[1] /\ frags' = d[2] /\ buf' = d[3] /\ closed' = d[4]
                    /\ hist' = Append(hist, [n |-> n, k |-> k, res |-> "ok", fin |-> d[4], next |-> d[1], buf |-> Len(d[3]), closed |-> d[4]])
            ELSE IF k = "data"
                 THEN /\ UNCHANGED <<next, frags, buf, closed>>      \* out of bounds: error, nothing drained
                      /\ hist' = Append(hist, [n |-> n, k |-> k, res |-> "oob", fin |-> FALSE, next |-> next, buf |-> Len(buf), closed |-> closed])
                 ELSE LET d == Drain(next, frags, buf, FALSE)        \* keep-alive / out-of-window FIN: drain only
                      IN /\ next' = d[1] /\ frags' = d[2] /\ buf' = d[3] /\ closed' = d[4]
                         /\ hist' = Append(hist, [n |-> n, k |-> k, res |-> "ok", fin |-> d[4], next |-> d[1], buf |-> Len(d[3]), closed |-> d[4]])

Next == \E n \in Nums, k \in Kinds : Recv(n, k)
Spec == Init /\ [][Next]_vars

InOrderNoGapsNoDups == \A i \in 1..Len(buf) : buf[i] = i
AckIsNextMinusOne == next = Len(buf) + 1
ClosedOnlyAfterFinInOrder == closed => \E i \in 1..Len(buf) : TRUE
FragsAboveWindowStart == \A x \in frags : x.no > next - 1 /\ x.no # next
View == <<next, frags, buf, closed, steps>>
=============================================================================
