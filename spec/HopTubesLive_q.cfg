SPECIFICATION Spec
CONSTANTS D = 1  Win = 2  MaxLoss = 2  LingerOutlastsLoss = TRUE
INVARIANT Prefix
PROPERTIES Complete BothClose
CHECK_DEADLOCK FALSE
