------------------------------- MODULE HopJunk -------------------------------
(* Unauthenticated datagrams against transport endpoints (C10).                              *)
(*                                                                                           *)
(* The endpoint states come from HopHandshake.tla / HopTransport.tla; here they are only      *)
(* named.  A junk datagram is described by a class: what it was derived from and how.  The    *)
(* specification of Junk(state, class) is that it is a stuttering step for everything the     *)
(* property protects - the endpoint keeps running, a later honest handshake from a fresh      *)
(* address completes, established sessions keep working - with two defined exceptions that    *)
(* the handshake specification already contains: a handshake in progress FROM THE SAME        *)
(* ADDRESS may be lost (SrvCL poisons the stored duplex; a client reads one datagram per      *)
(* stage), and a well-formed ClientHello is answered.                                         *)
(*                                                                                           *)
(* TLC enumerates the state x class x configuration product (the edges to be executed on the *)
(* real endpoints) and checks that the postcondition holds in the model for every edge.       *)
EXTENDS Integers, Sequences, FiniteSets, TLC

Cfgs   == {"one", "vhosts", "vhosts-strict", "hidden1", "hidden2", "one-nokem", "one-authkeys"}    \* vhosts-strict: named host blocks only, a name may match none
States == {"idle", "pending", "established", "closed", "client-wSH", "client-wSA", "client-wHP", "client-open",
           "env-sni", "env-certs", "env-srvcerts"}
(* The "envelope" derivation is a protocol-following hostile peer: a well-formed, encrypted and  *)
(* authenticated handshake message (which needs no key the adversary does not own) whose CONTENT *)
(* is hostile: any server-name bytes in a ClientAck, any bytes in place of the certificates of a *)
(* ClientAuth / hidden request, or of a ServerAuth / hidden response sent by a hostile server.   *)
(* "zerokey": a transport / control datagram for the session id of a RESERVED (not yet finished) session - the id  *)
(* is visible in the ServerAuth - correctly sealed under a key of 32 equal bytes.                                   *)
Derivs == {"trunc", "mut", "len", "extend", "typed", "typed-livesid", "tiny", "envelope", "zerokey"}
Bases  == {"CH", "CA", "CL", "HR", "TR", "CA-pending", "CL-pending", "TR-pending", "none", "sni", "certs", "srvcerts"}

Reachable(cfg, st) ==
    /\ (st = "pending") => cfg \in {"one", "vhosts", "vhosts-strict"}
    /\ (st \in {"client-wSH", "client-wSA"}) => cfg \in {"one", "vhosts"}
    /\ (st = "client-wHP") => cfg \in {"hidden1", "hidden2"}
    /\ (st = "env-sni") => cfg \in {"one", "vhosts", "vhosts-strict"}
    /\ (cfg = "vhosts-strict") => st \in {"pending", "env-sni"}
    /\ (cfg = "one-nokem") => st \in {"idle", "established"}          \* a discoverable-only server without any KEM key
    /\ (cfg = "one-authkeys") => st \in {"idle", "env-certs"}         \* clients verified against authorized keys and the CA store

Available(cfg, st, base) ==
    CASE base = "none" -> st \notin {"env-sni", "env-certs", "env-srvcerts"}
      [] base = "sni" -> st = "env-sni"
      [] base = "certs" -> st = "env-certs"
      [] base = "srvcerts" -> st = "env-srvcerts"
      [] base \in {"CH", "CA", "CL"} -> cfg \in {"one", "vhosts", "vhosts-strict", "one-nokem", "one-authkeys"} /\ st \notin {"env-sni", "env-certs", "env-srvcerts"}
      [] base = "HR" -> st \notin {"env-sni", "env-certs", "env-srvcerts"}
      [] base = "TR" -> st \in {"established", "closed"}
      [] base \in {"CA-pending", "CL-pending", "TR-pending"} -> st = "pending"

HasLenField(b) == b \in {"CL", "HR", "CL-pending"}         \* messages whose header declares a length
Class(d, b) == /\ (d \in {"typed", "typed-livesid", "tiny"}) <=> (b = "none")
               /\ (d = "envelope") <=> (b \in {"sni", "certs", "srvcerts"})
               /\ (d = "len") => HasLenField(b)
               /\ (d = "zerokey") <=> (b = "TR-pending")
LiveSid(st) == st \in {"established", "closed", "client-open"}

VARIABLES cfg, st, live, sessions, handshakeFromA
vars == <<cfg, st, live, sessions, handshakeFromA>>

Init == /\ cfg \in Cfgs /\ st \in States /\ Reachable(cfg, st)
        /\ live = TRUE
        /\ sessions = IF st \in {"established", "client-open"} THEN 1 ELSE 0
        /\ handshakeFromA = (st \in {"pending", "client-wSH", "client-wSA", "client-wHP"})

(* one junk datagram of class <<d, b>> arrives *)
Junk(d, b) ==
    /\ Class(d, b) /\ Available(cfg, st, b) /\ (d = "typed-livesid" => LiveSid(st))
    /\ live' = live                                   \* never crashes, never stops reading
    /\ sessions' = sessions                           \* established sessions untouched
    /\ handshakeFromA' \in {handshakeFromA, FALSE}    \* a handshake in progress may be lost, nothing else
    /\ UNCHANGED <<cfg, st>>
Next == \E d \in Derivs, b \in Bases : Junk(d, b)
Spec == Init /\ [][Next]_vars

EndpointLive == live
SessionsIntact == sessions = (IF st \in {"established", "client-open"} THEN 1 ELSE 0)
Edges == {<<c, s, d, b>> \in Cfgs \X States \X Derivs \X Bases :
            Reachable(c, s) /\ Class(d, b) /\ Available(c, s, b) /\ (d = "typed-livesid" => LiveSid(s))}
=============================================================================
