// c11 plays an authenticated but hostile peer against a real tube muxer and the application-protocol
// decoders.  Each group runs in a child process; the case about to be executed is flushed to the log first.
//
//	c11 frames   <out.ndjson> <seed> <group 0..5>     hostile frames of one tube-reference group
//	c11 flood    <out.ndjson> <seed>                   more tube requests than the application accepts
//	c11 decoders <out.ndjson> <seed>                   byte-string classes for each decoder
package main

import (
	"bytes"
	"encoding/binary"
	"fmt"
	"io"
	"math/rand"
	"net"
	"os"
	"runtime"
	"strconv"
	"time"

	"github.com/sirupsen/logrus"

	"hop.computer/hop/authgrants"
	"hop.computer/hop/certs"
	"hop.computer/hop/codex"
	"hop.computer/hop/keys"
	"hop.computer/hop/portforwarding"
	"hop.computer/hop/tubes"
	"hop.computer/hop/userauth"
	"verif/harness/rec"
	"verif/harness/scriptconn"
)

var w *rec.W

func yn(b bool) string {
	if b {
		return "yes"
	}
	return "no"
}

func frame(tube byte, meta byte, declared uint16, ack, no uint32, data []byte) []byte {
	b := make([]byte, 12+len(data))
	b[0], b[1] = tube, meta
	binary.BigEndian.PutUint16(b[2:], declared)
	binary.BigEndian.PutUint32(b[4:], ack)
	binary.BigEndian.PutUint32(b[8:], no)
	copy(b[12:], data)
	return b
}

type world struct {
	n      *scriptconn.Net
	ma, mb *tubes.Muxer
	wa, wb *tubes.Reliable // witness tube (A opened it)
	k      int
}

func setup() *world {
	n := scriptconn.New(nil)
	log := logrus.New()
	log.SetOutput(io.Discard)
	x := &world{n: n, ma: tubes.Client(n.A, &tubes.Config{Log: logrus.NewEntry(log)}), mb: tubes.Server(n.B, &tubes.Config{Log: logrus.NewEntry(log)})}
	var err error
	x.wa, err = x.ma.CreateReliableTube(9)
	if err != nil {
		panic(err)
	}
	t, err := x.mb.Accept()
	if err != nil {
		panic(err)
	}
	x.wb = t.(*tubes.Reliable)
	return x
}

func (x *world) probe(class string) {
	x.k++
	msg := []byte(fmt.Sprintf("witness-%06d", x.k))
	res := "ok"
	rt := func(from, to *tubes.Reliable, dir string) {
		if _, err := from.Write(msg); err != nil {
			res = dir + " write: " + err.Error()
			return
		}
		buf := make([]byte, len(msg))
		to.SetReadDeadline(time.Now().Add(4 * time.Second))
		if _, err := io.ReadFull(to, buf); err != nil || !bytes.Equal(buf, msg) {
			res = fmt.Sprintf("%s read %q %v", dir, buf, err)
		}
	}
	rt(x.wa, x.wb, "a->b")
	if res == "ok" {
		rt(x.wb, x.wa, "b->a")
	}
	w.Ev("probe", "after", class, "witness", res)
	w.Flush()
	if res != "ok" {
		// the muxer no longer serves its other tubes: stop here (a panic swallowed by the receiver goroutine
		// surfaces when Stop collects it) instead of timing out on every later probe
		x.stop()
		w.Ev("done", "cases", -1)
		w.Close()
		os.Exit(0)
	}
}

func (x *world) stop() {
	done := make(chan struct{}, 2)
	go func() { x.ma.Stop(); done <- struct{}{} }()
	go func() { x.mb.Stop(); done <- struct{}{} }()
	ok := true
	for i := 0; i < 2; i++ {
		select {
		case <-done:
		case <-time.After(15 * time.Second):
			ok = false
		}
	}
	w.Ev("stop", "ok", yn(ok))
}

var tubeRefs = []string{"live-rel", "live-unrel", "closed-rel", "never-rel", "never-unrel", "witness", "finwait1-rel", "lastack-rel", "full-unrel"}

// frame sizes above the largest frame a regular sender produces (32768 bytes of data), up to the largest datagram
var hugeSizes = []int{32769, 40951, 50000, 65523, 36000, 45000, 61000, 65000}

func frames(group int, rng *rand.Rand) {
	x := setup()
	ref := tubeRefs[group]
	// target tubes at B, all opened by A (ids are A's parity)
	var id byte
	rel := true
	sent, ackNo := uint32(1), uint32(1) // B's sender has sent nothing: sent = ackNo = 1; B's receiver expects frame 1
	switch ref {
	case "live-rel":
		t, _ := x.ma.CreateReliableTube(11)
		x.mb.Accept()
		id = t.GetID()
	case "live-unrel":
		t, _ := x.ma.CreateUnreliableTube(12)
		x.mb.Accept()
		id, rel = t.GetID(), false
	case "closed-rel":
		t, _ := x.ma.CreateReliableTube(13)
		tb, _ := x.mb.Accept()
		t.Close()
		tb.Close()
		time.Sleep(400 * time.Millisecond)
		id = t.GetID()
	case "never-rel":
		id = 77
	case "never-unrel":
		id, rel = 78, false
	case "witness":
		id = x.wa.GetID()
		w.Ev("note", "what", "hostile frames on the witness tube itself: the witness may die, only liveness of Stop is probed")
	case "finwait1-rel", "lastack-rel":
		// the victim's end has a FIN outstanding; its frames towards the (real) peer tube are withheld so that only the
		// injected frames answer it.  A fresh tube is brought into that state for every class triple (see below).
		wid := x.wa.GetID()
		x.n.SetPolicy(func(f *scriptconn.Frame) scriptconn.Action {
			if f.Dir == 1 && f.Tube != wid && !f.REQ && !f.RESP {
				return scriptconn.Action{Drop: true}
			}
			return scriptconn.Action{}
		})
		sent = 2 // the FIN is frame 1
	case "full-unrel":
		rel = false // a fresh tube with a full receive queue is made for every class triple (see below)
	}
	// an unreliable tube the victim's application accepted but does not read, its receive queue exactly full
	fullTube := func() byte {
		t, _ := x.ma.CreateUnreliableTube(15)
		x.mb.Accept()
		time.Sleep(2 * time.Millisecond)
		d := make([]byte, 16)
		for k := 0; k < 1000; k++ {
			x.n.B.Inject(frame(t.GetID(), 0, uint16(len(d)), 0, uint32(k+1), d))
		}
		time.Sleep(10 * time.Millisecond)
		return t.GetID()
	}
	finTube := func() byte {
		t, _ := x.ma.CreateReliableTube(14)
		tb0, _ := x.mb.Accept()
		tb := tb0.(*tubes.Reliable)
		if ref == "lastack-rel" {
			t.Close() // the peer's FIN arrives first: closeWait, then the local close: lastAck
			time.Sleep(15 * time.Millisecond)
		}
		tb.Close()
		time.Sleep(10 * time.Millisecond)
		return t.GetID()
	}
	lens := []string{"zero", "exact", "declared-less", "declared-more", "declared-max", "exact-huge"}
	if ref == "finwait1-rel" || ref == "lastack-rel" {
		sent = 2
	}
	acks := map[string]uint32{"below": ackNo - 1, "current": ackNo, "sent": sent, "beyond": sent + 5, "max": 0xffffffff}
	rnext := uint32(1) // what the victim's receiver expects next
	if ref == "lastack-rel" {
		rnext = 2 // the peer's FIN was frame 1
	}
	nos := map[string]uint32{"below": rnext - 1, "next": rnext, "inwindow": rnext + 6, "beyond": 5000}
	count := 0
	for _, lc := range lens {
		for ac, av := range acks {
			for nc, nv := range nos {
				if ref == "finwait1-rel" || ref == "lastack-rel" {
					id = finTube()
				}
				if ref == "full-unrel" {
					id = fullTube()
				}
				for meta := 0; meta < 64; meta++ {
					m := byte(meta)
					if rel {
						m |= 4
					} else {
						m &^= 4
					}
					data := make([]byte, 40)
					rng.Read(data)
					declared := uint16(len(data))
					switch lc {
					case "zero":
						data, declared = nil, 0
					case "declared-less":
						declared = 5
					case "declared-more":
						declared = 4000
					case "declared-max":
						declared = 65535
					case "exact-huge":
						data = make([]byte, hugeSizes[(meta+count/64)%len(hugeSizes)])
						rng.Read(data[:64])
						declared = uint16(len(data))
					}
					w.Ev("case", "ref", ref, "len", lc, "ack", ac, "no", nc, "meta", meta)
					if count%16 == 0 {
						w.Flush()
					}
					x.n.B.Inject(frame(id, m, declared, av, nv, data))
					count++
				}
				w.Flush()
				time.Sleep(2 * time.Millisecond)
				if ref != "witness" {
					x.probe(fmt.Sprintf("%s/%s/%s/%s", ref, lc, ac, nc))
				}
			}
		}
	}
	if ref == "finwait1-rel" {
		// reordering at the end of a tube that the victim closed first: the peer acknowledges the FIN (finWait2), the
		// peer's FIN (frame 2) overtakes its last data frame (frame 1)
		for k := 0; k < 3; k++ {
			id = finTube()
			w.Ev("case", "ref", ref, "len", "exact", "ack", "sent", "no", "next", "meta", 100+k)
			w.Flush()
			x.n.B.Inject(frame(id, 4|8, 0, 2, 1, nil))       // pure ACK of the FIN
			x.n.B.Inject(frame(id, 4|8|16, 0, 2, 2, nil))    // FIN, frame 2
			x.n.B.Inject(frame(id, 4, 1, 2, 1, []byte{'x'})) // the data frame it overtook, frame 1
			if k == 1 {
				x.n.B.Inject(frame(id, 4|8, 1, 2, 1, []byte{'x'}))
			}
			time.Sleep(5 * time.Millisecond)
			x.probe(ref + "/fin-overtakes-data")
		}
	}
	time.Sleep(100 * time.Millisecond)
	x.n.SetPolicy(nil) // the withheld direction is restored: Stop is probed on a faithful network (loss is C16's subject)
	x.stop()
	w.Ev("done", "cases", count)
}

func flood(rng *rand.Rand) {
	x := setup()
	// REQ frames for 125 reliable and 125 unreliable tubes of the hostile side's parity, never accepted by B's application
	for i := 0; i < 125; i++ {
		for _, relbit := range []byte{4, 0} {
			id := byte(1 + 2*i)
			b := []byte{id, 1 | 8 | relbit, 0, 0, byte(40 + i%3), 0, 0, 0, 0, 0}
			w.Ev("case", "ref", "flood", "len", "zero", "ack", "current", "no", "next", "meta", int(b[1]))
			x.n.B.Inject(b)
		}
		if i%25 == 24 {
			w.Flush()
			time.Sleep(20 * time.Millisecond)
			x.probe(fmt.Sprintf("flood after %d requests", 2*(i+1)))
		}
	}
	x.stop()
	w.Ev("done", "cases", 250)
}

// ---- decoders --------------------------------------------------------------------------------------

func measure(name, class string, input []byte, f func(c net.Conn) error) {
	w.Ev("case", "ref", "decoder:"+name, "len", class, "ack", "-", "no", "-", "meta", len(input))
	w.Flush()
	c1, c2 := net.Pipe()
	go func() {
		c1.SetWriteDeadline(time.Now().Add(3 * time.Second))
		c1.Write(input)
		c1.Close()
	}()
	runtime.GC()
	var m0, m1 runtime.MemStats
	runtime.ReadMemStats(&m0)
	outcome := "value"
	func() {
		defer func() {
			if r := recover(); r != nil {
				outcome = "panic: " + fmt.Sprint(r)
			}
		}()
		c2.SetDeadline(time.Now().Add(3 * time.Second))
		if err := f(c2); err != nil {
			outcome = "error"
		}
	}()
	runtime.ReadMemStats(&m1)
	c2.Close()
	w.Ev("decode", "decoder", name, "class", class, "bytes", len(input), "outcome", outcome, "alloc", int64(m1.TotalAlloc-m0.TotalAlloc))
}

func u32(v uint32) []byte { b := make([]byte, 4); binary.BigEndian.PutUint32(b, v); return b }
func u16(v uint16) []byte { b := make([]byte, 2); binary.BigEndian.PutUint16(b, v); return b }

func decoders(rng *rand.Rand) {
	rnd := func(n int) []byte { b := make([]byte, n); rng.Read(b); return b }
	// execution request: flags(1) cmdlen(4) cmd termlen(4) term [size(8)]
	exec := func(c net.Conn) error { _, _, _, _, err := codex.GetCmd(c); return err }
	validExec := append(append(append([]byte{3}, u32(5)...), []byte("ls -l")...), append(u32(5), append([]byte("xterm"), make([]byte, 8)...)...)...)
	for class, in := range map[string][]byte{"empty": {}, "truncated-header": {1, 0, 0}, "truncated-body": validExec[:8], "valid": validExec,
		"length-gt-remaining": append([]byte{0}, append(u32(1000), []byte("abc")...)...), "length-max": append([]byte{0}, u32(1<<28)...),
		"unknown-enum": append([]byte{0xfc}, validExec[1:]...), "random": rnd(300)} {
		measure("exec", class, in, exec)
	}
	// authgrant messages
	kp := keys.GenerateNewX25519KeyPair()
	leaf, _ := certs.SelfSignLeaf(&certs.Identity{PublicKey: kp.Public, Names: []certs.Name{certs.RawStringName("d")}})
	var vb bytes.Buffer
	authgrants.WriteIntentRequest(&vb, authgrants.Intent{GrantType: authgrants.Command, TargetSNI: certs.DNSName("t"), TargetUsername: "u", DelegateCert: *leaf,
		StartTime: time.Unix(1, 0), ExpTime: time.Unix(2, 0), AssociatedData: authgrants.GrantData{CommandGrantData: authgrants.CommandGrantData{Cmd: "ls"}}})
	vi := vb.Bytes()
	intent := func(c net.Conn) error { _, err := authgrants.ReadIntentRequest(c); return err }
	for gt := 0; gt < 8; gt++ {
		m := append([]byte(nil), vi...)
		m[1] = byte(gt)
		measure("intent", "unknown-enum", m, intent)
	}
	for class, in := range map[string][]byte{"empty": {}, "truncated-header": vi[:3], "truncated-body": vi[:len(vi)/2], "valid": vi, "random": rnd(400),
		"length-gt-remaining": append(append([]byte(nil), vi[:21]...), 255, 1, 250), "length-max": append(append([]byte(nil), vi[:21]...), 255, 255, 255)} {
		measure("intent", class, in, intent)
	}
	conf := func(c net.Conn) error { _, err := authgrants.ReadConfOrDenial(c); return err }
	for class, in := range map[string][]byte{"empty": {}, "truncated-header": {3}, "truncated-body": {3, 200, 'a'}, "valid": {3, 2, 'n', 'o'}, "unknown-enum": {9, 1, 2},
		"length-gt-remaining": {3, 255, 'x'}, "length-max": {3, 255}, "random": rnd(40)} {
		measure("confdenial", class, in, conf)
	}
	ti := func(c net.Conn) error { _, err := authgrants.ReadTargetInfo(c); return err }
	for class, in := range map[string][]byte{"empty": {}, "truncated-header": {}, "truncated-body": {40, 'h'}, "valid": append([]byte{12}, []byte("hop://u@h:77")...), "unknown-enum": append([]byte{5}, []byte("\x00\x01\x02\x03\x04")...),
		"length-gt-remaining": {255, 'x'}, "length-max": {255}, "random": rnd(60)} {
		measure("targetinfo", class, in, ti)
	}
	pr := func(c net.Conn) error { authgrants.ReadResponse(c); return nil }
	for class, in := range map[string][]byte{"empty": {}, "truncated-header": {}, "truncated-body": {0, 9, 'x'}, "valid": {1}, "unknown-enum": {7, 1, 'x'},
		"length-gt-remaining": {0, 255, 'x'}, "length-max": {0, 255}, "random": rnd(50)} {
		measure("proxyresponse", class, in, pr)
	}
	// user authentication and window size are read from a reliable tube: a real tube pair carries the hostile bytes
	for class, in := range map[string][]byte{"empty": {}, "truncated-header": {0}, "truncated-body": {0, 50, 'a', 'b'}, "valid": append(u16(5), []byte("alice")...),
		"length-gt-remaining": append(u16(60000), 'x'), "length-max": u16(65535), "unknown-enum": {0, 0}, "random": rnd(100)} {
		tubeDecode("userauth", class, in, func(t *tubes.Reliable, _ *tubes.Muxer) error { userauth.GetInitMsg(t); return nil })
	}
	// port-forward control packet: nettype(1) fwdtype(1) addrlen(2) addr - read by StartPFServer from a reliable tube.
	// Every network-type byte x forward-type byte with an unconnectable address, plus the malformed classes.
	pf := func(t *tubes.Reliable, m *tubes.Muxer) error {
		portforwarding.StartPFServer(t, &portforwarding.Forward{}, m)
		return nil
	}
	addr := []byte("127.0.0.1:1")
	pkt := func(nt, ft byte, declared int, a []byte) []byte {
		return append(append([]byte{nt, ft}, u16(uint16(declared))...), a...)
	}
	for nt := 0; nt < 8; nt++ {
		for _, ft := range []byte{0, 1, 3, 4, 6, 255} { // not the "remote" type: a valid remote request legitimately keeps listening
			tubeDecode("pfaddr", "unknown-enum", pkt(byte(nt), ft, len(addr), addr), pf)
		}
	}
	for class, in := range map[string][]byte{"empty": {}, "truncated-header": {1, 4, 0}, "truncated-body": pkt(1, 4, 11, addr[:4]), "valid": pkt(1, 4, len(addr), addr),
		"length-gt-remaining": pkt(1, 4, 5000, addr), "length-max": pkt(3, 4, 65535, nil), "random": rnd(80)} {
		tubeDecode("pfaddr", class, in, pf)
	}
	// window size: 8-byte records until end of stream, applied to a pty file (here: a plain file, Setsize just fails)
	f, _ := os.CreateTemp("", "vf-c11-pty")
	defer os.Remove(f.Name())
	ws := func(t *tubes.Reliable, _ *tubes.Muxer) error { codex.HandleSize(t, f); return nil }
	for class, in := range map[string][]byte{"empty": {}, "truncated-header": {0, 24}, "truncated-body": {0, 24, 0, 80, 0}, "valid": {0, 24, 0, 80, 0, 0, 0, 0},
		"length-gt-remaining": append(make([]byte, 8), 1, 2, 3), "length-max": bytes.Repeat([]byte{0xff}, 8), "unknown-enum": make([]byte, 8), "random": rnd(803)} {
		tubeDecode("winsize", class, in, ws)
	}
}

func tubeDecode(name, class string, input []byte, f func(t *tubes.Reliable, m *tubes.Muxer) error) {
	w.Ev("case", "ref", "decoder:"+name, "len", class, "ack", "-", "no", "-", "meta", len(input))
	w.Flush()
	n := scriptconn.New(nil)
	log := logrus.New()
	log.SetOutput(io.Discard)
	ma, mb := tubes.Client(n.A, &tubes.Config{Log: logrus.NewEntry(log)}), tubes.Server(n.B, &tubes.Config{Log: logrus.NewEntry(log)})
	ta, err := ma.CreateReliableTube(1)
	if err != nil {
		panic(err)
	}
	t, _ := mb.Accept()
	tb := t.(*tubes.Reliable)
	ta.Write(input)
	ta.Close()
	runtime.GC()
	var m0, m1 runtime.MemStats
	runtime.ReadMemStats(&m0)
	outcome := "value"
	done := make(chan struct{})
	go func() {
		defer close(done)
		defer func() {
			if r := recover(); r != nil {
				outcome = "panic: " + fmt.Sprint(r)
			}
		}()
		tb.SetReadDeadline(time.Now().Add(2 * time.Second))
		if err := f(tb, mb); err != nil {
			outcome = "error"
		}
	}()
	select {
	case <-done:
	case <-time.After(6 * time.Second):
		outcome = "hang"
	}
	runtime.ReadMemStats(&m1)
	w.Ev("decode", "decoder", name, "class", class, "bytes", len(input), "outcome", outcome, "alloc", int64(m1.TotalAlloc-m0.TotalAlloc))
	go ma.Stop()
	go mb.Stop()
}

func main() {
	logrus.SetOutput(io.Discard)
	w = rec.Must(os.Args[2])
	defer w.Close()
	seed, _ := strconv.ParseInt(os.Args[3], 10, 64)
	rng := rand.New(rand.NewSource(seed))
	time.AfterFunc(300*time.Second, func() { w.Ev("stuck", "after_s", 300); w.Close(); os.Exit(3) })
	switch os.Args[1] {
	case "frames":
		g, _ := strconv.Atoi(os.Args[4])
		frames(g, rng)
	case "flood":
		flood(rng)
	case "decoders":
		decoders(rng)
	}
}
