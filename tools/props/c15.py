# C15 — a session's peer address moves only on authentic, fresh packets (DESIGN.md §3 C15)
import lib
from props import tr_common as T

def run(v, tier, replay):
    thorough = tier == "thorough"
    v.assumptions += ["one session, addresses {client home, client roamed, server, third party}; packets <= 3/6, steps <= 5/14",
                      "mutations: one region per delivery (type, reserved, session id, counter, body, tag, truncation), forged packets with the session's public header",
                      "the peer address is read from the session state (verif build) and, for writes, from the destination seen on the wire"]
    T.design(v, thorough)
    behs = T.behaviours(v, 6000 if thorough else 1200)
    res, err = T.replay(behs)
    if res is None:
        raise lib.Inconclusive("trreplay failed: " + err)
    nun = T.judge(v, "C15", behs, res)
    # long session with replays from a third address: recorded from the real pair, judged by TLC
    import os, re
    binp = lib.go_build("trwrite")
    sd = lib.scratch("vf-c15-")
    tr = os.path.join(sd, "trace.ndjson")
    rc, so, se = lib.run([binp, tr, str(lib.seed()), "1" if thorough else "0", "long"], timeout=1800)
    if rc != 0:
        raise lib.Inconclusive("trwrite failed: " + (so + se)[-3000:])
    events = lib.read_ndjson(tr)
    r = lib.tlc("Trace_HopTransport", "Trace_HopTransport.cfg", files={"trace.ndjson": "@" + tr}, workers=1, timeout=900)
    v.add_tlc("Trace_HopTransport (long session, replays from a third address)", r)
    if not r.ok:
        raise lib.Inconclusive("trace not consumed by Trace_HopTransport: %s" % r.kind)
    v.cov["traces_validated_against_impl"] += 1
    for e in events:
        v.case(("long", e["sent"], e["replays"], e["hidden"]))
        v.sample(e)
    for m in re.finditer(r'<<"MISMATCH", (\d+)>>', r.out):
        e = events[int(m.group(1)) - 1]
        if e["moved"] > 0:
            v.violation("long session: replayed datagrams from a third address moved the peer address %d times (%d of %d replays delivered again)" % (e["moved"], e["redelivered"], e["replays"]),
                        "real pair, faithful delivery of %d messages with replays of earlier datagrams from another address" % e["sent"], e)
    if nun and not v.viol:
        raise lib.Inconclusive("%d behaviours differ between model and code in ways no property clause explains" % nun)
