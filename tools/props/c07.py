# C07 — a delegate session can do only what its grants allow, once, and in time (DESIGN.md §3 C07)
import json, os, re, concurrent.futures
import lib

# which switches of HopGrants.tla describe the code in /repo
CODE = dict(CheckStart="TRUE", CheckIssue="TRUE", CheckPF="TRUE")   # as found: all three FALSE; all three repaired in /repo

CFG = """SPECIFICATION %s
CONSTANTS
  Palette <- Pal
  MaxAdd = %d  MaxSess = 2  MaxReq = %d  MaxTime = 3
  CheckStart = %s  CheckIssue = %s  CheckPF = %s  MaxToggle = %d
INVARIANTS %s
CHECK_DEADLOCK FALSE
"""
PROPS = "Justified SingleUse OnePlace OwnGrantsOnly NoIssuing AdmittedOnlyWhenEnabled"
TYPES = {"shell": 1, "cmd": 2, "localpf": 3, "remotepf": 4}

def histories(num, seed, sw, toggles=1):
    cfg = CFG % ("SimSpec", 4, 4, sw["CheckStart"], sw["CheckIssue"], sw["CheckPF"], toggles, "Emit")
    r = lib.tlc("MC_HopGrants", "sim.cfg", workers=1, simulate="num=%d" % num, depth=15, tlc_seed=seed, timeout=900, files={"sim.cfg": cfg})
    out, seen = [], set()
    for m in re.finditer(r'<<"BEH", "(.*)">>', r.out):
        s = m.group(1).encode().decode("unicode_escape")
        if s in seen:
            continue
        seen.add(s)
        h = json.loads(s)
        if not any(o["op"] == "request" for o in h):
            continue
        out.append(dict(id=len(out), hist=h))
    return r, out

PAL = {1: ("cmd", "A", 0, 3, "u1", "k1"), 2: ("shell", "-", 1, 3, "u1", "k1"), 3: ("cmd", "A", 0, 1, "u1", "k1"), 4: ("cmd", "AB", 0, 3, "u1", "k1"),
       7: ("localpf", "-", 0, 2, "u1", "k1"), 8: ("shell", "-", 0, 3, "u1", "k1"), 9: ("remotepf", "-", 1, 3, "u1", "k1")}

def directed():
    """Histories written down directly (same format, judged by the same predicates; no model expectation attached):
    an expired grant stored in front of / behind live ones when a further grant is added, every kind then requested
    twice; and forwarding requests whose control tube was opened while the grant was valid but which are made after
    it expired (or before it starts)."""
    G = lambda i: dict(id=i, type=PAL[i][0], cmd=PAL[i][1], start=PAL[i][2], exp=PAL[i][3], user=PAL[i][4], key=PAL[i][5])
    add = lambda i: dict(op="add", g=G(i)); tick = lambda n: dict(op="tick", now=n)
    con = lambda sid: dict(op="connect", user="u1", key="k1", sid=sid)
    req = lambda sid, i: dict(op="request", sid=sid, kind=dict(type=PAL[i][0], cmd=PAL[i][1]))
    out = []
    for live in (1, 4, 8, 7):
        for new in (1, 4, 8, 7, 2):
            if new == live:
                continue
            for order in ((3, live), (live, 3)):
                for t in (1, 2):
                    h = [add(order[0]), add(order[1])] + [tick(k) for k in range(1, t + 1)] + [add(new), con(1)]
                    h += [req(1, live), req(1, live), req(1, new), req(1, new), req(1, 3)]
                    out.append(h)
    for g, t_open, t_req in ((7, 0, 2), (7, 1, 2), (7, 1, 3), (9, 1, 3), (9, 2, 3), (9, 0, 1), (7, 0, 1)):
        h = [add(g)] + [tick(k) for k in range(1, t_open + 1)] + [con(1), dict(op="pfopen", sid=1)] + [tick(k) for k in range(t_open + 1, t_req + 1)] + [req(1, g), req(1, g)]
        out.append(h)
    return out

def kind_s(k):
    return k["type"] + ("(" + k["cmd"] + ")" if k["type"] == "cmd" else "")

def desc(h):
    parts = []
    for o in h:
        if o["op"] == "add":
            g = o["g"]; parts.append("add g%d=%s[%d,%d)%s/%s" % (g["id"], kind_s(g), g["start"], g["exp"], g["user"], g["key"]))
        elif o["op"] == "tick":
            parts.append("t=%d" % o["now"])
        elif o["op"] == "toggle":
            parts.append("grants %s" % ("on" if o["enabled"] else "OFF"))
        elif o["op"] == "connect":
            parts.append("connect s%d=%s/%s" % (o["sid"], o["user"], o["key"]))
        elif o["op"] == "pfopen":
            parts.append("s%d opens a forwarding control tube" % o["sid"])
        else:
            parts.append("s%d:%s" % (o["sid"], kind_s(o["kind"])))
    return " ; ".join(parts)

def judge(h, res):
    """C07 on what the real server did: every started action needs its own grant (greedy matching is exact here:
    a started action of a kind can only be justified by a grant of that kind/text, so per kind we need
    #started <= #grants that were effective at the respective times - checked by assigning earliest-expiring first)"""
    out = []
    now = 0
    grants = []          # all added: dict
    sess = {}            # sid -> dict(user,key,admitted, pool: grants moved in at admission)
    store = {}           # (user,key) -> list of grants
    used = set()
    enabled = True
    d = desc(h)
    for o, r in zip(h, res):
        if o["op"] == "add":
            g = dict(o["g"]); grants.append(g); store.setdefault((g["user"], g["key"]), []).append(g)   # the model adds only while enabled
        elif o["op"] == "tick":
            now = o["now"]
        elif o["op"] == "toggle":
            enabled = o["enabled"]
        elif o["op"] == "connect":
            pool = store.get((o["user"], o["key"]), [])
            if r["admitted"] and not enabled:
                out.append("a key without an authorized_keys entry was admitted through a stored grant while authorization grants were switched off | %s" % d)
            if r["admitted"]:
                if not pool:
                    out.append("a key was admitted for a user although no grant was stored for that user and key | %s" % d)
                store[(o["user"], o["key"])] = []
            sess[o["sid"]] = dict(user=o["user"], key=o["key"], ok=r["admitted"], pool=list(pool) if r["admitted"] else [])
        elif o["op"] == "request" and r.get("started"):
            s = sess[o["sid"]]; k = o["kind"]
            if k["type"] == "pfdata":
                if not s.get("fwd"):
                    out.append("a port-forwarding data tube was proxied to the requested address in a grant-admitted session although no local forwarding had been authorized in it | %s" % d)
                continue
            if k["type"] == "issue":
                out.append("a session admitted through grants issued a further grant (authorization-grant tube accepted, intent confirmed) | %s" % d); continue
            cands = [g for g in s["pool"] if g["id"] not in used and g["type"] == k["type"] and (k["type"] != "cmd" or g["cmd"] == k["cmd"])]
            eff = [g for g in cands if g["start"] <= now < g["exp"]]
            if eff:
                used.add(sorted(eff, key=lambda g: g["exp"])[0]["id"])
                if k["type"] == "localpf":
                    s["fwd"] = True
                continue
            why = "its only matching grant is not yet effective (start %d, now %d)" % (cands[0]["start"], now) if any(now < g["start"] for g in cands) else \
                  "its matching grant has expired" if cands else \
                  "its matching grant was already used" if any(g["type"] == k["type"] and (k["type"] != "cmd" or g["cmd"] == k["cmd"]) for g in s["pool"]) else \
                  "it holds no grant of that kind" + (" and text" if k["type"] == "cmd" else "")
            out.append("%s started in a grant-admitted session although %s | %s" % (kind_s(k), why, d))
    return out

def run(v, tier, replay):
    thorough = tier == "thorough"
    v.assumptions += ["palette of 8 grants (same command twice, a command text that is a prefix of another, a grant effective later, one expiring early, same key for another user, same user with another key, port forwarding, two shells); clock 0..3",
                      "a request that passed the grant check is recognised by the failure of the next step (user lookup is made to fail, nothing is executed); port forwarding by the success byte; grant issuing by an Intent Confirmation",
                      "refusals are never violations; a model/code difference that no predicate explains ends the check with exit 2"]
    r = lib.tlc("MC_HopGrants", "mc.cfg", timeout=900, files={"mc.cfg": CFG % ("MCSpec", 3, 3, "TRUE", "TRUE", "TRUE", 1, PROPS)})
    lib.tlc_must_pass(r, "HopGrants"); v.add_tlc("HopGrants, all checks on: C07 invariants (exhaustive: 3 grants of 8, 2 sessions, 3 requests, 4 clock values)", r)
    for sw, what in ((dict(CheckStart="FALSE", CheckIssue="TRUE", CheckPF="TRUE"), "start of the validity window ignored"),
                     (dict(CheckStart="TRUE", CheckIssue="FALSE", CheckPF="TRUE"), "delegate session may issue grants"),
                     (dict(CheckStart="TRUE", CheckIssue="TRUE", CheckPF="FALSE"), "port forwarding unchecked")):
        r = lib.tlc("MC_HopGrants", "bad.cfg", timeout=600, files={"bad.cfg": CFG % ("MCSpec", 3, 3, sw["CheckStart"], sw["CheckIssue"], sw["CheckPF"], 0, PROPS)})
        v.add_tlc("HopGrants with %s: must violate" % what, r)
        if r.kind != "invariant":
            raise lib.Inconclusive("self-test: variant '%s' is not rejected (%s)" % (what, r.kind))
    r, hs = histories(12000 if thorough else 2500, lib.seed(), CODE)
    v.add_tlc("MC_HopGrants simulation (history generation, switches as the code)", r)
    if len(hs) < 300:
        raise lib.Inconclusive("too few histories: %d\n%s" % (len(hs), r.out[-800:]))
    ndir = 0
    for h in directed():
        hs.append(dict(id=len(hs), hist=h, directed=True)); ndir += 1
    v.cov["directed_histories"] = ndir
    sd = lib.scratch("vf-c07-")
    NP = 8
    def child(i):
        inp = os.path.join(sd, "h-%d.ndjson" % i); out = os.path.join(sd, "o-%d.ndjson" % i)
        lib.write_ndjson(inp, hs[i::NP])
        rc, so, se = lib.overlay_test("hopserver", "^TestVerifGrantsReplay$", env_extra={"VT_IN": inp, "VT_OUT": out}, timeout=1500, only=["zz_verif_grants_test.go"])
        return i, rc, out, (so + se)[-3000:]
    unexplained = []
    with concurrent.futures.ThreadPoolExecutor(max_workers=NP) as ex:
        for i, rc, out, tail in ex.map(child, range(NP)):
            evs = lib.read_ndjson(out) if os.path.exists(out) else []
            if rc != 0 or not any(e.get("done") for e in evs):
                raise lib.Inconclusive("overlay driver %d failed: rc=%s\n%s" % (i, rc, tail))
            for e in evs:
                if "results" not in e:
                    continue
                h = hs[e["id"]]["hist"]
                v.case(("hist", desc(h)), nontrivial=True)
                v.count("histories_replayed"); v.count("steps_replayed", len(h))
                for sig in judge(h, e["results"]):
                    v.violation(sig, "TLC-generated history replayed on a real HopServer and real sessions (tubes opened as a client does)", dict(history=h, observed=e))
                diffs = []
                if hs[e["id"]].get("directed"):
                    v.count("traces_validated_against_impl")
                    continue
                for n, (o, r_) in enumerate(zip(h, e["results"])):
                    if o["op"] == "connect" and o["admitted"] != r_["admitted"]:
                        diffs.append("step %d connect: model admitted=%s code %s" % (n, o["admitted"], r_["admitted"]))
                    if o["op"] == "request":
                        if o["started"] != r_["started"]:
                            diffs.append("step %d %s: model started=%s code %s (%s)" % (n, kind_s(o["kind"]), o["started"], r_["started"], r_.get("detail")))
                        elif o["left"] != r_["left"]:
                            diffs.append("step %d %s: model leaves %d grants in the session, code %d" % (n, kind_s(o["kind"]), o["left"], r_["left"]))
                    ks_m = sorted(o["obs"]["keyset"]); ks_c = sorted(k for k, x in r_["keyset"].items() if x)
                    if ks_m != ks_c:
                        diffs.append("step %d %s: key set model %s code %s" % (n, o["op"], ks_m, ks_c))
                last = h[-1]["obs"]["store"]
                st_m = {"%s/%s" % (u, k): n for u, d_ in last.items() for k, n in d_.items() if n}
                if st_m != e["store"]:
                    diffs.append("store at the end: model %s code %s" % (st_m, e["store"]))
                if diffs:
                    unexplained.append("%s: %s" % (desc(h), diffs[:2]))
                else:
                    v.count("traces_validated_against_impl")
    v.sample(dict(history=desc(hs[0]["hist"])))
    v.cov["model_code_differences"] = len(unexplained)
    if unexplained and not v.viol:
        raise lib.Inconclusive("%d histories where model and code differ without a property being violated, e.g. %s" % (len(unexplained), unexplained[:3]))
    if unexplained:
        v.cov["unexplained_examples"] = unexplained[:3]

    # simultaneous requests for ONE grant in one session (every request is checked in its own goroutine); race-detector build
    outc = os.path.join(sd, "conc.ndjson")
    rc, so, se = lib.overlay_test("hopserver", "^TestVerifGrantsConcurrent$", env_extra={"VT_OUT": outc, "GORACE": "halt_on_error=1"}, timeout=1500, race=True)
    evs = lib.read_ndjson(outc) if os.path.exists(outc) else []
    if rc != 0 and "WARNING: DATA RACE" in (so + se):
        where = [l.strip().split(" ")[0] for l in (so + se).split("\n") if lib.REPO_MARK in l and "zz_verif" not in l][:2]
        v.violation("data race between simultaneous requests of one session on the list of unused grants (%s)" % ", ".join(w.split(lib.REPO_MARK)[-1] for w in where), "race detector, overlay driver TestVerifGrantsConcurrent", dict(tail=(so + se)[-1500:]))
    elif (rc != 0 or not any(e.get("done") for e in evs)) and v.viol:
        v.cov["concurrent_grant_driver"] = "not run (did not build or finish); violations were already established by the replay"
    elif rc != 0 or not any(e.get("done") for e in evs):
        raise lib.Inconclusive("concurrent-grant driver failed: rc=%s\n%s" % (rc, (so + se)[-1500:]))
    for e in evs:
        if e.get("ev") != "concgrant":
            continue
        v.count("concurrent_grant_rounds", e["rounds"])
        v.case(("concgrant", e["kind"], e["n"]), nontrivial=True)
        if e["rounds_with_more_than_one"] > 0 or e["panics"] > 0:
            v.violation("one %s grant, %d simultaneous requests in one session: more than one request authorized in %d of %d rounds (max %d), %d panics" % (e["kind"], e["n"], e["rounds_with_more_than_one"], e["rounds"], e["max_ok"], e["panics"]),
                        "overlay driver TestVerifGrantsConcurrent on real hopSession values", e)
