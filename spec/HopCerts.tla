------------------------------ MODULE HopCerts ------------------------------
(* Certificate verification (certs/verify.go Store.VerifyLeaf, VerifyParent) and issuance    *)
(* (certs/issue.go) over small certificate forests.                                          *)
(*                                                                                           *)
(* Five certificate slots R1 R2 I1 I2 L.  A slot's fingerprint is its slot name, its key is  *)
(* the key of the same name; "X" is a key nobody in the forest owns, "zero" a fingerprint    *)
(* that names nothing.  A configuration cfg assigns every field of every slot, the trust     *)
(* store, the verifier's options and the clock.                                              *)
(*                                                                                           *)
(*   ValidChain(c)  the property text of C04, declaratively                                  *)
(*   Decide(c)      the ordered decision procedure of the code, returning a reason           *)
(* TLC checks Decide(c) = "ok" <=> ValidChain(c) on every configuration within K field       *)
(* changes of three valid baselines, and emits each configuration with the verdict so that   *)
(* the harness can materialise it with real keys and signatures and run the real verifier.   *)
EXTENDS Integers, Sequences, FiniteSets, TLC, Json

CONSTANTS K            \* maximal number of fields differing from the nearest baseline

Slots  == {"R1", "R2", "I1", "I2", "L"}
Types  == {"leaf", "inter", "root", "unk"}
Wins   == {<<1, 4>>, <<0, 6>>, <<2, 3>>}          \* [issuedAt, expiresAt) on a clock 0..5
Clock  == 0..5
NameSets == {"A", "AB", "none"}                    \* A = {dns:a}; AB = {dns:b, raw:a}; none = {}
ReqNames == {"zero", "dns:a", "dns:b", "raw:a", "raw:b"}
Has(ns, n) == \/ ns = "A"  /\ n = "dns:a"
              \/ ns = "AB" /\ n \in {"dns:b", "raw:a"}

(* dimension -> set of values; first the certificate fields, then environment *)
Dim == [ Ltype  |-> Types, Lnames |-> NameSets, Lwin |-> Wins,
         Lpar   |-> {"I1", "I2", "R1", "zero"},  Lsig |-> {"I1", "I2", "R1", "X"},
         I1type |-> {"inter", "leaf", "root"},   I1win |-> Wins,
         I1par  |-> {"R1", "R2", "zero"},        I1sig |-> {"R1", "R2", "X"},
         I2win  |-> Wins,
         R1type |-> {"root", "inter"},           R1win |-> Wins,
         R2type |-> {"root", "inter"},
         sR1 |-> BOOLEAN, sR2 |-> BOOLEAN, sI1 |-> BOOLEAN, sI2 |-> BOOLEAN,
         pres |-> {"none", "I1", "I2"},
         name |-> ReqNames,
         now  |-> Clock ]
Dims == DOMAIN Dim

Base1 == [ Ltype |-> "leaf", Lnames |-> "A", Lwin |-> <<1, 4>>, Lpar |-> "I1", Lsig |-> "I1",
           I1type |-> "inter", I1win |-> <<1, 4>>, I1par |-> "R1", I1sig |-> "R1",
           I2win |-> <<1, 4>>, R1type |-> "root", R1win |-> <<1, 4>>, R2type |-> "root",
           sR1 |-> TRUE, sR2 |-> FALSE, sI1 |-> TRUE, sI2 |-> FALSE,
           pres |-> "none", name |-> "dns:a", now |-> 2 ]
Base2 == [Base1 EXCEPT !.sI1 = FALSE, !.pres = "I1", !.name = "zero"]         \* presented intermediate
Base3 == [Base1 EXCEPT !.Lpar = "I2", !.Lsig = "I2", !.sR2 = TRUE, !.sI2 = TRUE, !.Lnames = "AB", !.name = "raw:a"]
Bases == {Base1, Base2, Base3}

-----------------------------------------------------------------------------
(* Slot views of a configuration.  I2 is a well-formed intermediate under R2.                *)
Type(c, s)  == CASE s = "L" -> c.Ltype [] s = "I1" -> c.I1type [] s = "I2" -> "inter"
                 [] s = "R1" -> c.R1type [] s = "R2" -> c.R2type
Win(c, s)   == CASE s = "L" -> c.Lwin [] s = "I1" -> c.I1win [] s = "I2" -> c.I2win
                 [] s = "R1" -> c.R1win [] s = "R2" -> <<0, 6>>
Par(c, s)   == CASE s = "L" -> c.Lpar [] s = "I1" -> c.I1par [] s = "I2" -> "R2" [] OTHER -> "zero"
Sig(c, s)   == CASE s = "L" -> c.Lsig [] s = "I1" -> c.I1sig [] s = "I2" -> "R2" [] OTHER -> s
Store(c)    == (IF c.sR1 THEN {"R1"} ELSE {}) \cup (IF c.sR2 THEN {"R2"} ELSE {})
               \cup (IF c.sI1 THEN {"I1"} ELSE {}) \cup (IF c.sI2 THEN {"I2"} ELSE {})
ValidAt(c, s) == Win(c, s)[1] <= c.now /\ c.now < Win(c, s)[2]        \* half-open
SignedBy(c, child, parent) == Par(c, child) = parent /\ Sig(c, child) = parent

-----------------------------------------------------------------------------
(* The property, declaratively.                                                              *)
ValidChain(c) ==
    /\ Type(c, "L") = "leaf"
    /\ (c.name # "zero" => Has(c.Lnames, c.name))
    /\ \E i \in {"I1", "I2", "R1", "R2"} :
         /\ (i = c.pres \/ i \in Store(c))               \* presented or stored ...
         /\ Type(c, i) = "inter" /\ SignedBy(c, "L", i)  \* ... intermediate whose fingerprint L names, and which signed L
         /\ \E r \in Store(c) :                          \* a root-type certificate in the store signed it
              Type(c, r) = "root" /\ SignedBy(c, i, r)
              /\ ValidAt(c, "L") /\ ValidAt(c, i) /\ ValidAt(c, r)

(* The code's procedure, in its order of checks, with the reason it reports.                 *)
Decide(c) ==
    IF Type(c, "L") # "leaf" THEN "type"
    ELSE IF c.name # "zero" /\ ~Has(c.Lnames, c.name) THEN "name"
    ELSE IF ~ValidAt(c, "L") THEN "time"
    ELSE LET i == IF c.pres # "none" /\ Par(c, "L") = c.pres THEN c.pres
                  ELSE IF Par(c, "L") \in Store(c) THEN Par(c, "L") ELSE "none"
         IN  IF i = "none" THEN "unknown-intermediate"
             ELSE IF Type(c, i) # "inter" THEN "type"
             ELSE IF ~ValidAt(c, i) THEN "time"
             ELSE IF Sig(c, "L") # i THEN "unverified-parent"
             ELSE LET r == IF Par(c, i) \in Store(c) THEN Par(c, i) ELSE "none"
                  IN  IF r = "none" THEN "unknown-root"
                      ELSE IF Type(c, r) # "root" THEN "type"
                      ELSE IF ~ValidAt(c, r) THEN "time"
                      ELSE IF Sig(c, i) # r THEN "unverified-parent"
                      ELSE "ok"

-----------------------------------------------------------------------------
(* Issuance: IssueLeafAt(parent, at, dur) refuses a parent not valid at `at` and clamps the  *)
(* expiry to the parent's.                                                                   *)
IssueWin(pw, at, dur) == IF dur <= 0 \/ at < pw[1] \/ at >= pw[2] THEN <<>>
                         ELSE <<at, IF at + dur > pw[2] THEN pw[2] ELSE at + dur>>
IssuedChainsVerify ==
    \A pw \in Wins, at \in Clock, dur \in 0..7 :
        LET w == IssueWin(pw, at, dur)
        IN  w # <<>> => /\ w[1] >= pw[1] /\ w[2] <= pw[2] /\ w[1] < w[2]
                        /\ \A t \in Clock : (w[1] <= t /\ t < w[2]) => (pw[1] <= t /\ t < pw[2])

-----------------------------------------------------------------------------
(* State space: configurations within K changed fields of some baseline.                     *)
VARIABLE cfg
DistTo(c, b) == Cardinality({d \in Dims : c[d] # b[d]})
Near(c) == \E b \in Bases : DistTo(c, b) <= K

Init == cfg \in Bases
Mutate(d, val) == /\ val # cfg[d]
                  /\ cfg' = [cfg EXCEPT ![d] = val]
                  /\ Near(cfg')
Next == \E d \in Dims : \E val \in Dim[d] : Mutate(d, val)
Spec == Init /\ [][Next]_cfg

DecideIsValidChain == (Decide(cfg) = "ok") <=> ValidChain(cfg)           \* C04 at design level
BasesValid == \A b \in Bases : ValidChain(b)
Issuance == IssuedChainsVerify

(* Emission for the harness: one line per distinct configuration with the verdicts.          *)
Emit == PrintT(<<"CFG", ToJson([c |-> cfg, valid |-> ValidChain(cfg), reason |-> Decide(cfg)])>>)
=============================================================================
