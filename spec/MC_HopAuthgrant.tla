--------------------------- MODULE MC_HopAuthgrant ---------------------------
EXTENDS HopAuthgrant, Json
Emit == (k > MaxReq) => PrintT(<<"BEH", ToJson([sc |-> sc, cb |-> cb, fwd |-> fwd, stored |-> stored, ans |-> ans])>>)
=============================================================================
