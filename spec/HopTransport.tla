----------------------------- MODULE HopTransport -----------------------------
(* The established Hop transport channel (transport/transport.go readPacketLocked /           *)
(* sealPacketLocked, handle.go send / Write, server.go and client.go handleSessionMessage).   *)
(*                                                                                           *)
(* One session between end "c" (client) and end "s" (server).  Each end has a send counter,  *)
(* a replay filter (set form of ReplayWindow.tla), a bounded receive queue, a closed flag     *)
(* and the address it currently sends to.  Every packet written is captured on the wire;     *)
(* the adversary delivers any captured packet to either end, from any source address, any    *)
(* number of times, unchanged or with one region mutated, and can inject forged packets that *)
(* copy the public header of the session.  An authentic control packet (which only a holder  *)
(* of the keys can make) closes the receiving end.                                           *)
(*                                                                                           *)
(* Receive order of the code: type byte, reserved bytes, session id, replay check, AEAD open *)
(* (associated data = type, reserved, session id, counter), mark, dispatch, address update.  *)
EXTENDS Integers, Sequences, FiniteSets, TLC

CONSTANTS MaxPk,      \* packets written in a behaviour
          MaxSteps,   \* total steps
          Cap,        \* receive queue capacity (packets)
          W           \* replay window (448)

Ends  == {"c", "s"}
Peer(e) == IF e = "c" THEN "s" ELSE "c"
DirFrom(e) == IF e = "c" THEN "c2s" ELSE "s2c"
DirTo(e)   == IF e = "c" THEN "s2c" ELSE "c2s"
Home(e) == IF e = "c" THEN "ca" ELSE "sa"          \* the address each end really has at the start
Addrs == {"ca", "sa", "cb", "x"}                   \* cb: the client after roaming; x: a third party
Muts == {"none", "type", "rsv", "sid", "ctr", "body", "tag", "trunc"}
None == -1

VARIABLES sendCtr, acc, top, q, closed, cause, remote, pkts, sent, steps, hist
vars == <<sendCtr, acc, top, q, closed, cause, remote, pkts, sent, steps, hist>>

Init == /\ sendCtr = [e \in Ends |-> 0]
        /\ acc = [e \in Ends |-> {}] /\ top = [e \in Ends |-> None]
        /\ q = [e \in Ends |-> <<>>]
        /\ closed = [e \in Ends |-> FALSE] /\ cause = [e \in Ends |-> "none"]
        /\ remote = [e \in Ends |-> Home(Peer(e))]
        /\ pkts = <<>> /\ sent = <<>> /\ steps = 0 /\ hist = <<>>

Snap == [rc |-> remote["c"], rs |-> remote["s"], cc |-> closed["c"], cs |-> closed["s"],
         qc |-> Len(q["c"]), qs |-> Len(q["s"])]
Log(rec) == /\ steps' = steps + 1 /\ steps < MaxSteps
            /\ hist' = Append(hist, rec)

(* WriteMsg(e): one packet, counter taken and incremented under the session lock, sent to the *)
(* address captured under the same lock.                                                     *)
Write(e) ==
    /\ Len(pkts) < MaxPk
    /\ IF closed[e]
       THEN /\ UNCHANGED <<sendCtr, pkts, sent>>
            /\ Log([op |-> "write", e |-> e, j |-> 0, a |-> "-", mut |-> "-", ok |-> FALSE, dst |-> "-", after |-> Snap])
       ELSE /\ pkts' = Append(pkts, [dir |-> DirFrom(e), ctr |-> sendCtr[e], kind |-> "data", pl |-> Len(pkts) + 1])
            /\ sendCtr' = [sendCtr EXCEPT ![e] = @ + 1]
            /\ sent' = Append(sent, [pk |-> Len(pkts) + 1, dst |-> remote[e]])
            /\ Log([op |-> "write", e |-> e, j |-> Len(pkts) + 1, a |-> "-", mut |-> "-", ok |-> TRUE, dst |-> remote[e], after |-> Snap])
    /\ UNCHANGED <<acc, top, q, closed, cause, remote>>

(* The peer makes an authentic control (close) packet; it takes a counter like any packet.   *)
Ctl(e) ==
    /\ Len(pkts) < MaxPk /\ ~closed[e]
    /\ pkts' = Append(pkts, [dir |-> DirFrom(e), ctr |-> sendCtr[e], kind |-> "ctl", pl |-> Len(pkts) + 1])
    /\ sendCtr' = [sendCtr EXCEPT ![e] = @ + 1]
    /\ sent' = sent
    /\ Log([op |-> "ctl", e |-> e, j |-> Len(pkts) + 1, a |-> "-", mut |-> "-", ok |-> TRUE, dst |-> "-", after |-> Snap])
    /\ UNCHANGED <<acc, top, q, closed, cause, remote>>

Fresh(e, c) == c \notin acc[e] /\ (top[e] = None \/ c + W >= top[e])
Authentic(p, e, mut) == mut = "none" /\ p.dir = DirTo(e)

(* Deliver(j, e, a, mut): captured packet j arrives at end e from address a.                 *)
Deliver(j, e, a, mut) ==
    /\ j \in 1..Len(pkts)
    /\ LET p == pkts[j]
           good == ~closed[e] /\ Authentic(p, e, mut) /\ Fresh(e, p.ctr)
           t1 == IF top[e] = None \/ p.ctr > top[e] THEN p.ctr ELSE top[e]
       IN /\ IF good
             THEN /\ acc' = [acc EXCEPT ![e] = {x \in @ \cup {p.ctr} : x + W >= t1}]
                  /\ top' = [top EXCEPT ![e] = t1]
                  /\ remote' = [remote EXCEPT ![e] = a]
                  /\ IF p.kind = "data"
                     THEN /\ q' = [q EXCEPT ![e] = IF Len(@) < Cap THEN Append(@, p.pl) ELSE @]
                          /\ UNCHANGED <<closed, cause>>
                     ELSE /\ closed' = [closed EXCEPT ![e] = TRUE] /\ cause' = [cause EXCEPT ![e] = "control"]
                          /\ q' = q
             ELSE UNCHANGED <<acc, top, q, closed, cause, remote>>
          /\ Log([op |-> "deliver", e |-> e, j |-> j, a |-> a, mut |-> mut, ok |-> good, dst |-> "-",
                  after |-> [rc |-> remote'["c"], rs |-> remote'["s"], cc |-> closed'["c"], cs |-> closed'["s"],
                             qc |-> Len(q'["c"]), qs |-> Len(q'["s"])]])
    /\ UNCHANGED <<sendCtr, pkts, sent>>

(* Forge(e, a, kind, c): a packet made without the keys, copying the session's public header. *)
Forge(e, a, kind, c) ==
    /\ Log([op |-> "forge", e |-> e, j |-> c, a |-> a, mut |-> kind, ok |-> FALSE, dst |-> "-", after |-> Snap])
    /\ UNCHANGED <<sendCtr, acc, top, q, closed, cause, remote, pkts, sent>>

LocalClose(e) ==
    /\ ~closed[e]
    /\ closed' = [closed EXCEPT ![e] = TRUE] /\ cause' = [cause EXCEPT ![e] = "local"]
    /\ Log([op |-> "close", e |-> e, j |-> 0, a |-> "-", mut |-> "-", ok |-> TRUE, dst |-> "-",
            after |-> [Snap EXCEPT !.cc = closed'["c"], !.cs = closed'["s"]]])
    /\ UNCHANGED <<sendCtr, acc, top, q, remote, pkts, sent>>

Next == \/ \E e \in Ends : Write(e) \/ Ctl(e) \/ LocalClose(e)
        \/ \E j \in 1..MaxPk, e \in Ends, a \in Addrs, mut \in Muts : Deliver(j, e, a, mut)
        \/ \E e \in Ends, a \in Addrs, kind \in {"data", "ctl"}, c \in {0, 1, 5, 1000} : Forge(e, a, kind, c)
Spec == Init /\ [][Next]_vars

-----------------------------------------------------------------------------
(* C03 *)
Written(e) == {pkts[j].pl : j \in {k \in 1..Len(pkts) : pkts[k].dir = DirFrom(e) /\ pkts[k].kind = "data"}}
AuthenticDelivery == \A e \in Ends : \A n \in 1..Len(q[e]) : q[e][n] \in Written(Peer(e))
AtMostOnce == \A e \in Ends : \A m, n \in 1..Len(q[e]) : m # n => q[e][m] # q[e][n]
CloseHasCause == \A e \in Ends : closed[e] => cause[e] \in {"local", "control"}
(* a delivery that is not authentic or not fresh changes nothing *)
NoDisturb == [][\A j \in 1..MaxPk, e \in Ends, a \in Addrs, mut \in Muts :
                 (Deliver(j, e, a, mut) /\ j <= Len(pkts) /\ ~(Authentic(pkts[j], e, mut) /\ Fresh(e, pkts[j].ctr) /\ ~closed[e]))
                    => UNCHANGED <<acc, top, q, closed, cause, remote, sendCtr>>]_vars
(* C15 *)
AddrMovesOnlyOnAuthentic ==
    [][\A e \in Ends : remote'[e] # remote[e] =>
          \E j \in 1..Len(pkts), mut \in Muts :
             Deliver(j, e, remote'[e], mut) /\ Authentic(pkts[j], e, mut) /\ Fresh(e, pkts[j].ctr)]_vars
SendFollowsRemote == [][\A e \in Ends : (Write(e) /\ ~closed[e]) => sent'[Len(sent')].dst = remote[e]]_vars
TypeOK == steps \in 0..MaxSteps /\ Len(pkts) <= MaxPk
=============================================================================
