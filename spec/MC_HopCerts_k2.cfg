SPECIFICATION Spec
CONSTANTS K = 2
INVARIANTS DecideIsValidChain BasesValid Issuance Emit
CHECK_DEADLOCK FALSE
