SPECIFICATION Spec
CONSTANTS MaxGen = 3  Stale = TRUE
INVARIANTS DistinctIds OfferedOnce Isolation
CHECK_DEADLOCK FALSE
