------------------------- MODULE Sim_ReplayWindow -------------------------
(* Behaviour generator for replay into the real code (binding R of C14): the small-parameter *)
(* model with NumBlocks = 8 (as in the code) is simulated; each step records the counter     *)
(* offered and the SET specification's verdict for every counter afterwards.                 *)
EXTENDS ReplayWindow, Sequences, Json

VARIABLE hist
Bits == [i \in 1..(MaxSeq+1) |-> IF SpecCheck(i-1) THEN 1 ELSE 0]

SInit == Init /\ hist = <<>>
SNext == \E s \in 0..MaxSeq :
           \/ /\ Recv(s)
              /\ hist' = Append(hist, [op |-> "recv", s |-> s, ok |-> 1,
                                       after |-> [i \in 1..(MaxSeq+1) |-> IF (i-1) \notin accepted' /\ (i-1) + W >= top' THEN 1 ELSE 0]])
           \/ /\ ~SpecCheck(s) /\ UNCHANGED vars
              /\ hist' = Append(hist, [op |-> "recv", s |-> s, ok |-> 0, after |-> Bits])
SSpec == SInit /\ [][SNext]_<<vars, hist>>
Depth == 14
Emit == Len(hist) = Depth => PrintT(<<"BEHAVIOUR", ToJson(hist)>>)
Stop == Len(hist) <= Depth
=============================================================================
