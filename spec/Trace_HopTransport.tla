------------------------- MODULE Trace_HopTransport -------------------------
(* Trace validation of the write path of the transport channel on a faithful network (C03,   *)
(* second sentence): Write(n) sends Ceil(n / Max) packets (one empty packet for n = 0), which  *)
(* together carry exactly the n bytes, reports n, and the peer reads exactly those bytes;    *)
(* concurrent writers never reuse a counter and every message arrives exactly once; in a long *)
(* session no replayed datagram is delivered again or redirects the session (the replay      *)
(* filter of ReplayWindow.tla at its call site).                                             *)
EXTENDS Integers, Sequences, TLC, Json
CONSTANT Max        \* MaxPlaintextSize
Trace == ndJsonDeserialize("trace.ndjson")
VARIABLES l, bad
Ev == Trace[l]
Chunks(n) == IF n = 0 THEN 1 ELSE (n + Max - 1) \div Max
Good(e) ==
    CASE e.ev = "write" -> /\ e.ret = e.n /\ e.pkts = Chunks(e.n) /\ e.sentbytes = e.n
                           /\ e.read = e.n /\ e.intact = "yes"
      [] e.ev = "conc"  -> /\ e.distinctctrs = e.msgs /\ e.delivered = e.msgs /\ e.dups = 0 /\ e.corrupt = 0
      [] e.ev = "longrun" -> e.delivered = e.sent /\ e.redelivered = 0 /\ e.moved = 0
      \* copies of the session's own handshake datagrams arriving after it finished, then the handshake timeout:
      \* the established session still delivers what both ends write
      [] e.ev = "latehs"  -> e.delivered = e.sent
      [] OTHER -> FALSE
TInit == l = 1 /\ bad = 0
TNext == /\ l <= Len(Trace) /\ l' = l + 1
         /\ IF Good(Ev) THEN bad' = bad ELSE bad' = bad + 1 /\ PrintT(<<"MISMATCH", l>>)
TSpec == TInit /\ [][TNext]_<<l, bad>>
HW == TLCSet(1, l)
Accepted == TLCGet(1) = Len(Trace) + 1
=============================================================================
