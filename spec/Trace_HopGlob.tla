--------------------------- MODULE Trace_HopGlob ---------------------------
(* Trace validation for C20.  Each line is one call of the real code with its observed       *)
(* result; every line is consumed, the verdict is computed from HopGlob's definitions and    *)
(* mismatching lines are reported (all of them, so known findings can be told from new ones). *)
EXTENDS HopGlob, Json

Trace == ndJsonDeserialize("trace.ndjson")
VARIABLES l, bad
Ev == Trace[l]
B(x) == IF x THEN "true" ELSE "false"

Want(e) ==
    CASE e.ev = "glob"  -> B(Match(e.p, e.s))
      [] e.ev = "hosts" -> AppliedBlocks(e.blocks, e.h, 1)
      [] e.ev = "vhost" -> FirstMatch(e.pats, e.n, 1)
      [] OTHER -> "?"

TInit == l = 1 /\ bad = 0
TNext == /\ l <= Len(Trace) /\ l' = l + 1
         /\ IF Ev.pan = "no" /\ Ev.got = Want(Ev) THEN bad' = bad
            ELSE bad' = bad + 1 /\ PrintT(<<"MISMATCH", l, "want", Want(Ev)>>)
TSpec == TInit /\ [][TNext]_<<l, bad>>
HW == TLCSet(1, l)
Accepted == TLCGet(1) = Len(Trace) + 1
=============================================================================
