----------------------------- MODULE Trace_HopMux -----------------------------
(* Trace validation for C09 on real muxer pairs.  Events of one scenario (sorted per scenario): *)
(*   create  an instance was opened (end, id, type, instance number; clash = another live       *)
(*           instance of the same end held the same id at that moment)                           *)
(*   accept  a remotely opened tube was offered to the acceptor and read to end-of-stream:       *)
(*           inst = the instance number found in its bytes (0: none), pure = all its bytes       *)
(*           carried that one instance number                                                    *)
(*   unrel   an unreliable message of a given size was written and read                          *)
(*   unrelseq / stream  what came out of an unreliable tube (only what was written on it) and      *)
(*           whether the reliable stream beside it is complete                                    *)
(*   offered  a tube requested while the peer's accept queue was full is offered once it drains    *)
(*   survives an unreliable tube keeps working after the reliable tube with the same number was    *)
(*           closed and reaped; a new unreliable tube gets another id; nothing crosses             *)
(* Judged against HopMux.tla: DistinctIds (clash = no), OfferedOnce (each instance accepted at    *)
(* most once), Isolation (pure; the accepted tube's type and reliability are those the opener     *)
(* of that instance chose).                                                                      *)
EXTENDS Integers, Sequences, FiniteSets, TLC, Json
Trace == ndJsonDeserialize("trace.ndjson")
VARIABLES l, bad, typeOf, accepted
Ev == Trace[l]
Good(e) ==
    CASE e.ev = "create" -> e.clash = "no"
      [] e.ev = "accept" -> /\ e.pure = "yes"
                            /\ (e.inst # 0 => (e.inst \in DOMAIN typeOf /\ typeOf[e.inst] = e.type /\ e.rel = "yes"))
                            /\ (e.inst # 0 => e.inst \notin accepted)
      [] e.ev = "unrel"  -> IF e.size <= 32768 THEN e.wrote = "yes" /\ e.got = e.size /\ e.same = "yes"
                            ELSE e.wrote = "no"
      [] e.ev = "unrelseq" -> e.intact = "yes" /\ e.extra = 0 /\ e.got <= e.wrote     \* only whole messages written on THAT tube
      [] e.ev = "stream"   -> e.complete = "yes"                     \* the reliable stream next to it arrived complete
      [] e.ev = "offered"  -> e.times = 1                            \* requested while the accept queue was full: offered once it drains
      [] e.ev = "survives" -> e.ab = "yes" /\ e.ba = "yes" /\ e.cross = 0   \* reaping a tube leaves its same-numbered sibling alone
      [] e.ev \in {"createerr", "writeerr"} -> FALSE
      [] OTHER -> TRUE
TInit == l = 1 /\ bad = 0 /\ typeOf = <<>> /\ accepted = {}
TNext == /\ l <= Len(Trace) /\ l' = l + 1
         /\ IF Good(Ev) THEN bad' = bad ELSE bad' = bad + 1 /\ PrintT(<<"MISMATCH", l>>)
         /\ CASE Ev.ev = "reset" -> typeOf' = <<>> /\ accepted' = {}
              [] Ev.ev = "create" -> typeOf' = (Ev.inst :> Ev.type) @@ typeOf /\ UNCHANGED accepted
              [] Ev.ev = "accept" -> accepted' = accepted \cup {Ev.inst} /\ UNCHANGED typeOf
              [] OTHER -> UNCHANGED <<typeOf, accepted>>
TSpec == TInit /\ [][TNext]_<<l, bad, typeOf, accepted>>
HW == TLCSet(1, l)
Accepted == TLCGet(1) = Len(Trace) + 1
=============================================================================
