SPECIFICATION Spec
CONSTANTS D = 1  DB = 0  Win = 2  MaxLoss = 1  MaxDup = 0  MaxTx = 5  DropOnMaxRTO = FALSE
INVARIANTS NoOrphan
VIEW View
CHECK_DEADLOCK FALSE
