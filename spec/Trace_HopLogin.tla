--------------------------- MODULE Trace_HopLogin ---------------------------
(* Concurrent redemption of authorization grants (C05, and the single-use clause of C07).    *)
(* The driver adds g grants for (u,k) to a real HopServer and then lets n goroutines log in   *)
(* as (u,k) at the same instant; it logs how many succeeded.  Login is one atomic action of  *)
(* HopLogin (the code holds the grant-map lock across lookup and removal), so a concurrent   *)
(* batch is explained by SOME sequential order of n Login actions: the first finds the        *)
(* grants and takes all of them, the others find none.                                       *)
EXTENDS Integers, Sequences, TLC, Json

Trace == ndJsonDeserialize("trace.ndjson")
VARIABLES l, bad
Ev == Trace[l]
(* number of successes of n sequential Login(u,k) actions starting with g unconsumed grants and no file entry *)
SeqSuccesses(g, n) == IF g > 0 /\ n > 0 THEN 1 ELSE 0
Good(e) == CASE e.ev = "batch" -> e.ok = SeqSuccesses(e.g, e.n)
             [] OTHER -> TRUE
TInit == l = 1 /\ bad = 0
TNext == /\ l <= Len(Trace) /\ l' = l + 1
         /\ IF Good(Ev) THEN bad' = bad ELSE bad' = bad + 1 /\ PrintT(<<"MISMATCH", l>>)
TSpec == TInit /\ [][TNext]_<<l, bad>>
HW == TLCSet(1, l)
Accepted == TLCGet(1) = Len(Trace) + 1
=============================================================================
