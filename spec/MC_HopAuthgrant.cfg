SPECIFICATION Spec
CONSTANTS MaxReq = 3  Variant = "fixed"
INVARIANTS ForwardedOnlyIfApproved OneAnswerPerRequest ConfirmationMeansStored ForwardedOnce
CHECK_DEADLOCK FALSE
