package main

import (
	"fmt"
	"os"
	"time"

	"github.com/sirupsen/logrus"
	"verif/harness/hopkit"
	"verif/harness/simwire"
)

func main() {
	logrus.SetOutput(os.Stderr)
	logrus.SetLevel(logrus.DebugLevel)
	p := hopkit.NewPKI()
	w := hopkit.NewWorld()
	sid := p.Issue("valid", "a.example")
	cid := p.Issue("selfsigned", "client")
	kem := hopkit.NewKEM()
	sa := simwire.Addr("10.0.0.1", 77)
	s := w.NewServer(sa, hopkit.SrvOpt{Ident: sid, KEM: kem, ClientVerify: p.Policy("authkeys", "", cid.Key.Public)})
	c := w.NewClient(simwire.Addr("10.0.0.2", 1000), sa, hopkit.CliOpt{Ident: cid, Verify: p.Policy("store", "a.example"), ServerKEM: &kem.Public})
	c.Start()
	c.WaitStep()
	out := w.Net.TakeFrom(c.EP)
	for _, d := range out {
		fmt.Println("c->s", hopkit.TypeName(d.Data), len(d.Data))
		s.EP.Deliver(d.Data, d.From, hopkit.StepTimeout)
	}
	for _, d := range w.Net.TakeFrom(s.EP) {
		fmt.Println("s->c", hopkit.TypeName(d.Data), len(d.Data), d.To)
	}
	_ = time.Now
	w.Close()
}
