---------------------------- MODULE Trace_HopTubes ----------------------------
(* Trace validation for C08: what the applications on a real tube pair wrote and read under a *)
(* fault schedule.  Per scenario and direction:                                              *)
(*   begun[s][w]   bytes whose Write has begun (logged before the call)                       *)
(*   got[s][r]     bytes read so far                                                          *)
(* Property layer: every read continues exactly at the previous offset, its bytes equal the   *)
(* writer's generator at that offset (match) and lie inside what the peer has begun to write  *)
(* (prefix); end-of-stream is reported only when everything written before the peer's Close   *)
(* was read; and, the schedule's faults being finite, the transfer completes within the bound *)
(* (liveness clause, judged per scenario by the "done" event).                                *)
EXTENDS Integers, Sequences, TLC, Json
Trace == ndJsonDeserialize("trace.ndjson")
VARIABLES l, bad, begun, got, closedAt
Ev == Trace[l]
Other(w) == IF w = "A" THEN "B" ELSE "A"
Zero == [w \in {"A", "B"} |-> 0]
None == -1

Good(e) ==
    CASE e.ev = "read"  -> e.off = got[e.who] /\ e.match = "yes" /\ e.off + e.n <= begun[Other(e.who)]
      [] e.ev = "eof"   -> closedAt[Other(e.who)] # None /\ e.total = closedAt[Other(e.who)] /\ e.total = got[e.who]
      [] e.ev = "done"  -> e.complete = "yes"
      [] e.ev = "writeerr" -> FALSE
      [] e.ev = "error" -> FALSE
      [] OTHER -> TRUE
TInit == l = 1 /\ bad = 0 /\ begun = Zero /\ got = Zero /\ closedAt = [w \in {"A", "B"} |-> None]
TNext == /\ l <= Len(Trace) /\ l' = l + 1
         /\ IF Good(Ev) THEN bad' = bad ELSE bad' = bad + 1 /\ PrintT(<<"MISMATCH", l>>)
         /\ CASE Ev.ev = "reset" -> begun' = Zero /\ got' = Zero /\ closedAt' = [w \in {"A", "B"} |-> None]
              [] Ev.ev = "write" -> begun' = [begun EXCEPT ![Ev.who] = Ev.off + Ev.n] /\ UNCHANGED <<got, closedAt>>
              [] Ev.ev = "read"  -> got' = [got EXCEPT ![Ev.who] = @ + Ev.n] /\ UNCHANGED <<begun, closedAt>>
              [] Ev.ev = "close" -> closedAt' = [closedAt EXCEPT ![Ev.who] = Ev.total] /\ UNCHANGED <<begun, got>>
              [] OTHER -> UNCHANGED <<begun, got, closedAt>>
TSpec == TInit /\ [][TNext]_<<l, bad, begun, got, closedAt>>
HW == TLCSet(1, l)
Accepted == TLCGet(1) = Len(Trace) + 1
=============================================================================
