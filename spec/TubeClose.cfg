SPECIFICATION Spec
CONSTANT Fenced = TRUE
INVARIANTS NoPanic ClosedPublishedOnce
PROPERTY Termination
