SPECIFICATION Spec
CONSTANTS Sess = {1}  ModeSet = {"disc"}  CCfgSet <- CliA  DialSet <- SrvA  SCfg <- SCfgU  Cert <- CertU  MaxMoves = 1  Sync = FALSE  EnforceSAMac = FALSE
INVARIANTS EmitBeh TypeOK C01Client C01Server C01Accept C02Client C02Server C02Agree C02Distinct
PROPERTIES C19Stateless C19HiddenSilent
CHECK_DEADLOCK FALSE
