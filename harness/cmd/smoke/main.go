package main

import (
	"fmt"
	"os"

	"github.com/sirupsen/logrus"
	"verif/harness/hopkit"
)

func main() {
	logrus.SetOutput(os.Stderr)
	logrus.SetLevel(logrus.DebugLevel)
	p := hopkit.NewPKI()
	sid := p.Issue("valid", "a.example")
	cid := p.Issue("selfsigned", "client")
	pr, err := hopkit.NewPair(p, sid, cid, true, 3)
	fmt.Println(pr != nil, err)
}
