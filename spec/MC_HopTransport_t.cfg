SPECIFICATION Spec
CONSTANTS MaxPk = 3  MaxSteps = 6  Cap = 2  W = 448
INVARIANTS TypeOK AuthenticDelivery AtMostOnce CloseHasCause
PROPERTIES NoDisturb AddrMovesOnlyOnAuthentic SendFollowsRemote
VIEW View
CHECK_DEADLOCK FALSE
