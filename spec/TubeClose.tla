------------------------------ MODULE TubeClose ------------------------------
(* The close transition of a reliable tube at the granularity of lock acquisitions and         *)
(* channel operations (tubes/reliable.go enterClosedState, send, receive / sendEmptyPacket;    *)
(* sender.go Close).  Go semantics modelled: sending on a closed channel and closing a closed  *)
(* channel panic.  The discipline that keeps the code safe: every producer of the sender       *)
(* queues runs under the tube lock rl and looks at sender.closed there; enterClosedState       *)
(* closes the queues under rl, then RELEASES rl while it waits for the send goroutine to       *)
(* drain, and re-acquires it before publishing `closed`.                                      *)
(* Fenced = FALSE is the variant in which a producer tests sender.closed BEFORE taking the     *)
(* lock (a plausible refactoring): TLC must find the send-on-closed-queue panic.               *)
EXTENDS Integers, Sequences, TLC
CONSTANT Fenced

(* --algorithm TubeClose
variables rl = "", state = "open", sClosed = FALSE, qClosed = FALSE, sendDone = FALSE,
          closedCh = FALSE, panic = FALSE;

fair process Producer \in {"receive", "window"}
variables n = 0, sawOpen = FALSE;
begin
P0: while n < 2 do
      if ~Fenced then
PX:     sawOpen := ~sClosed;                 \* unfenced variant: look before locking
      end if;
P1:   await rl = ""; rl := self;
P2:   if (Fenced /\ ~sClosed) \/ (~Fenced /\ sawOpen) then
        if qClosed then panic := TRUE; end if;     \* send on the sender queue
      end if;
P3:   rl := ""; n := n + 1;
    end while;
end process;

fair process Closer \in {"lastAckTimer", "finPath"}
begin
C1: await rl = ""; rl := self;
C2: if state = "closed" then
      rl := ""; goto CDone;
    end if;
C3: state := "closed";
C4: if ~sClosed then
      sClosed := TRUE; qClosed := TRUE; rl := "";      \* sender.Close(): CAS + close(queues); unlock while draining
C5:   await sendDone;
C6:   await rl = ""; rl := self;
    end if;
C7: if closedCh then panic := TRUE; else closedCh := TRUE; end if;   \* close(r.closed)
C8: rl := "";
CDone: skip;
end process;

fair process SendLoop = "send"
begin
S1: await qClosed;
S2: sendDone := TRUE;
end process;
end algorithm; *)
\* BEGIN TRANSLATION
VARIABLES pc, rl, state, sClosed, qClosed, sendDone, closedCh, panic, n, 
          sawOpen

vars == << pc, rl, state, sClosed, qClosed, sendDone, closedCh, panic, n, 
           sawOpen >>

ProcSet == ({"receive", "window"}) \cup ({"lastAckTimer", "finPath"}) \cup {"send"}

Init == (* Global variables *)
        /\ rl = ""
        /\ state = "open"
        /\ sClosed = FALSE
        /\ qClosed = FALSE
        /\ sendDone = FALSE
        /\ closedCh = FALSE
        /\ panic = FALSE
        (* Process Producer *)
        /\ n = [self \in {"receive", "window"} |-> 0]
        /\ sawOpen = [self \in {"receive", "window"} |-> FALSE]
        /\ pc = [self \in ProcSet |-> CASE self \in {"receive", "window"} -> "P0"
                                        [] self \in {"lastAckTimer", "finPath"} -> "C1"
                                        [] self = "send" -> "S1"]

P0(self) == /\ pc[self] = "P0"
            /\ IF n[self] < 2
                  THEN /\ IF ~Fenced
                             THEN /\ pc' = [pc EXCEPT ![self] = "PX"]
                             ELSE /\ pc' = [pc EXCEPT ![self] = "P1"]
                  ELSE /\ pc' = [pc EXCEPT ![self] = "Done"]
            /\ UNCHANGED << rl, state, sClosed, qClosed, sendDone, closedCh, 
                            panic, n, sawOpen >>

P1(self) == /\ pc[self] = "P1"
            /\ rl = ""
            /\ rl' = self
            /\ pc' = [pc EXCEPT ![self] = "P2"]
            /\ UNCHANGED << state, sClosed, qClosed, sendDone, closedCh, panic, 
                            n, sawOpen >>

P2(self) == /\ pc[self] = "P2"
            /\ IF (Fenced /\ ~sClosed) \/ (~Fenced /\ sawOpen[self])
                  THEN /\ IF qClosed
                             THEN /\ panic' = TRUE
                             ELSE /\ TRUE
                                  /\ panic' = panic
                  ELSE /\ TRUE
                       /\ panic' = panic
            /\ pc' = [pc EXCEPT ![self] = "P3"]
            /\ UNCHANGED << rl, state, sClosed, qClosed, sendDone, closedCh, n, 
                            sawOpen >>

P3(self) == /\ pc[self] = "P3"
            /\ rl' = ""
            /\ n' = [n EXCEPT ![self] = n[self] + 1]
            /\ pc' = [pc EXCEPT ![self] = "P0"]
            /\ UNCHANGED << state, sClosed, qClosed, sendDone, closedCh, panic, 
                            sawOpen >>

PX(self) == /\ pc[self] = "PX"
            /\ sawOpen' = [sawOpen EXCEPT ![self] = ~sClosed]
            /\ pc' = [pc EXCEPT ![self] = "P1"]
            /\ UNCHANGED << rl, state, sClosed, qClosed, sendDone, closedCh, 
                            panic, n >>

Producer(self) == P0(self) \/ P1(self) \/ P2(self) \/ P3(self) \/ PX(self)

C1(self) == /\ pc[self] = "C1"
            /\ rl = ""
            /\ rl' = self
            /\ pc' = [pc EXCEPT ![self] = "C2"]
            /\ UNCHANGED << state, sClosed, qClosed, sendDone, closedCh, panic, 
                            n, sawOpen >>

C2(self) == /\ pc[self] = "C2"
            /\ IF state = "closed"
                  THEN /\ rl' = ""
                       /\ pc' = [pc EXCEPT ![self] = "CDone"]
                  ELSE /\ pc' = [pc EXCEPT ![self] = "C3"]
                       /\ rl' = rl
            /\ UNCHANGED << state, sClosed, qClosed, sendDone, closedCh, panic, 
                            n, sawOpen >>

C3(self) == /\ pc[self] = "C3"
            /\ state' = "closed"
            /\ pc' = [pc EXCEPT ![self] = "C4"]
            /\ UNCHANGED << rl, sClosed, qClosed, sendDone, closedCh, panic, n, 
                            sawOpen >>

C4(self) == /\ pc[self] = "C4"
            /\ IF ~sClosed
                  THEN /\ sClosed' = TRUE
                       /\ qClosed' = TRUE
                       /\ rl' = ""
                       /\ pc' = [pc EXCEPT ![self] = "C5"]
                  ELSE /\ pc' = [pc EXCEPT ![self] = "C7"]
                       /\ UNCHANGED << rl, sClosed, qClosed >>
            /\ UNCHANGED << state, sendDone, closedCh, panic, n, sawOpen >>

C5(self) == /\ pc[self] = "C5"
            /\ sendDone
            /\ pc' = [pc EXCEPT ![self] = "C6"]
            /\ UNCHANGED << rl, state, sClosed, qClosed, sendDone, closedCh, 
                            panic, n, sawOpen >>

C6(self) == /\ pc[self] = "C6"
            /\ rl = ""
            /\ rl' = self
            /\ pc' = [pc EXCEPT ![self] = "C7"]
            /\ UNCHANGED << state, sClosed, qClosed, sendDone, closedCh, panic, 
                            n, sawOpen >>

C7(self) == /\ pc[self] = "C7"
            /\ IF closedCh
                  THEN /\ panic' = TRUE
                       /\ UNCHANGED closedCh
                  ELSE /\ closedCh' = TRUE
                       /\ panic' = panic
            /\ pc' = [pc EXCEPT ![self] = "C8"]
            /\ UNCHANGED << rl, state, sClosed, qClosed, sendDone, n, sawOpen >>

C8(self) == /\ pc[self] = "C8"
            /\ rl' = ""
            /\ pc' = [pc EXCEPT ![self] = "CDone"]
            /\ UNCHANGED << state, sClosed, qClosed, sendDone, closedCh, panic, 
                            n, sawOpen >>

CDone(self) == /\ pc[self] = "CDone"
               /\ TRUE
               /\ pc' = [pc EXCEPT ![self] = "Done"]
               /\ UNCHANGED << rl, state, sClosed, qClosed, sendDone, closedCh, 
                               panic, n, sawOpen >>

Closer(self) == C1(self) \/ C2(self) \/ C3(self) \/ C4(self) \/ C5(self)
                   \/ C6(self) \/ C7(self) \/ C8(self) \/ CDone(self)

S1 == /\ pc["send"] = "S1"
      /\ qClosed
      /\ pc' = [pc EXCEPT !["send"] = "S2"]
      /\ UNCHANGED << rl, state, sClosed, qClosed, sendDone, closedCh, panic, 
                      n, sawOpen >>

S2 == /\ pc["send"] = "S2"
      /\ sendDone' = TRUE
      /\ pc' = [pc EXCEPT !["send"] = "Done"]
      /\ UNCHANGED << rl, state, sClosed, qClosed, closedCh, panic, n, sawOpen >>

SendLoop == S1 \/ S2

(* Allow infinite stuttering to prevent deadlock on termination. *)
Terminating == /\ \A self \in ProcSet: pc[self] = "Done"
               /\ UNCHANGED vars

Next == SendLoop
           \/ (\E self \in {"receive", "window"}: Producer(self))
           \/ (\E self \in {"lastAckTimer", "finPath"}: Closer(self))
           \/ Terminating

Spec == /\ Init /\ [][Next]_vars
        /\ \A self \in {"receive", "window"} : WF_vars(Producer(self))
        /\ \A self \in {"lastAckTimer", "finPath"} : WF_vars(Closer(self))
        /\ WF_vars(SendLoop)

Termination == <>(\A self \in ProcSet: pc[self] = "Done")

\* END TRANSLATION
NoPanic == ~panic
ClosedPublishedOnce == closedCh => state = "closed"
=============================================================================
