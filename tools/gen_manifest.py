#!/usr/bin/env python3
# Regenerates /verif/MANIFEST.json from the table below (single source of truth for the interface).
import json, os, subprocess
V = os.path.dirname(os.path.dirname(os.path.abspath(__file__)))

CHECKS = {
 "C14": dict(
    level="model_checking", ref="§3 C14",
    technique="TLA+ refinement (ring bitmap vs. set spec) checked exhaustively by TLC; trace validation of real SlidingWindow histories; TLC-simulated behaviours replayed into the real filter",
    text="TLC proves, for every reachable state of three small ring geometries, that the ring bitmap transcribed from replay.go gives the same verdict as the property's set definition for every counter. The real type is bound in both directions: seeded long histories recorded from transport.SlidingWindow are validated by TLC against the set spec with the real window (448), and TLC-simulated behaviours of the 8x2 model are scaled to the real 8x64 layout and replayed with the spec's verdict vector as oracle after every step.",
    note="Trusted: TLC, the monotone scaling argument (8 blocks kept, in-block offsets mapped monotonically), the Go harness. Counters < 2^63. The bounded exhaustive run covers counters 0..36; longer histories are covered by recorded traces, not by proof."),
 "C20": dict(
    level="model_checking", ref="§3 C20",
    technique="TLA+ definition of glob matching (declarative = recursive, checked by TLC on all small pairs); exhaustive small-scope calls of the real matcher and of host-block / virtual-host selection validated as a trace against the spec",
    text="The property text is written twice in HopGlob.tla (declarative: replace each star by a string; recursive oracle) and TLC checks they agree on all pairs up to length 4/4. The real glob.Glob is then called on every pattern over {a,b,*} up to length 4 (thorough 5) against every input over {a,b} up to length 5 (6), on seeded longer pairs, and ClientConfig.MatchHost / VirtualHosts.Match on block lists built from a pattern pool; panics are caught and logged as results; TLC judges every recorded result against the spec (both directions of the iff).",
    note="Trusted: TLC, the Go driver's logging. Exhaustive only within the stated lengths and alphabet; longer inputs are sampled. Case-insensitive matching is not part of the code (option commented out) and not modelled."),
 "C04": dict(
    level="model_checking", ref="§3 C04",
    technique="TLA+ spec of chain validity (declarative ValidChain vs. the code's ordered Decide) checked by TLC on all configurations within K field changes of three valid baselines; every configuration TLC visits is materialised with real keys/signatures and run through the real verifier; bit-flip and issuance traces validated by TLC",
    text="TLC enumerates every certificate-forest configuration (types, names, half-open validity windows, parent fingerprints, signer keys, store subsets, presented intermediate, requested name, clock) within K=3 (thorough 4) field changes of three valid baselines, checks that the code's ordered procedure accepts exactly the declaratively valid chains, and emits each configuration with the verdict. The harness forges each configuration through the real serialiser and parser with real Ed25519 signatures (three concrete variants per configuration: clock jitter inside a tick, unknown-type byte, zero vs unused fingerprint) and requires Store.VerifyLeaf to accept iff the spec says valid. Every single-bit flip of a verified leaf and intermediate, and the issuing functions at all window boundaries, are recorded and judged by TLC against the same spec.",
    note="Trusted: TLC, Ed25519/SHA3 primitives, the harness' forge function (uses the repository's WriteTo/ReadFrom). Configurations farther than K changes from a baseline are not enumerated. Root certificates' own self-signature is not part of the property nor of the code's check."),
 "C05": dict(
    level="model_checking", ref="§3 C05",
    technique="TLA+ spec of login (authorized-keys file classes x grant histories) checked by TLC; every TLC behaviour replayed on a real HopServer with an in-memory file system, real result judged one-directionally against the property",
    text="HopLogin.tla models files as sequences of line kinds (valid entry, other key, blank, comment, garbage, truncated base64, wrong prefix, padded entry), the grant map, the transport key set and the enable flag; TLC checks on every behaviour that a granted login was allowed by the property, that unparsable/missing files never admit anyone without a grant, and that grants are consumed. Every reachable (file, history) of three configurations (all files of <=2 lines x histories <=2; 13 curated files x histories <=3/4; grants disabled) is replayed on a real hopserver.HopServer (MapFS, three concrete renderings per line kind) and a real success that the property does not allow is a violation.",
    note="Trusted: TLC, the driver's composition of AuthorizeKey/AuthorizeKeyAuthGrant (copied from hopSession.checkAuthorization; the real session path is exercised by the C07 session driver). Refusals are never violations. Transport-level authentication of the key (C01) is assumed."),
 "C01": dict(
    level="model_checking", ref="§3 C01",
    technique="TLA+ symbolic model of both PQ handshakes with a structured adversary and adversarial role instances, invariants checked exhaustively by TLC; every maximal TLC behaviour replayed lock-step on real transport.Server/Client over a simulated wire, outcomes judged by property predicates",
    text="HopHandshake.tla models the discoverable (CH/SH/CA/SA/CL) and hidden (HR/HP) handshakes action-for-action (transcript terms, cookie, table allocation, Accept queue, duplex poisoning), 12 server role instances (honest under each client policy, hidden-only, impostor with a victim's certificate, valid-for-another-name, expired, wrong type, untrusted root, self-signed) and 7 client kinds (self-signed authorised/unauthorised, CA-issued, expired, untrusted, impostors), and a network adversary (drop, tamper any field, truncate, splice from a concurrent session, re-address, replay, rotate the cookie key, let the hidden-mode timestamp expire). TLC checks C01 as invariants (client done => certificate verifies under its policy and the responder holds the certified key; established session => client policy satisfied and key held, with the hidden-mode IK caveat stated in the spec). Every maximal behaviour (6.6k quick, +77k thorough) is replayed on real endpoints built with real certificates/keys of exactly those classes; a real completion or Accept offer that the scenario facts forbid is a violation.",
    note="Trusted: TLC; the symbolic crypto abstraction (no algebraic attacks; adversary limited to the structured moves and role instances, not full Dolev-Yao); the harness PKI (forged defects go through the repository's serialiser) and simwire. Differences between model and code that no property clause explains make the check exit 2, never 1."),
 "C02": dict(
    level="model_checking", ref="§3 C02",
    technique="same TLA+ handshake model: tamper/truncate/splice moves and key-agreement/distinctness invariants checked by TLC; behaviours replayed on real endpoints with per-step observation of who consumed a changed datagram; honest runs expanded to concrete byte offsets, masks and truncation lengths",
    text="TLC checks that a role that consumed a changed datagram never completes, that completed peers agree on session id and keys, that directions and sessions never share keys (1 adversary move single-session, 2 moves with two concurrent sessions incl. splicing and replays: 170k states). Replay on real endpoints records for every step whether the receiving party had already finished, completed, answered or offered a connection, so a completion is attributed to the datagram that caused it. Honest discoverable and hidden runs are expanded to byte level: per message, field edges plus seeded offsets/masks/cut lengths (quick), every byte offset x {01,80,ff} and every truncation length (thorough), plus 'truncated copy after the receiver saw the full datagram'. Key equality is read from both SessionStates (verif build) and cross-checked black-box by a data probe.",
    note="Trusted: as C01. Datagram extension (extra trailing bytes) is not in the property text and not judged. XOR masks other than the listed ones are sampled, not enumerated."),
 "C03": dict(
    level="model_checking", ref="§3 C03",
    technique="TLA+ model of the established channel (counters, replay filter, queues, close causes, datagram-level adversary) checked by TLC; TLC-simulated behaviours replayed step by step on a real client/server pair with state comparison after every step; write-size and concurrent-writer traces validated by TLC; wire scan for plaintext",
    text="HopTransport.tla models both ends of a session with the code's order of receive checks; TLC checks authenticity, at-most-once, close-has-cause and 'a non-authentic or stale datagram changes nothing' (action property) exhaustively for 3 packets / 5-6 steps. 1200 (thorough 6000) simulated behaviours of up to 14 steps - deliveries of captured packets to either end from any address, unchanged, with one region flipped or truncated to any length, forged data/control packets with the live session id, authentic control packets made with the session keys, local closes - are replayed on a real pair (discoverable and hidden alternately); after every step queue lengths, closed flags and peer addresses are compared, at the end the messages read. Every Write size class around multiples of the maximum payload in both directions and 2/4 concurrent writers are recorded and judged by TLC (returned count, packets, bytes read, distinct counters). All datagrams of both handshake modes and the data phase are scanned for a payload marker, the server name and certificate bytes.",
    note="Trusted: TLC, simwire, the verif-tag state view (read-only). Completeness is only judged on the faithful-network write traces and through the model's deterministic delivery rule; queue overflow (reader not keeping up) is modelled as a drop."),
 "C15": dict(
    level="model_checking", ref="§3 C15",
    technique="same TLA+ channel model: action properties 'peer address changes only on an authentic fresh delivery, to its source' and 'a write goes to the current peer address' checked by TLC; behaviours replayed on a real pair with the peer address compared after every step and the destination of every written datagram observed on the wire",
    text="TLC checks the two action properties exhaustively (4 addresses incl. a roamed client address and a third party). In the replay every delivery carries an explicit source address: genuine packets from moving addresses interleaved with bit-flipped, truncated, replayed, reflected and forged copies from other addresses, on both the client and the server end; after each step the address each end would send to is compared with the specification, and each real write's destination is read off the simulated wire.",
    note="Trusted: as C03. IPv6 / zone handling of address equality is not modelled (IPv4 addresses only in the replay)."),
 "C19": dict(
    level="model_checking", ref="§3 C19",
    technique="TLA+ handshake model: action properties 'ClientHello leaves the tables unchanged' and 'a hidden server emits only for a fresh valid hidden request', cookie validity (current key, same address, same client key) as the guard of state allocation, checked by TLC; behaviours with re-addressing, rotation, replays, splices and clock ticks replayed on real servers with table sizes and emitted datagrams compared after every step; mass-hello / cookie mis-binding / hidden-probe traces judged by TLC",
    text="TLC checks C19Stateless and C19HiddenSilent on all families (single and two concurrent sessions, up to 2 adversary moves). In the replay, after each step the dialled real server's table sizes (handshakes + sessions) and its total number of emitted datagrams are compared with the model's: state appearing at a ClientHello step, state allocated at a ClientAck step where the model's cookie guard fails (other IP, other port, other client key via splice, rotated key, tampered cookie), or any datagram from a hidden-mode server that the model does not emit (discoverable messages, wrong KEM key, stale by 7.1 s, replayed late, tampered, truncated) is a violation. A driver sends 2,000 (thorough 100,000) hellos from distinct addresses, each cookie mis-binding class, and 160+ probe datagrams of every type and length class to a hidden server.",
    note="Trusted: TLC, simwire, the verif-tag table view and rotation step. The 2-minute rotation ticker itself is not exercised, only the rotation step."),
 "C10": dict(
    level="fault_enumeration", ref="§3 C10",
    technique="TLA+ enumeration of the configuration x endpoint-state x junk-class product with the no-effect postcondition (HopJunk.tla, states named after HopHandshake/HopTransport); every edge executed on real endpoints in child processes with concrete datagrams (all truncation lengths, field mutations, declared-length values, typed random bodies with and without the live session id); liveness probes recorded and judged by TLC",
    text="TLC enumerates 334 (configuration, state, derivation, base message) edges over 4 server configurations (one certificate; three virtual hosts with literal/wildcard/catch-all patterns resolved through hopserver.VirtualHosts.Match; hidden with one and with three certificates) and 8 endpoint states (server idle / handshake pending / established / session closed; client waiting for ServerHello / ServerAuth / hidden response / open). A driver reaches each state with real endpoints, captures genuine messages from the same server, and delivers ~93k datagrams per run (every truncation length of every genuine message, per-field byte flips, every interesting declared length, extension, 21 type bytes x 20 lengths of random bodies with and without the live session id, 0-3 byte datagrams) from the address owning the state and from a foreign address; after every 40 datagrams an honest handshake from a fresh address (rotating over the virtual hosts) and a two-way message on the established session must succeed. Each group is a child process; a crash is attributed to the datagram flushed to the log before delivery. The check fails (exit 2) if any spec edge was not executed.",
    note="fault_enumeration: inside a class bytes are enumerated by truncation/mutation or sampled by seed - it is not a coverage-guided fuzzer. A handshake in progress from the same source address may be lost (allowed by the specification). Trusted: simwire, the child-process attribution."),
 "C18": dict(
    level="model_checking", ref="§3 C18",
    technique="TLA+ description of the wire formats (fields, prefix widths, maxima; Representable) with the format-level round-trip checked by TLC over boundary lengths; real encoders/decoders exercised at every boundary and on mutated valid encodings, each result recorded and judged by TLC against Representable",
    text="HopWire.tla gives, per codec, the variable fields with their length-prefix width and documented maximum; TLC checks that a length survives its prefix iff it is representable (so an encoder that does not reject necessarily mis-frames). Drivers run the real codecs - common string, certificate name / id chunk / certificate (all types incl. unknown), authgrant intent (all grant types incl. unknown and the unimplemented port-forward ones), denial, proxy target info and failure, key text formats; and through add-only overlay tests the unexported tube frame and initiate frame (64 flag combinations x 9 data lengths), execution request (command/term lengths up to 200000, flags, window size) and port-forward address packet (TCP/UDP/unix, ports across 32767/32768/65535, IPv6) - at lengths {0,1,2,100,251..257,300,511..513,1000,65535,65536,...}. Each event carries the abstract value, encoder outcome (ok/err/panic), decoder outcome and equality; mutated valid encodings that still decode must be stable under decode-encode-decode. TLC judges every event.",
    note="Trusted: TLC, the drivers' value generators and equality (times compared by Unix seconds, fingerprints not compared). 4-byte prefixes treated as unbounded. The user-authentication request codec needs a live reliable tube and is exercised by the C11 tube drivers instead."),
}

NOT_YET = {}

def main():
    props = [json.loads(l) for l in open(os.path.join(V, "properties.jsonl"))]
    try:
        commits = subprocess.run(["git", "-C", "/repo", "log", "--format=%h %s", "e61f26d..HEAD"], capture_output=True, text=True).stdout.strip().split("\n")
    except Exception:
        commits = []
    hook_commits = [c.split()[0] for c in commits if c and " verif:" in " " + c]
    checks = []
    for pid, c in sorted(CHECKS.items()):
        checks.append(dict(
            property_id=pid,
            quick_cmd="tools/check %s --tier quick" % pid,
            thorough_cmd="tools/check %s --tier thorough" % pid,
            evidence_file="/verif/evidence/%s.json" % pid,
            replay_cmd_template="tools/check %s --replay {path}" % pid,
            engine="tlc+go-harness",
            level_claimed=dict(category=c["level"], text=c["text"], design_ref="DESIGN.md " + c["ref"]),
            level_note=c["note"],
            technique=c["technique"]))
    na = []
    for p in props:
        if p["id"] not in CHECKS:
            na.append(dict(property_id=p["id"], reason=NOT_YET.get(p["id"], "check not built yet in this round (planned: DESIGN.md §3 %s); not claimed until its check is registered" % p["id"])))
    m = dict(
        version=1,
        setup_cmd="tools/setup",
        hooks=dict(guard="verif (Go build tag)", enable="go build/test -tags verif (harness module with replace hop.computer/hop => /repo; white-box drivers added with go test -overlay)",
                   baseline_off_cmd="cd /repo && GOFLAGS=-mod=mod GOPROXY=off go test -vet=off -count=1 -timeout 25m ./...",
                   source_commits=hook_commits, add_only=True),
        engines=[dict(name="tlc+go-harness", path="/verif/tools/check", serves_properties=sorted(CHECKS),
                      kind_free_text="explicit TLA+ specs (spec/*.tla) model-checked with TLC; bound to the Go code by trace validation (code->spec), replay of TLC behaviours (spec->code) and state-graph edge coverage")],
        checks=checks,
        notes="Verdict policy: exit 0 held / exit 1 VIOLATION only from real-code behaviour / exit 2 machinery inconclusive. known_findings.json lists recorded genuine defects.",
        not_applicable=na)
    with open(os.path.join(V, "MANIFEST.json"), "w") as fh:
        json.dump(m, fh, indent=1)
    print("MANIFEST.json: %d checks, %d not claimed" % (len(checks), len(na)))
main()
