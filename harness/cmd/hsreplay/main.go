// hsreplay replays handshake behaviours emitted by TLC (MC_HopHandshake.tla) on real transport
// clients and servers over the simulated wire, lock-step, and reports the observable outcome of
// each behaviour next to the model's.
//
//	hsreplay <behaviours.jsonl> <out.jsonl> <seed> [workers]
package main

import (
	"bufio"
	"bytes"
	"encoding/json"
	"fmt"
	"io"
	"math/rand"
	"net"
	"os"
	"sort"
	"strconv"
	"sync"
	"time"

	"github.com/sirupsen/logrus"

	"hop.computer/hop/certs"
	"hop.computer/hop/keys"
	"hop.computer/hop/transport"
	"verif/harness/hopkit"
	"verif/harness/rec"
	"verif/harness/simwire"
)

type certT struct {
	Key, Cls, Name string
}
type scfgT struct {
	Cert, Key, Pol, Kem string
	Hidden              bool
	Auth                []string
	Rev                 []string
}
type ccfgT struct {
	Cert, Key, Pol, Name, Skem string
}
type stepT struct {
	S   int    `json:"s"`
	Hop string `json:"hop"`
	Mv  string `json:"mv"`
	F   string `json:"f"`
	// optional concrete choices (byte-level expansion of a field-level move)
	Off  *int `json:"off,omitempty"`  // absolute byte offset to flip
	Mask *int `json:"mask,omitempty"` // XOR mask
	Cut  *int `json:"cut,omitempty"`  // bytes to cut off the end
	// CutZero: repeat the whole scenario until the datagram of this step ends in 0x00, then cut its trailing zero
	// bytes (a receiver that parses beyond the datagram into a zeroed buffer cannot tell the difference)
	CutZero bool `json:"cutzero,omitempty"`
}
type clOut struct {
	St    string `json:"st"`
	Alt   bool   `json:"alt"`
	SrvOK bool   `json:"srvOK"`
	CliOK bool   `json:"cliOK"`
	Agree bool   `json:"agree"`
}
type estT struct {
	Cert string `json:"cert"`
	Alt  bool   `json:"alt"`
	From string `json:"from"`
}
type srvOut struct {
	Acc, Nhs, Nsess, Sent int
	Est                   []estT
}
type beh struct {
	Mode  []string          `json:"mode"`
	Ccfg  []ccfgT           `json:"ccfg"`
	Dial  []string          `json:"dial"`
	Hist  []stepT           `json:"hist"`
	Scfg  map[string]scfgT  `json:"scfg"`
	Certs map[string]certT  `json:"certs"`
	Cl    []clOut           `json:"cl"`
	Srv   map[string]srvOut `json:"srv"`
}

// ---- shared material (read-only after init) -------------------------------------------------
var (
	pki    *hopkit.PKI
	idMu   sync.Mutex
	idents = map[string]*hopkit.Ident{}
	kems   = map[string]*keys.KEMKeyPair{}
)

func dnsOf(n string) string {
	switch n {
	case "a", "araw":
		return "a.example"
	case "b":
		return "b.example"
	}
	return "client-" + n
}

func identFor(id string, c certT) *hopkit.Ident {
	idMu.Lock()
	defer idMu.Unlock()
	if x, ok := idents[id]; ok {
		return x
	}
	x := pki.Issue(c.Cls, dnsOf(c.Name))
	if c.Name == "araw" {
		x = pki.IssueRawName(dnsOf(c.Name))
	}
	idents[id] = x
	return x
}

var decoy *hopkit.Ident

func decoyIdent() *hopkit.Ident {
	if decoy == nil {
		decoy = pki.Issue("valid", "decoy.invalid")
	}
	return decoy
}

func kemFor(name string) *keys.KEMKeyPair {
	idMu.Lock()
	defer idMu.Unlock()
	if k, ok := kems[name]; ok {
		return k
	}
	k := hopkit.NewKEM()
	kems[name] = k
	return k
}

// holder returns the identity an endpoint uses: the certificate's owner, or an impostor.
func holder(b *beh, certID, key string) *hopkit.Ident {
	id := identFor(certID, b.Certs[certID])
	if b.Certs[certID].Key == key {
		return id
	}
	return hopkit.Impostor(id)
}

type stepObs struct {
	Acc     int  `json:"acc"`     // connections the server newly offered to Accept at this step
	Sent    int  `json:"sent"`    // datagrams the server emitted at this step
	CliFin  bool `json:"clifin"`  // the client of this session had already finished BEFORE this step
	CliDone bool `json:"clidone"` // ... and is done (success) AFTER this step
	Tables  int  `json:"tables"`  // tracked handshakes + sessions of the dialled server after this step
	SentTot int  `json:"senttot"` // datagrams that server has emitted so far
}

type result struct {
	I        int                 `json:"i"`
	Err      string              `json:"err,omitempty"`
	Done     []bool              `json:"done"`
	Agree    []bool              `json:"agree"`
	Probe    []bool              `json:"probe"`
	KeysDiff []bool              `json:"keysdiff"` // same session id on both sides but different keys
	C2SeqS2C []bool              `json:"c2s_eq_s2c"`
	Acc      map[string]int      `json:"acc"`
	Leafs    map[string][]string `json:"leafs"` // abstract cert ids of accepted connections
	Nhs      map[string]int      `json:"nhs"`
	Nsess    map[string]int      `json:"nsess"`
	Sent     map[string]int      `json:"sent"`
	KeySet   []string            `json:"-"`
	Muts     []string            `json:"muts,omitempty"`
	Lens     map[string]int      `json:"lens,omitempty"` // datagram length per "<session><hop>" that travelled
	Steps    []stepObs           `json:"steps"`          // per history step: what the receiving side did
}

func srvAddr(n int) *net.UDPAddr { return simwire.Addr("10.0.0."+strconv.Itoa(n+1), 77) }
func cliAddr(i int) *net.UDPAddr { return simwire.Addr("10.0.1."+strconv.Itoa(i), 1000+i) }

var axAddr = simwire.Addr("10.0.9.9", 999)

func replyHop(h string) string {
	switch h {
	case "CH":
		return "SH"
	case "SH":
		return "CA"
	case "CA":
		return "SA"
	case "SA":
		return "CL"
	case "HR":
		return "HP"
	}
	return ""
}
func toServer(h string) bool { return h == "CH" || h == "CA" || h == "CL" || h == "HR" }

var errRetry = fmt.Errorf("retry")

func replay(idx int, b *beh, seed int64) (res result) {
	need := false
	for _, st := range b.Hist {
		need = need || st.CutZero
	}
	if !need {
		return replayOnce(idx, b, seed)
	}
	for attempt := 0; attempt < 4000; attempt++ {
		res = replayOnce(idx, b, seed+int64(attempt))
		if res.Err != "panic in replayer or code under test: retry" {
			res.Muts = append(res.Muts, fmt.Sprintf("attempts=%d", attempt+1))
			return res
		}
	}
	res.Err = "no datagram ending in a zero byte in 4000 handshakes"
	return res
}

func replayOnce(idx int, b *beh, seed int64) (res result) {
	res = result{I: idx, Acc: map[string]int{}, Nhs: map[string]int{}, Nsess: map[string]int{}, Sent: map[string]int{}, Leafs: map[string][]string{}}
	defer func() {
		if r := recover(); r != nil {
			res.Err = fmt.Sprint("panic in replayer or code under test: ", r)
			if r == "retry" {
				res.Err = "panic in replayer or code under test: retry"
			}
		}
	}()
	rng := rand.New(rand.NewSource(seed + int64(idx)*7919))
	w := hopkit.NewWorld()
	defer w.Close()
	// servers
	var names []string
	for s := range b.Scfg {
		names = append(names, s)
	}
	sort.Strings(names)
	srv := map[string]*hopkit.Srv{}
	for n, s := range names {
		sc := b.Scfg[s]
		var auth []keys.DHPublicKey
		for cid, c := range b.Certs {
			for _, a := range sc.Auth {
				if c.Key == a {
					auth = append(auth, identFor(cid, c).Key.Public)
				}
			}
		}
		var rev []keys.DHPublicKey
		for cid, c := range b.Certs {
			for _, a := range sc.Rev {
				if c.Key == a {
					rev = append(rev, identFor(cid, c).Key.Public)
				}
			}
		}
		pol := pki.Policy(sc.Pol, "", append(auth, rev...)...)
		if idx%3 == 1 {
			// concretisation variant: the same policy as hopd derives it - configuration file on disk, the real
			// loader, hopserver.NewHopServer (same role, same facts)
			fp, err := pki.PolicyViaConfigFile(sc.Pol, idx/3, append(auth, rev...)...)
			if err != nil {
				panic("policy via configuration file: " + err.Error())
			}
			pol = fp
		}
		if idx%4 >= 2 {
			// concretisation variant: an additional verification callback that has no objection
			pol.AddVerifyCallback = noObjection
		}
		if pol.AuthKeys != nil {
			for _, k := range rev { // authorised earlier, removed since
				pol.AuthKeys.RemoveKey(k)
			}
		}
		opt := hopkit.SrvOpt{Ident: holder(b, sc.Cert, sc.Key), Hidden: sc.Hidden, ClientVerify: pol}
		if sc.Kem != "none" {
			opt.KEM = kemFor(sc.Kem)
		}
		if sc.Hidden && sc.Kem != "none" && idx%2 == 1 {
			// concretisation variant: a hidden server with TWO certificates, the one of this role second, so that
			// the trial decryption of a request aimed at it succeeds on the second trial (same role, same facts)
			real := opt.Ident
			label := func(id *hopkit.Ident, dflt string) string {
				if len(id.Leaf.IDChunk.Blocks) > 0 && len(id.Leaf.IDChunk.Blocks[0].Label) > 0 {
					return string(id.Leaf.IDChunk.Blocks[0].Label)
				}
				return dflt
			}
			opt = hopkit.SrvOpt{Ident: decoyIdent(), KEM: kemFor("decoy"), Hidden: true, ClientVerify: pol,
				Extra: []*hopkit.Ident{real}, ExtraKEM: []*keys.KEMKeyPair{opt.KEM}, Patterns: []string{"decoy.invalid", label(real, "real.invalid")}}
			if opt.Patterns[1] == "decoy.invalid" {
				opt.Patterns[1] = "real.invalid"
			}
		}
		srv[s] = w.NewServer(srvAddr(n), opt)
	}
	// clients
	n := len(b.Mode)
	cli := make([]*hopkit.Cli, n+1)
	for i := 1; i <= n; i++ {
		cc := b.Ccfg[i-1]
		opt := hopkit.CliOpt{Ident: holder(b, cc.Cert, cc.Key), Verify: pki.Policy(cc.Pol, dnsOf(cc.Name))}
		if idx%4 >= 2 {
			opt.Verify.AddVerifyCallback = noObjection
		}
		if b.Mode[i-1] == "hid" {
			opt.ServerKEM = &kemFor(b.Scfg[cc.Skem].Kem).Public
		}
		cli[i] = w.NewClient(cliAddr(i), srv[b.Dial[i-1]].EP.Addr(), opt)
	}
	pending := map[string][]byte{}
	old := map[string][]byte{}
	handles := map[string][]*transport.Handle{}
	drain := func(s string) int {
		k := 0
		for {
			h, err := srv[s].T.AcceptTimeout(200 * time.Microsecond)
			if err != nil {
				return k
			}
			handles[s] = append(handles[s], h)
			k++
		}
	}
	key := func(i int, h string) string { return strconv.Itoa(i) + h }
	collectClient := func(i int) {
		if err := cli[i].WaitStep(); err != nil {
			panic(err)
		}
		for _, d := range w.Net.TakeFrom(cli[i].EP) {
			pending[key(i, hopkit.TypeName(d.Data))] = d.Data
		}
	}
	deliver := func(i int, h string, data []byte, src *net.UDPAddr) {
		if toServer(h) {
			s := srv[b.Dial[i-1]]
			if src == nil {
				src = cli[i].EP.Addr()
			}
			before := len(w.Net.All())
			if err := s.EP.Deliver(data, src, hopkit.StepTimeout); err != nil {
				panic(err)
			}
			res.Sent[b.Dial[i-1]] += len(w.Net.All()) - before
			for _, d := range w.Net.TakeFrom(s.EP) {
				pending[key(i, hopkit.TypeName(d.Data))] = d.Data // the adversary forwards replies along path i
			}
		} else {
			cli[i].EP.Inject(data, srv[b.Dial[i-1]].EP.Addr())
			collectClient(i)
		}
	}
	for _, st := range b.Hist {
		var ob stepObs
		sentBefore := 0
		if st.S > 0 {
			ob.CliFin, _ = cli[st.S].Finished()
			sentBefore = res.Sent[b.Dial[st.S-1]]
		}
		switch {
		case st.Hop == "start":
			cli[st.S].Start()
			collectClient(st.S)
		case st.Hop == "rotate":
			srv[st.Mv].T.VerifRotateCookieKey()
		case st.Hop == "tick":
			time.Sleep(7100 * time.Millisecond) // beyond the 5 s window whatever the phase of the second
		case st.Mv == "replay":
			d, ok := old[key(st.S, st.Hop)]
			if !ok {
				panic("replay of a message that never travelled: " + key(st.S, st.Hop))
			}
			if st.Cut != nil { // replay of a truncated copy
				d = d[:len(d)-*st.Cut]
				res.Muts = append(res.Muts, fmt.Sprintf("%s replay trunc -%d", key(st.S, st.Hop), *st.Cut))
			}
			if st.Off != nil && st.Mask != nil {
				d = append([]byte(nil), d...)
				d[*st.Off] ^= byte(*st.Mask)
			}
			deliver(st.S, st.Hop, d, nil)
		default:
			k := key(st.S, st.Hop)
			d, ok := pending[k]
			if !ok {
				panic("no pending message for step " + k)
			}
			delete(pending, k)
			old[k] = d
			if res.Lens == nil {
				res.Lens = map[string]int{}
			}
			res.Lens[k] = len(d)
			switch st.Mv {
			case "ok":
				deliver(st.S, st.Hop, d, nil)
			case "drop":
			case "readdr":
				deliver(st.S, st.Hop, d, axAddr)
			case "trunc":
				if st.CutZero {
					if d[len(d)-1] != 0 {
						panic("retry")
					}
					z := 0
					for z < len(d)-1 && d[len(d)-1-z] == 0 {
						z++
					}
					st.Cut = &z
				}
				cut := 1 + rng.Intn(len(d)-1)
				if rng.Intn(3) == 0 {
					cut = 1 + rng.Intn(16)
				}
				if st.Cut != nil {
					cut = *st.Cut
				}
				res.Muts = append(res.Muts, fmt.Sprintf("%s trunc -%d", k, cut))
				deliver(st.S, st.Hop, d[:len(d)-cut], nil)
			case "tamper":
				m := append([]byte(nil), d...)
				var off int
				var mask byte
				if st.Off != nil && st.Mask != nil {
					off, mask = *st.Off, byte(*st.Mask)
				} else {
					f, ok := hopkit.FieldOf(d, st.F)
					if !ok {
						panic("field " + st.F + " not in " + hopkit.TypeName(d))
					}
					off = f.Off + []int{0, f.Len - 1, rng.Intn(f.Len)}[rng.Intn(3)]
					mask = []byte{0x01, 0x80, 0xff, byte(1 + rng.Intn(255))}[rng.Intn(4)]
					if st.F == "len" {
						// the abstract move is "a SMALLER declared length": clear one set bit of the low byte
						off = f.Off + 1
						mask = d[off] & -d[off]
						if mask == 0 {
							off, mask = f.Off, d[f.Off]&-d[f.Off]
						}
					}
				}
				m[off] ^= mask
				res.Muts = append(res.Muts, fmt.Sprintf("%s %s@%d^%02x", k, st.F, off, mask))
				deliver(st.S, st.Hop, m, nil)
			case "splice":
				o := 3 - st.S
				od, ok := pending[key(o, st.Hop)]
				if !ok {
					od, ok = old[key(o, st.Hop)]
				}
				if !ok {
					panic("splice without the other session's message")
				}
				deliver(st.S, st.Hop, od, nil)
			default:
				panic("unknown move " + st.Mv)
			}
		}
		if st.S > 0 {
			s := b.Dial[st.S-1]
			ob.Acc = drain(s)
			ob.Sent = res.Sent[s] - sentBefore
			ob.SentTot = res.Sent[s]
			nh, ns := srv[s].T.VerifTables()
			ob.Tables = nh + ns
			fin, err := cli[st.S].Finished()
			ob.CliDone = fin && err == nil
		}
		res.Steps = append(res.Steps, ob)
	}
	// outcomes
	res.Done = make([]bool, n)
	res.Agree = make([]bool, n)
	res.Probe = make([]bool, n)
	res.KeysDiff = make([]bool, n)
	res.C2SeqS2C = make([]bool, n)
	for i := 1; i <= n; i++ {
		fin, err := cli[i].Finished()
		if !fin {
			cli[i].Abort()
			continue
		}
		res.Done[i-1] = err == nil
	}
	for s, sv := range srv {
		drain(s)
		for _, h := range handles[s] {
			leaf := h.FetchClientLeaf()
			id := "?"
			for cid, c := range b.Certs {
				x := identFor(cid, c)
				if leaf != nil && bytes.Equal(x.Leaf.Fingerprint[:], leaf.Fingerprint[:]) {
					id = cid
				}
			}
			res.Leafs[s] = append(res.Leafs[s], id)
		}
		res.Acc[s] = len(handles[s])
		res.Nhs[s], res.Nsess[s] = sv.T.VerifTables()
	}
	seen := map[[16]byte]bool{}
	for i := 1; i <= n; i++ {
		if !res.Done[i-1] {
			continue
		}
		v, ok := cli[i].T.VerifSession()
		if !ok {
			continue
		}
		res.C2SeqS2C[i-1] = v.C2S == v.S2C
		if seen[v.C2S] || seen[v.S2C] {
			res.KeysDiff[i-1] = true // key shared between sessions: reported through the same flag family
		}
		seen[v.C2S], seen[v.S2C] = true, true
		s := b.Dial[i-1]
		for _, h := range handles[s] {
			hv := h.VerifSession()
			if hv.SessionID == v.SessionID {
				if hv.C2S == v.C2S && hv.S2C == v.S2C {
					res.Agree[i-1] = true
				} else {
					res.KeysDiff[i-1] = true
				}
			}
		}
		// black-box twin of key agreement: a data message flows client -> server
		msg := []byte(fmt.Sprintf("probe-%d-%d", idx, i))
		if err := cli[i].T.WriteMsg(msg); err == nil {
			for _, d := range w.Net.TakeFrom(cli[i].EP) {
				srv[s].EP.Deliver(d.Data, d.From, hopkit.StepTimeout)
			}
			for _, h := range handles[s] {
				h.SetReadDeadline(time.Now().Add(time.Millisecond))
				buf := make([]byte, 100)
				if k, err := h.ReadMsg(buf); err == nil && bytes.Equal(buf[:k], msg) {
					res.Probe[i-1] = true
				}
			}
		}
	}
	return res
}

// noObjection is an additional verification callback that accepts every certificate it is shown.
func noObjection(*certs.Certificate) error { return nil }

func main() {
	logrus.SetOutput(io.Discard)
	in, out := os.Args[1], os.Args[2]
	seed, _ := strconv.ParseInt(os.Args[3], 10, 64)
	workers := 32
	if len(os.Args) > 4 {
		workers, _ = strconv.Atoi(os.Args[4])
	}
	pki = hopkit.NewPKI()
	f, err := os.Open(in)
	if err != nil {
		panic(err)
	}
	defer f.Close()
	var behs []*beh
	sc := bufio.NewScanner(f)
	sc.Buffer(make([]byte, 1<<22), 1<<22)
	for sc.Scan() {
		b := new(beh)
		if err := json.Unmarshal(sc.Bytes(), b); err != nil {
			panic(err)
		}
		behs = append(behs, b)
	}
	w := rec.Must(out)
	defer w.Close()
	jobs := make(chan int)
	var wg sync.WaitGroup
	for k := 0; k < workers; k++ {
		wg.Add(1)
		go func() {
			defer wg.Done()
			for i := range jobs {
				w.Obj(replay(i, behs[i], seed))
			}
		}()
	}
	for i := range behs {
		jobs <- i
	}
	close(jobs)
	wg.Wait()
}
