# C01 — handshake completes only with a peer that proved its certified key (DESIGN.md §3 C01)
import random
import lib
from props import hs_common as H

def run(v, tier, replay):
    thorough = tier == "thorough"
    v.assumptions += ["symbolic cryptography (transcript terms; MAC/tag = transcript; DH = unordered key pair; KEM by owner)",
                      "structured adversary: per hop one of ok/drop/tamper(field)/truncate/splice/readdr, plus replay, cookie-key rotation, clock tick; at most 1 move (families A,B) or 2 (family C, thorough)",
                      "role instances: 12 server instances (honest under 4 client policies, hidden-only, impostor, wrong name, expired, wrong type, untrusted root, self-signed) x 7 client kinds",
                      "a refusal is never a violation; only completions/offers the property forbids are"]
    H.selftest_mutant(v)
    nun = 0
    fams = ["A", "B"] + (["C", "Ch"] if thorough else [])
    for fam in fams:
        behs = H.tlc_family(v, fam)
        if fam in ("C",) and len(behs) > 12000:
            random.Random(lib.seed()).shuffle(behs)
            behs = behs[:12000]
        res = H.replay(v, behs, fam)
        nun += H.judge(v, "C01", behs, res)
    # validity is judged at the time of EACH handshake: one long-lived server / one shared client policy sees a
    # certificate while it is valid and again after it has expired (real clock, 2 s certificates)
    import os
    binp = lib.go_build("hsexpiry")
    sd = lib.scratch("vf-c01-")
    of = os.path.join(sd, "expiry.ndjson")
    rc, so, se = lib.run([binp, of], timeout=300)
    evs = lib.read_ndjson(of) if os.path.exists(of) else []
    if rc != 0 or len(evs) < 16:
        raise lib.Inconclusive("hsexpiry failed: " + (so + se)[-2000:])
    for e in evs:
        v.case(("expiry", e["side"], e["hidden"], e["phase"]), nontrivial=True)
        # who judges the expiring certificate: the server (it must not offer the connection) or the client (its
        # Handshake must fail); the other side may well complete, it was shown a valid certificate
        ok = e["offered"] > 0 if e["side"] == "client-cert" else e["completed"] == "yes"
        if e["phase"] == "after" and ok:
            v.violation("handshake with an EXPIRED %s succeeded (%s mode): the same certificate had been accepted by the same long-lived %s while it was valid; client completed=%s, server offered %d connection(s)" % (
                            "client certificate" if e["side"] == "client-cert" else "server certificate", "hidden" if e["hidden"] == "yes" else "discoverable",
                            "server" if e["side"] == "client-cert" else "client policy", e["completed"], e["offered"]),
                        "real client and server, real clock; certificate life 2 s", e)
        elif e["phase"] != "after" and not (e["completed"] == "yes" and e["offered"] == 1):
            if e["phase"] == "before" and e["late_ms"] > -300:
                continue    # the machine was too slow to use the certificate while it was valid: no verdict from this case
            raise lib.Inconclusive("hsexpiry: a handshake that must succeed did not (%s)" % e)
        else:
            v.count("traces_validated_against_impl")
    v.cov["exhaustive"] = True
    if nun:
        if not v.viol:
            raise lib.Inconclusive("%d behaviours differ between model and code in ways no property clause explains (see UNEXPLAINED lines)" % nun)
