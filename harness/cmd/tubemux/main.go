// tubemux exercises tube multiplexing on real muxer pairs over scriptconn: concurrent creation from both
// sides, open/close/reopen histories (identifier reuse), instance-tagged traffic, unreliable messages, and
// the delayed-duplicate-REQ history.
//
//	tubemux <out.ndjson> <seed> <thorough:0|1>
package main

import (
	"bytes"
	"fmt"
	"io"
	"math/rand"
	"os"
	"strconv"
	"sync"
	"sync/atomic"
	"time"

	"github.com/sirupsen/logrus"

	"hop.computer/hop/tubes"
	"verif/harness/rec"
	"verif/harness/scriptconn"
)

var w *rec.W

var watchdogAfter = 180 * time.Second

func yn(b bool) string {
	if b {
		return "yes"
	}
	return "no"
}

func newPair(policy scriptconn.Policy) (*scriptconn.Net, *tubes.Muxer, *tubes.Muxer) {
	n := scriptconn.New(policy)
	log := logrus.New()
	log.SetOutput(io.Discard)
	return n, tubes.Client(n.A, &tubes.Config{Log: logrus.NewEntry(log)}), tubes.Server(n.B, &tubes.Config{Log: logrus.NewEntry(log)})
}

var instCtr atomic.Int64

func waitClosed(t *tubes.Reliable, d time.Duration) bool {
	done := make(chan struct{})
	go func() { t.WaitForClose(); close(done) }()
	select {
	case <-done:
		return true
	case <-time.After(d):
		return false
	}
}

// tagged stream: "<inst>|" repeated; the reader checks that every byte belongs to ONE instance
func tagBytes(inst int64, n int) []byte {
	unit := []byte(fmt.Sprintf("%06d|", inst))
	b := make([]byte, 0, n+len(unit))
	for len(b) < n {
		b = append(b, unit...)
	}
	return b[:n-(n%len(unit))]
}

type acceptor struct {
	mu   sync.Mutex
	seen map[int64]int
	stop chan struct{}
	done sync.WaitGroup
}

// serve accepts tubes on m, reads each to EOF and logs which instance(s) its bytes came from.
func serve(sc int, end string, m *tubes.Muxer, a *acceptor) {
	for {
		t, err := m.Accept()
		if err != nil {
			return
		}
		a.done.Add(1)
		go func(t tubes.Tube) {
			defer a.done.Done()
			id, typ, rel := t.GetID(), byte(t.Type()), t.IsReliable()
			if !rel {
				w.Ev("accept", "sc", sc, "end", end, "id", id, "rel", "no", "type", typ, "inst", 0, "pure", "yes", "bytes", 0)
				return
			}
			r := t.(*tubes.Reliable)
			var all []byte
			buf := make([]byte, 65536)
			r.SetReadDeadline(time.Now().Add(8 * time.Second))
			for {
				n, err := r.Read(buf)
				all = append(all, buf[:n]...)
				if err != nil {
					break
				}
			}
			r.Close()
			inst, pure := int64(0), true
			for off := 0; off+7 <= len(all); off += 7 {
				v, err := strconv.ParseInt(string(all[off:off+6]), 10, 64)
				if err != nil || all[off+6] != '|' {
					pure = false
					break
				}
				if inst == 0 {
					inst = v
				} else if v != inst {
					pure = false
					break
				}
			}
			a.mu.Lock()
			a.seen[inst]++
			a.mu.Unlock()
			w.Ev("accept", "sc", sc, "end", end, "id", id, "rel", "yes", "type", typ, "inst", inst, "pure", yn(pure), "bytes", len(all))
		}(t)
	}
}

// creators: k goroutines per side open tubes concurrently, write a tagged stream, close; rounds of this reuse ids.
func scenarioReuse(sc int, rounds, k int, rng *rand.Rand, policy scriptconn.Policy, name string) {
	_, ma, mb := newPair(policy)
	w.Ev("reset", "sc", sc, "name", name)
	accA, accB := &acceptor{seen: map[int64]int{}}, &acceptor{seen: map[int64]int{}}
	go serve(sc, "A", ma, accA)
	go serve(sc, "B", mb, accB)
	for round := 0; round < rounds; round++ {
		var wg sync.WaitGroup
		var mu sync.Mutex
		live := map[string]int64{}
		for _, side := range []struct {
			end string
			m   *tubes.Muxer
		}{{"A", ma}, {"B", mb}} {
			for g := 0; g < k; g++ {
				wg.Add(1)
				go func(end string, m *tubes.Muxer, g int) {
					defer wg.Done()
					inst := instCtr.Add(1)
					typ := tubes.TubeType(10 + inst%200)
					t, err := m.CreateReliableTube(typ)
					if err != nil {
						w.Ev("createerr", "sc", sc, "end", end, "err", err.Error())
						return
					}
					key := fmt.Sprintf("%s-%d", end, t.GetID())
					mu.Lock()
					other, clash := live[key]
					live[key] = inst
					mu.Unlock()
					w.Ev("create", "sc", sc, "end", end, "id", t.GetID(), "rel", "yes", "type", byte(typ), "inst", inst, "clash", yn(clash), "with", other)
					n := []int{7, 700, 40000, 100000}[rng.Intn(4)]
					if _, err := t.Write(tagBytes(inst, n)); err != nil {
						w.Ev("writeerr", "sc", sc, "inst", inst, "err", err.Error())
					}
					t.Close()
					waitClosed(t, 6*time.Second) // bounded: whether closure always completes is C16's question, not C09's
					mu.Lock()
					delete(live, key)
					mu.Unlock()
				}(side.end, side.m, g)
			}
		}
		wg.Wait()
		time.Sleep(1500 * time.Millisecond) // past the reap delay (4 RTT): the next round reuses the ids
	}
	accA.done.Wait()
	accB.done.Wait()
	go ma.Stop()
	go mb.Stop()
	time.Sleep(50 * time.Millisecond)
	w.Ev("end", "sc", sc, "created", instCtr.Load())
}

func scenarioUnreliable(sc int) {
	_, ma, mb := newPair(nil)
	w.Ev("reset", "sc", sc, "name", "unreliable-messages")
	tu, err := ma.CreateUnreliableTube(77)
	if err != nil {
		w.Ev("createerr", "sc", sc, "end", "A", "err", err.Error())
		return
	}
	tb, err := mb.Accept()
	if err != nil {
		return
	}
	ub := tb.(*tubes.Unreliable)
	w.Ev("accept", "sc", sc, "end", "B", "id", ub.GetID(), "rel", yn(ub.IsReliable()), "type", byte(ub.Type()), "inst", 0, "pure", "yes", "bytes", 0)
	for _, n := range []int{1, 2, 100, 32767, 32768, 32769, 40000, 65535, 65536, 65536 + 100, 0, 5} {
		msg := bytes.Repeat([]byte{byte(n), byte(n >> 8)}, n/2+1)[:n]
		k, _, err := tu.WriteMsgUDP(msg, nil, nil)
		wrote := err == nil
		got := -1
		same := false
		if wrote {
			buf := make([]byte, 70000)
			ub.SetReadDeadline(time.Now().Add(300 * time.Millisecond))
			g, _, _, _, err := ub.ReadMsgUDP(buf, nil)
			if err == nil {
				got = g
				same = bytes.Equal(buf[:g], msg)
			}
		}
		w.Ev("unrel", "sc", sc, "size", n, "wrote", yn(wrote), "ret", k, "got", got, "same", yn(same))
	}
	go ma.Stop()
	go mb.Stop()
}

// scenarioMixed: a reliable and an unreliable tube with the SAME id; the reliable one loses a data frame (RTO
// retransmission, RTR acknowledgements); the unreliable reader lags behind the writer.  Every unreliable message
// read must be one that was written on that tube, whole and in order; nothing else may show up there.
func scenarioMixed(sc int) {
	policy := func(f *scriptconn.Frame) scriptconn.Action {
		if f.Dir == 0 && f.REL && f.Kind() == "data" && (f.FrameNo == 2 || f.FrameNo == 5) && f.Nth == 1 {
			return scriptconn.Action{Drop: true}
		}
		return scriptconn.Action{}
	}
	_, ma, mb := newPair(policy)
	w.Ev("reset", "sc", sc, "name", "mixed-same-id")
	r, err := ma.CreateReliableTube(21)
	if err != nil {
		return
	}
	u, err := ma.CreateUnreliableTube(22)
	if err != nil {
		return
	}
	var rb *tubes.Reliable
	var ub *tubes.Unreliable
	for k := 0; k < 2; k++ {
		t, err := mb.Accept()
		if err != nil {
			return
		}
		if t.IsReliable() {
			rb = t.(*tubes.Reliable)
		} else {
			ub = t.(*tubes.Unreliable)
		}
	}
	w.Ev("note", "sc", sc, "what", fmt.Sprintf("reliable id %d, unreliable id %d", r.GetID(), u.GetID()))
	inst := instCtr.Add(1)
	const K = 30
	var wg sync.WaitGroup
	wg.Add(2)
	go func() { // reliable stream with loss, read concurrently
		defer wg.Done()
		r.Write(tagBytes(inst, 250000))
		r.Close()
	}()
	var relBytes int
	go func() {
		defer wg.Done()
		buf := make([]byte, 65536)
		rb.SetReadDeadline(time.Now().Add(10 * time.Second))
		for {
			n, err := rb.Read(buf)
			relBytes += n
			if err != nil {
				return
			}
		}
	}()
	msgs := make([][]byte, K)
	for i := range msgs {
		msgs[i] = bytes.Repeat([]byte{byte('A' + i%26)}, 10+i*37)
		u.WriteMsgUDP(msgs[i], nil, nil)
		time.Sleep(15 * time.Millisecond)
	}
	wg.Wait()
	time.Sleep(700 * time.Millisecond) // past the RTO retransmissions
	// the lagging reader now drains the unreliable tube
	got, intact, extra := 0, true, 0
	next := 0
	buf := make([]byte, 70000)
	for {
		ub.SetReadDeadline(time.Now().Add(150 * time.Millisecond))
		n, _, _, _, err := ub.ReadMsgUDP(buf, nil)
		if err != nil {
			break
		}
		got++
		found := false
		for j := next; j < K; j++ {
			if bytes.Equal(buf[:n], msgs[j]) {
				next = j + 1
				found = true
				break
			}
		}
		if !found {
			extra++
			intact = false
		}
	}
	// nothing was ever written towards the opener's end of the unreliable tube
	for {
		u.SetReadDeadline(time.Now().Add(150 * time.Millisecond))
		if _, _, _, _, err := u.ReadMsgUDP(buf, nil); err != nil {
			break
		}
		extra++
		intact = false
	}
	w.Ev("unrelseq", "sc", sc, "wrote", K, "got", got, "intact", yn(intact), "extra", extra, "relbytes", relBytes)
	go ma.Stop()
	go mb.Stop()
	w.Ev("end", "sc", sc, "created", 2)
}

// scenarioIdleReopen: a tube stays idle, both sides close, the opener's final acknowledgement is lost, and the
// opener opens a new tube (same id) after the reap delay: the new tube must be offered to the acceptor.
func scenarioIdleReopen(sc int, idle, gap time.Duration) {
	var mu sync.Mutex
	closing := false
	policy := func(f *scriptconn.Frame) scriptconn.Action {
		mu.Lock()
		defer mu.Unlock()
		if closing && f.Dir == 0 && f.Kind() == "ack" {
			return scriptconn.Action{Drop: true} // the opener's acknowledgements of the peer's FIN never arrive
		}
		return scriptconn.Action{}
	}
	_, ma, mb := newPair(policy)
	w.Ev("reset", "sc", sc, "name", fmt.Sprintf("idle-%dms-reopen-after-%dms", idle.Milliseconds(), gap.Milliseconds()))
	acc := &acceptor{seen: map[int64]int{}}
	go serve(sc, "B", mb, acc)
	inst := instCtr.Add(1)
	t, err := ma.CreateReliableTube(tubes.TubeType(10 + inst%200))
	if err != nil {
		return
	}
	w.Ev("create", "sc", sc, "end", "A", "id", t.GetID(), "rel", "yes", "type", byte(10+inst%200), "inst", inst, "clash", "no", "with", 0)
	t.Write(tagBytes(inst, 70))
	time.Sleep(idle)
	mu.Lock()
	closing = true
	mu.Unlock()
	t.Close()
	waitClosed(t, 6*time.Second)
	mu.Lock()
	closing = false
	mu.Unlock()
	time.Sleep(gap)
	inst2 := instCtr.Add(1)
	t2, err := ma.CreateReliableTube(tubes.TubeType(10 + inst2%200))
	if err == nil {
		w.Ev("create", "sc", sc, "end", "A", "id", t2.GetID(), "rel", "yes", "type", byte(10+inst2%200), "inst", inst2, "clash", "no", "with", 0)
		t2.Write(tagBytes(inst2, 70))
		t2.Close()
		waitClosed(t2, 6*time.Second)
	}
	time.Sleep(500 * time.Millisecond)
	acc.done.Wait()
	go ma.Stop()
	go mb.Stop()
	w.Ev("end", "sc", sc, "created", 2)
}

// scenarioLateReq: the history of the recorded finding - RESP withheld so that A retransmits REQ, the second copy
// is held back, the tube is used and closed on both sides and reaped, then the copy is released.
func scenarioLateReq(sc int) {
	var mu sync.Mutex
	var held []byte
	var n *scriptconn.Net
	reqs := 0
	policy := func(f *scriptconn.Frame) scriptconn.Action {
		mu.Lock()
		defer mu.Unlock()
		if f.Dir == 0 && f.Kind() == "req" {
			reqs++
			if reqs == 2 {
				held = append([]byte(nil), f.Raw...)
				return scriptconn.Action{Drop: true}
			}
		}
		if f.Dir == 1 && f.Kind() == "resp" && f.Nth == 1 {
			return scriptconn.Action{Delay: 450 * time.Millisecond}
		}
		return scriptconn.Action{}
	}
	n = scriptconn.New(policy)
	n.KeepRaw = true
	lg := logrus.New()
	lg.SetOutput(io.Discard)
	ma, mb := tubes.Client(n.A, &tubes.Config{Log: logrus.NewEntry(lg)}), tubes.Server(n.B, &tubes.Config{Log: logrus.NewEntry(lg)})
	w.Ev("reset", "sc", sc, "name", "late-duplicate-req")
	acc := &acceptor{seen: map[int64]int{}}
	go serve(sc, "B", mb, acc)
	inst := instCtr.Add(1)
	t, err := ma.CreateReliableTube(3)
	if err != nil {
		return
	}
	w.Ev("create", "sc", sc, "end", "A", "id", t.GetID(), "rel", "yes", "type", 3, "inst", inst, "clash", "no", "with", 0)
	t.Write(tagBytes(inst, 700))
	t.Close()
	waitClosed(t, 6*time.Second)
	time.Sleep(1800 * time.Millisecond) // both sides closed and reaped
	mu.Lock()
	h := held
	mu.Unlock()
	if h == nil {
		w.Ev("note", "sc", sc, "what", "no retransmitted REQ observed; history not produced")
	} else {
		n.B.Inject(h) // the delayed copy finally arrives
		time.Sleep(300 * time.Millisecond)
		inst2 := instCtr.Add(1)
		t2, err := ma.CreateReliableTube(7)
		if err == nil {
			w.Ev("create", "sc", sc, "end", "A", "id", t2.GetID(), "rel", "yes", "type", 7, "inst", inst2, "clash", "no", "with", 0)
			t2.Write(tagBytes(inst2, 700))
			t2.Close()
			time.Sleep(1500 * time.Millisecond)
		}
	}
	go ma.Stop()
	go mb.Stop()
	time.Sleep(2500 * time.Millisecond)
	w.Ev("end", "sc", sc, "created", 2)
}

// scenarioStray: an unreliable tube 0 is open (first one the server creates) while the client writes small messages
// on a reliable tube through a short blackout.  Nothing was ever written on the unreliable tube: whatever is read
// from it came from another tube.  The reliable stream must be complete and pure.
func scenarioStray(sc int, blackout time.Duration) {
	n, ma, mb := newPair(nil)
	w.Ev("reset", "sc", sc, "name", "stray-frames-unreliable-0")
	ub0, err := mb.CreateUnreliableTube(40)
	if err != nil {
		return
	}
	ta, err := ma.Accept()
	if err != nil {
		return
	}
	ua0, _ := ta.(*tubes.Unreliable)
	ra, err := ma.CreateReliableTube(41)
	if err != nil {
		return
	}
	tb, err := mb.Accept()
	if err != nil {
		return
	}
	rb := tb.(*tubes.Reliable)
	var want []byte
	var got []byte
	var wg sync.WaitGroup
	wg.Add(1)
	go func() {
		defer wg.Done()
		buf := make([]byte, 4096)
		rb.SetReadDeadline(time.Now().Add(20 * time.Second))
		for {
			k, err := rb.Read(buf)
			got = append(got, buf[:k]...)
			if err != nil {
				return
			}
		}
	}()
	msg := func(i int) []byte { return []byte(fmt.Sprintf("<secret-%03d-written-on-the-reliable-tube>", i)) }
	for i := 0; i < 25; i++ { // warm-up, one message at a time
		ra.Write(msg(i))
		want = append(want, msg(i)...)
		time.Sleep(4 * time.Millisecond)
	}
	n.Outage(blackout)
	for i := 25; i < 33; i++ { // written during the blackout
		ra.Write(msg(i))
		want = append(want, msg(i)...)
		time.Sleep(10 * time.Millisecond)
	}
	ra.Close()
	wg.Wait()
	// the unreliable tube: nothing was written on it by anybody
	extra := 0
	buf := make([]byte, 70000)
	for _, u := range []*tubes.Unreliable{ub0, ua0} {
		if u == nil {
			continue
		}
		for {
			u.SetReadDeadline(time.Now().Add(150 * time.Millisecond))
			k, _, _, _, err := u.ReadMsgUDP(buf, nil)
			if err != nil {
				break
			}
			if k > 0 {
				extra++
			}
		}
	}
	w.Ev("unrelseq", "sc", sc, "wrote", 0, "got", extra, "intact", yn(extra == 0), "extra", extra, "relbytes", len(got))
	w.Ev("stream", "sc", sc, "complete", yn(bytes.Equal(got, want)), "got", len(got), "want", len(want))
	go ma.Stop()
	go mb.Stop()
	w.Ev("end", "sc", sc, "created", 2)
}

// scenarioAcceptBacklog: more tubes are requested than the accept queue holds before the application accepts
// any; once it does, every tube must be offered (the requests are retransmitted) and carry its own bytes.
func scenarioAcceptBacklog(sc int) {
	_, ma, mb := newPair(nil)
	w.Ev("reset", "sc", sc, "name", "accept-backlog")
	const N = 128
	var us []*tubes.Unreliable
	for i := 0; i < N; i++ {
		u, err := ma.CreateUnreliableTube(50)
		if err != nil {
			w.Ev("createerr", "sc", sc, "what", err.Error())
			return
		}
		us = append(us, u)
	}
	time.Sleep(300 * time.Millisecond) // all requests have arrived: the accept queue is full
	r, err := ma.CreateReliableTube(51)
	if err != nil {
		w.Ev("createerr", "sc", sc, "what", err.Error())
		return
	}
	inst := instCtr.Add(1)
	w.Ev("create", "sc", sc, "end", "A", "id", r.GetID(), "type", 51, "inst", inst, "clash", "no")
	time.Sleep(200 * time.Millisecond)
	a := &acceptor{seen: map[int64]int{}}
	go serve(sc, "B", mb, a)
	wrote := make(chan error, 1)
	go func() {
		_, err := r.Write(tagBytes(inst, 7000))
		r.Close()
		wrote <- err
	}()
	select {
	case <-wrote:
	case <-time.After(8 * time.Second):
	}
	time.Sleep(1500 * time.Millisecond)
	a.mu.Lock()
	offered := a.seen[inst]
	a.mu.Unlock()
	w.Ev("offered", "sc", sc, "inst", inst, "times", offered, "what", "reliable tube requested while the accept queue was full")
	for _, u := range us {
		u.Close()
	}
	go ma.Stop()
	go mb.Stop()
	w.Ev("end", "sc", sc, "created", N+1)
}

// scenarioStraggler: the ACCEPTOR closes first, the opener closes in response and at once opens the next tube (the
// pattern of TCP port forwarding); a delayed duplicate of a data frame of the old tube arrives afterwards.  The next
// tube must carry only its own bytes, whatever id it got.
func scenarioStraggler(sc int, delay time.Duration) {
	var oldID atomic.Int32
	oldID.Store(-1)
	policy := func(f *scriptconn.Frame) scriptconn.Action {
		if f.Dir == 0 && f.REL && f.Kind() == "data" && f.FrameNo == 1 && f.Nth == 1 && int32(f.Tube) == oldID.Load() && !stragglerSent(sc) {
			return scriptconn.Action{Dups: 1, DupDelay: delay}
		}
		return scriptconn.Action{}
	}
	_, ma, mb := newPair(policy)
	w.Ev("reset", "sc", sc, "name", "straggler-after-passive-close")
	r1, err := ma.CreateReliableTube(71)
	if err != nil {
		return
	}
	oldID.Store(int32(r1.GetID()))
	t1, err := mb.Accept()
	if err != nil {
		return
	}
	b1 := t1.(*tubes.Reliable)
	instOld := instCtr.Add(1)
	w.Ev("create", "sc", sc, "end", "A", "id", r1.GetID(), "type", 71, "inst", instOld, "clash", "no")
	r1.Write(tagBytes(instOld, 70))
	buf := make([]byte, 4096)
	b1.SetReadDeadline(time.Now().Add(3 * time.Second))
	n1, _ := io.ReadAtLeast(b1, buf, 70)
	w.Ev("accept", "sc", sc, "end", "B", "id", b1.GetID(), "rel", "yes", "type", 71, "inst", instOld, "pure", yn(n1 >= 70 && bytes.Equal(buf[:70], tagBytes(instOld, 70)[:70])), "bytes", n1)
	b1.Close() // the acceptor closes first
	r1.SetReadDeadline(time.Now().Add(3 * time.Second))
	io.ReadAll(r1)
	r1.Close()
	waitClosed(r1, 4*time.Second)
	// the next tube, at once
	r2, err := ma.CreateReliableTube(72)
	if err != nil {
		return
	}
	instNew := instCtr.Add(1)
	w.Ev("create", "sc", sc, "end", "A", "id", r2.GetID(), "type", 72, "inst", instNew, "clash", "no")
	w.Ev("note", "sc", sc, "what", fmt.Sprintf("old tube id %d, next tube id %d", r1.GetID(), r2.GetID()))
	time.Sleep(delay + 50*time.Millisecond) // the straggler is in by now
	r2.Write(tagBytes(instNew, 70))
	r2.Close()
	acc := make(chan tubes.Tube, 1)
	go func() {
		if t, err := mb.Accept(); err == nil {
			acc <- t
		}
	}()
	select {
	case t2 := <-acc:
		b2 := t2.(*tubes.Reliable)
		b2.SetReadDeadline(time.Now().Add(5 * time.Second))
		all, _ := io.ReadAll(b2)
		b2.Close()
		inst, pure := int64(0), true
		for off := 0; off+7 <= len(all); off += 7 {
			v, err := strconv.ParseInt(string(all[off:off+6]), 10, 64)
			if err != nil || all[off+6] != '|' {
				pure = false
				break
			}
			if inst == 0 {
				inst = v
			} else if v != inst {
				pure = false
			}
		}
		w.Ev("accept", "sc", sc, "end", "B", "id", b2.GetID(), "rel", "yes", "type", byte(b2.Type()), "inst", inst, "pure", yn(pure && len(all) >= 70), "bytes", len(all))
	case <-time.After(6 * time.Second):
		w.Ev("offered", "sc", sc, "inst", instNew, "times", 0, "what", "next tube after a passive close")
	}
	go ma.Stop()
	go mb.Stop()
	w.Ev("end", "sc", sc, "created", 2)
}

var stragglerMu sync.Mutex
var stragglerDone = map[int]bool{}

func stragglerSent(sc int) bool {
	stragglerMu.Lock()
	defer stragglerMu.Unlock()
	if stragglerDone[sc] {
		return true
	}
	stragglerDone[sc] = true
	return false
}

// scenarioSameNumber: a reliable and an unreliable tube with the same number; the reliable one is closed on both
// sides and reaped; the unreliable one must go on working, and a second unreliable tube must get another id.
func scenarioSameNumber(sc int) {
	_, ma, mb := newPair(nil)
	w.Ev("reset", "sc", sc, "name", "same-number-reap")
	r, err := ma.CreateReliableTube(61)
	if err != nil {
		return
	}
	u, err := ma.CreateUnreliableTube(62)
	if err != nil {
		return
	}
	var rb *tubes.Reliable
	var ub *tubes.Unreliable
	for k := 0; k < 2; k++ {
		t, err := mb.Accept()
		if err != nil {
			return
		}
		if t.IsReliable() {
			rb = t.(*tubes.Reliable)
		} else {
			ub = t.(*tubes.Unreliable)
		}
	}
	w.Ev("note", "sc", sc, "what", fmt.Sprintf("reliable id %d, unreliable id %d", r.GetID(), u.GetID()))
	r.Write([]byte("bye"))
	r.Close()
	io.ReadAll(rb)
	rb.Close()
	waitClosed(r, 5*time.Second)
	waitClosed(rb, 5*time.Second)
	time.Sleep(3500 * time.Millisecond) // past the reap delay on both sides
	// the old unreliable tube still works, in both directions
	old := []byte("written on the OLD unreliable tube")
	okAB, okBA := false, false
	buf := make([]byte, 1000)
	for try := 0; try < 3 && !okAB; try++ {
		u.WriteMsgUDP(old, nil, nil)
		ub.SetReadDeadline(time.Now().Add(300 * time.Millisecond))
		if k, _, _, _, err := ub.ReadMsgUDP(buf, nil); err == nil && bytes.Equal(buf[:k], old) {
			okAB = true
		}
	}
	for try := 0; try < 3 && !okBA; try++ {
		ub.WriteMsgUDP(old, nil, nil)
		u.SetReadDeadline(time.Now().Add(300 * time.Millisecond))
		if k, _, _, _, err := u.ReadMsgUDP(buf, nil); err == nil && bytes.Equal(buf[:k], old) {
			okBA = true
		}
	}
	// a second unreliable tube while the first is still open
	u2, err := ma.CreateUnreliableTube(63)
	clash := "no"
	cross := 0
	if err == nil {
		if u2.GetID() == u.GetID() {
			clash = "yes"
		}
		w.Ev("create", "sc", sc, "end", "A", "id", u2.GetID(), "type", 63, "inst", instCtr.Add(1), "clash", clash)
		var ub2 *tubes.Unreliable
		acc := make(chan tubes.Tube, 1)
		go func() {
			if t, err := mb.Accept(); err == nil {
				acc <- t
			}
		}()
		select {
		case t := <-acc:
			ub2, _ = t.(*tubes.Unreliable)
		case <-time.After(2 * time.Second):
		}
		u.WriteMsgUDP([]byte("OLD again"), nil, nil)
		u2.WriteMsgUDP([]byte("NEW tube"), nil, nil)
		time.Sleep(100 * time.Millisecond)
		for _, pr := range []struct {
			t    *tubes.Unreliable
			want string
		}{{ub, "OLD again"}, {ub2, "NEW tube"}} {
			if pr.t == nil {
				cross++
				continue
			}
			for {
				pr.t.SetReadDeadline(time.Now().Add(150 * time.Millisecond))
				k, _, _, _, err := pr.t.ReadMsgUDP(buf, nil)
				if err != nil {
					break
				}
				if k > 0 && string(buf[:k]) != pr.want && !bytes.Equal(buf[:k], old) {
					cross++
				}
			}
		}
	}
	w.Ev("survives", "sc", sc, "ab", yn(okAB), "ba", yn(okBA), "cross", cross)
	go ma.Stop()
	go mb.Stop()
	w.Ev("end", "sc", sc, "created", 3)
}

func main() {
	logrus.SetOutput(io.Discard)
	// watchdog: a driver that cannot finish means some library call never returned
	time.AfterFunc(watchdogAfter, func() {
		if w != nil {
			w.Ev("stuck", "sc", -1, "after_s", int(watchdogAfter.Seconds()))
			w.Close()
		}
		os.Exit(3)
	})
	w = rec.Must(os.Args[1])
	defer w.Close()
	seed, _ := strconv.ParseInt(os.Args[2], 10, 64)
	thorough := os.Args[3] == "1"
	rng := rand.New(rand.NewSource(seed))
	var wg sync.WaitGroup
	sc := 0
	launch := func(f func(sc int)) {
		wg.Add(1)
		id := sc
		sc++
		go func() { defer wg.Done(); f(id) }()
	}
	rounds, reps := 3, 2
	if thorough {
		rounds, reps = 6, 6
	}
	for r := 0; r < reps; r++ {
		for _, k := range []int{1, 2, 4, 8} {
			k := k
			rr := rand.New(rand.NewSource(rng.Int63()))
			launch(func(sc int) { scenarioReuse(sc, rounds, k, rr, nil, fmt.Sprintf("reuse-%d-creators", k)) })
			lossy := func(f *scriptconn.Frame) scriptconn.Action {
				if f.Nth == 1 && (f.Seq%11 == 3) {
					return scriptconn.Action{Drop: true}
				}
				if f.Seq%17 == 5 {
					return scriptconn.Action{Dups: 1}
				}
				return scriptconn.Action{}
			}
			launch(func(sc int) { scenarioReuse(sc, rounds, k, rr, lossy, fmt.Sprintf("reuse-%d-creators-lossy", k)) })
		}
	}
	launch(scenarioUnreliable)
	launch(scenarioLateReq)
	launch(scenarioMixed)
	launch(func(sc int) { scenarioStray(sc, 500*time.Millisecond) })
	launch(func(sc int) { scenarioStray(sc, 1200*time.Millisecond) })
	launch(scenarioAcceptBacklog)
	launch(scenarioSameNumber)
	for _, d := range []time.Duration{120 * time.Millisecond, 400 * time.Millisecond} {
		d := d
		launch(func(sc int) { scenarioStraggler(sc, d) })
	}
	for _, idle := range []time.Duration{0, 1200 * time.Millisecond, 2500 * time.Millisecond} {
		for _, gap := range []time.Duration{1700 * time.Millisecond, 2500 * time.Millisecond} {
			idle, gap := idle, gap
			launch(func(sc int) { scenarioIdleReopen(sc, idle, gap) })
		}
	}
	wg.Wait()
}
