#!/usr/bin/env python3
# finalise /verif/seeded/<name>/meta.json from the agent's meta and confirm.log
import json, os, sys
d = sys.argv[1]
a = {}
try:
    a = json.load(open(os.path.join(d, "meta.agent.json")))
except Exception:
    pass
log = open(os.path.join(d, "confirm.log")).read().strip().split("\n")
det = [l for l in log if l.startswith("check ")]
meta = dict(property=a.get("property"), title=a.get("title"), files=a.get("files"),
            what_it_breaks=a.get("what_it_breaks"), needs_to_manifest=a.get("needs_to_manifest"),
            confirmed_by_me=[l for l in log if not l.startswith("  ") and l != "done"],
            ran=["git apply patch.diff in a scratch worktree; go build ./...; go test -vet=off -count=1 ./... (failed packages retried alone: fixed-port collisions)",
                 "demonstration copied into its package: fails with the change, passes without",
                 "git -C /repo apply patch.diff; tools/check <id> --tier quick; git -C /repo checkout -- ."],
            detected=any(" exit 1 " in l for l in det), checks=det)
json.dump(meta, open(os.path.join(d, "meta.json"), "w"), indent=1)
for f in ("suite.log", "suite-retry.log", "meta.agent.json"):
    try: os.remove(os.path.join(d, f))
    except OSError: pass
for f in os.listdir(d):
    if f.startswith("check-") or f.startswith("demo-w"):
        p = os.path.join(d, f); s = open(p).read()
        if len(s) > 6000: open(p, "w").write(s[:3000] + "\n...\n" + s[-3000:])
print(d, "detected" if meta["detected"] else "MISSED")
