#!/usr/bin/env python3
"""Regenerates the generated parts of DESIGN.md section 9 (between the <!-- GEN:x --> markers) from
tools/gen_manifest.py (what each check is made of), evidence/*.json (measured numbers of the last quick run),
known_findings.json and seeded/*/meta.json (+ seeded/SWEEP.json when present)."""
import json, os, glob, re, importlib.util
V = os.path.dirname(os.path.dirname(os.path.abspath(__file__)))
spec = importlib.util.spec_from_file_location("gm", os.path.join(V, "tools", "gen_manifest.py"))
gm = importlib.util.module_from_spec(spec); spec.loader.exec_module(gm)
props = {json.loads(l)["id"]: json.loads(l) for l in open(os.path.join(V, "properties.jsonl"))}

def built():
    out = []
    for pid in sorted(gm.CHECKS):
        c = gm.CHECKS[pid]
        ev = {}
        try:
            ev = json.load(open(os.path.join(V, "evidence", pid + ".json")))
        except Exception:
            pass
        cov = ev.get("coverage", {})
        nums = "last quick run: %s s, %s TLC states, %s evaluations, %s traces/behaviours validated against the implementation" % (
            ev.get("wall_s", "?"), cov.get("states", "?"), cov.get("evaluations", "?"), cov.get("traces_validated_against_impl", "?"))
        out.append("**%s — %s**\n\n*Technique.* %s.\n\n*What is checked.* %s\n\n*Trusted / not covered.* %s\n\n*Measured.* %s.\n" % (
            pid, props[pid]["title"], c["technique"].rstrip("."), c["text"], c["note"], nums))
    return "\n".join(out)

def findings():
    d = json.load(open(os.path.join(V, "known_findings.json")))["findings"]
    rows = ["| id | property | status | commit | what failed |", "|---|---|---|---|---|"]
    for f in d:
        rows.append("| %s | %s | %s | %s | %s |" % (f["id"], f["property"], f["status"], f.get("commit") or "-", re.sub(r"\s+", " ", f["what"]).replace("|", "/")[:420]))
    return "\n".join(rows)

def seeded():
    sweep = {}
    try:
        for r in json.load(open(os.path.join(V, "seeded", "SWEEP.json"))):
            sweep[r["name"]] = r
    except Exception:
        pass
    rows = ["| change | what it does | caught by | how it shows | history |", "|---|---|---|---|---|"]
    for p in sorted(glob.glob(os.path.join(V, "seeded", "*", "meta.json"))):
        name = os.path.basename(os.path.dirname(p))
        m = json.load(open(p))
        by = []
        for l in m.get("confirmed_by_me", []):
            mm = re.match(r"check (C\d+): exit (\d+) (\d+) violation", l)
            if mm and mm.group(2) == "1":
                by.append(mm.group(1))
        sw = sweep.get(name)
        if sw and sw.get("checks"):
            for cid, r in sw["checks"].items():
                if r["exit"] == 1 and cid not in by:
                    by.append(cid)
        first = ""
        for f in sorted(glob.glob(os.path.join(os.path.dirname(p), "check-*.log"))):
            for l in open(f, errors="replace"):
                if "signature:" in l:
                    first = l.split("signature:")[1].strip().split(" | ")[0][:160]
                    break
            if first:
                break
        note = (m.get("strengthening_note") or m.get("note") or "").replace("|", "/")
        rows.append("| %s | %s | %s | %s | %s |" % (name, m.get("title", "").replace("|", "/")[:150], ", ".join(sorted(set(by))) or "NOT CAUGHT", first.replace("|", "/"), note[:300]))
    return "\n".join(rows)

p = os.path.join(V, "DESIGN.md")
s = open(p).read()
for key, fn in (("built", built), ("findings", findings), ("seeded", seeded)):
    a, b = "<!-- GEN:%s -->" % key, "<!-- /GEN:%s -->" % key
    if a in s and b in s:
        s = s[:s.index(a) + len(a)] + "\n" + fn() + "\n" + s[s.index(b):]
open(p, "w").write(s)
print("DESIGN.md section 9 regenerated")
