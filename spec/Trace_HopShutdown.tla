--------------------------- MODULE Trace_HopShutdown ---------------------------
(* Trace validation for C16: calls recorded from concurrent programs on real tubes.            *)
(*   close      returns, promptly (it only changes state and queues a FIN)                       *)
(*   stop       returns within the muxer's fallback timers (1 s + 1 s) plus slack; whichever      *)
(*              caller it returns to, the shutdown is complete (the transport is closed)          *)
(*   wait       WaitForClose returns (bounded by the run: 12 s)                                  *)
(*   write/read return                                                                           *)
(*   postclose  after a completed local close a write fails and reads return the buffered data    *)
(*              (on a faithful network: everything the peer wrote) and then end-of-stream          *)
(*   leak       no goroutine of the tubes package is left after every muxer was stopped           *)
(* The corresponding design-level properties are the termination properties of TubeClose.tla     *)
(* and the deadlock-freedom of HopTubes.tla's FIN state machine.                                  *)
EXTENDS Integers, Sequences, TLC, Json
Trace == ndJsonDeserialize("trace.ndjson")
VARIABLES l, bad
Ev == Trace[l]
Good(e) ==
    CASE e.ev = "call" ->
           CASE e.op = "close" -> e.ret = "yes" /\ e.ms <= 3000
             [] e.op \in {"stop", "finalstop"} -> e.ret = "yes" /\ e.ms <= 8000 /\ e.tclosed = "yes"
             [] e.op = "wait" -> e.ret = "yes"
             [] e.op \in {"write", "read", "create"} -> e.ret = "yes"
             [] e.op = "postclose" -> e.wfail = "yes" /\ e.reof = "yes" /\ e.dataok = "yes"
             [] OTHER -> TRUE
      [] e.ev = "leak"  -> e.goroutines = 0
      [] e.ev = "crash" -> FALSE
      [] OTHER -> TRUE
TInit == l = 1 /\ bad = 0
TNext == /\ l <= Len(Trace) /\ l' = l + 1
         /\ IF Good(Ev) THEN bad' = bad ELSE bad' = bad + 1 /\ PrintT(<<"MISMATCH", l>>)
TSpec == TInit /\ [][TNext]_<<l, bad>>
HW == TLCSet(1, l)
Accepted == TLCGet(1) = Len(Trace) + 1
=============================================================================
