// c16 runs small concurrent programs of Write/Read/Close/WaitForClose/Stop on both ends of a real tube over
// a scripted network with loss patterns from none to total, with seeded schedule perturbation at the verif
// yield points, and records how long every call took, what it returned, what the tube does after a local
// close, and which tube goroutines are still alive after both muxers were stopped.
//
//	c16 <out.ndjson> <seed> <from> <to>        programs [from, to) of the enumerated grammar
package main

import (
	"bytes"
	"fmt"
	"io"
	"math/rand"
	"os"
	"runtime"
	"strconv"
	"strings"
	"sync"
	"time"

	"github.com/sirupsen/logrus"

	"hop.computer/hop/pkg/vt"
	"hop.computer/hop/tubes"
	"verif/harness/rec"
	"verif/harness/scriptconn"
)

var w *rec.W

var threadKinds = [][]string{
	{"close"}, {"write", "close"}, {"write", "close", "wait"}, {"read", "close"}, {"stop"}, {"write", "stop"}, {"close", "wait", "stop"},
	{"write", "read", "close", "wait"},
}
var lossKinds = []string{"none", "drop-first-fin", "loss20", "dead-after-60ms", "dead-from-start", "drop-acks", "write-error-after-40ms"}
var timeouts = []time.Duration{0, 2 * time.Second}

type prog struct {
	id   int
	a, b []string
	a2   []string // a second thread on A
	loss string
	tmo  time.Duration
}

func programs() []prog {
	var ps []prog
	id := 0
	for _, l := range lossKinds {
		for ai, a := range threadKinds {
			for bi, b := range threadKinds {
				if (ai+bi)%2 == 1 && l != "none" { // half of the pairs per loss class
					continue
				}
				p := prog{id: id, a: a, b: b, loss: l, tmo: timeouts[id%2]}
				if id%3 == 0 {
					p.a2 = []string{"close"} // a racing second closer
				}
				if id%5 == 0 {
					p.a2 = []string{"stop"}
				}
				ps = append(ps, p)
				id++
			}
		}
	}
	return ps
}

func timed(d time.Duration, f func() string) (string, int64, bool) {
	t0 := time.Now()
	ch := make(chan string, 1)
	go func() { ch <- f() }()
	select {
	case r := <-ch:
		return r, time.Since(t0).Milliseconds(), true
	case <-time.After(d):
		return "pending", time.Since(t0).Milliseconds(), false
	}
}

func errs(err error) string {
	switch {
	case err == nil:
		return "ok"
	case err == io.EOF:
		return "eof"
	case strings.Contains(err.Error(), "timeout") || strings.Contains(err.Error(), "deadline"):
		return "timeout"
	}
	return "err:" + err.Error()
}

func run(p prog, seed int64) {
	rng := rand.New(rand.NewSource(seed + int64(p.id)*977))
	start := time.Now()
	policy := func(f *scriptconn.Frame) scriptconn.Action {
		switch p.loss {
		case "drop-first-fin":
			if f.FIN && f.Nth == 1 {
				return scriptconn.Action{Drop: true}
			}
		case "loss20":
			if (f.Seq*7+p.id)%5 == 0 {
				return scriptconn.Action{Drop: true}
			}
		case "dead-after-60ms":
			if time.Since(start) > 60*time.Millisecond {
				return scriptconn.Action{Drop: true}
			}
		case "dead-from-start":
			return scriptconn.Action{Drop: true}
		case "drop-acks":
			if f.Kind() == "ack" && f.Nth <= 2 {
				return scriptconn.Action{Drop: true}
			}
		}
		return scriptconn.Action{}
	}
	n := scriptconn.New(policy)
	if p.loss == "write-error-after-40ms" {
		n.FailWritesAfter(40 * time.Millisecond) // the transport starts refusing writes: the muxers stop themselves
	}
	lg := logrus.New()
	lg.SetOutput(io.Discard)
	ma := tubes.Client(n.A, &tubes.Config{Log: logrus.NewEntry(lg), Timeout: p.tmo})
	mb := tubes.Server(n.B, &tubes.Config{Log: logrus.NewEntry(lg), Timeout: p.tmo})
	var taID byte
	// initDone: has the answer to A's tube request been delivered (without it A's tube never leaves "created")
	initDone := func() string {
		fr, ac := n.Snapshot()
		for i, f := range fr {
			if f.Dir == 1 && f.RESP && f.REL && f.Tube == taID && !ac[i].Drop {
				return "yes"
			}
		}
		return "no"
	}
	ev := func(kv ...any) {
		w.Ev("call", append([]any{"p", p.id, "loss", p.loss, "tmo", p.tmo.Milliseconds(), "ainit", initDone()}, kv...)...)
	}
	ta, err := ma.CreateReliableTube(5)
	if err == nil {
		taID = ta.GetID()
	}
	if err != nil {
		ev("op", "create", "end", "A", "res", errs(err), "ms", 0, "ret", "yes")
		return
	}
	var u *tubes.Unreliable
	if p.id%2 == 0 {
		u, _ = ma.CreateUnreliableTube(6)
	}
	var tb *tubes.Reliable
	acc := make(chan *tubes.Reliable, 1)
	go func() {
		for {
			t, err := mb.Accept()
			if err != nil {
				return
			}
			if r, ok := t.(*tubes.Reliable); ok {
				acc <- r
				return
			}
		}
	}()
	select {
	case tb = <-acc:
	case <-time.After(700 * time.Millisecond):
	}
	stopped := map[string]bool{}
	closedLocally := map[string]bool{}
	wrote := map[string]int{}
	readN := map[string]int{}
	var mu sync.Mutex
	payload := bytes.Repeat([]byte("x"), 5000)
	var rngMu sync.Mutex
	exec := func(end string, t *tubes.Reliable, m *tubes.Muxer, ops []string) {
		for _, op := range ops {
			rngMu.Lock()
			d := rng.Intn(3)
			rngMu.Unlock()
			time.Sleep(time.Duration(d) * time.Millisecond)
			switch op {
			case "write":
				if t == nil {
					continue
				}
				res, ms, ret := timed(10*time.Second, func() string {
					k, err := t.Write(payload)
					mu.Lock()
					wrote[end] += k
					mu.Unlock()
					return errs(err)
				})
				ev("op", "write", "end", end, "res", res, "ms", ms, "ret", yn(ret))
			case "read":
				if t == nil {
					continue
				}
				res, ms, ret := timed(10*time.Second, func() string {
					t.SetReadDeadline(time.Now().Add(400 * time.Millisecond))
					k, err := t.Read(make([]byte, 100))
					mu.Lock()
					readN[end] += k
					mu.Unlock()
					return errs(err)
				})
				ev("op", "read", "end", end, "res", res, "ms", ms, "ret", yn(ret))
			case "close":
				if t == nil {
					continue
				}
				res, ms, ret := timed(10*time.Second, func() string { return errs(t.Close()) })
				mu.Lock()
				closedLocally[end] = true
				mu.Unlock()
				ev("op", "close", "end", end, "res", res, "ms", ms, "ret", yn(ret))
			case "wait":
				if t == nil {
					continue
				}
				_, ms, ret := timed(12*time.Second, func() string { t.WaitForClose(); return "ok" })
				mu.Lock()
				own, peer := stopped[end], stopped[map[string]string{"A": "B", "B": "A"}[end]]
				mu.Unlock()
				// which state the tube is left in (the state lock may be held by a stuck call: bounded)
				state := "n/a"
				if !ret {
					state, _, _ = timed(time.Second, func() string { return t.VerifState() })
				}
				ev("op", "wait", "end", end, "res", "ok", "ms", ms, "ret", yn(ret), "ownstop", yn(own), "peerstop", yn(peer), "accepted", yn(tb != nil), "state", state)
			case "stop":
				mu.Lock()
				stopped[end] = true
				mu.Unlock()
				// whichever caller returns, the shutdown has completed: the transport is closed at that instant
				tc, ms, ret := timed(12*time.Second, func() string {
					m.Stop()
					return yn(map[string]*scriptconn.End{"A": n.A, "B": n.B}[end].Closed())
				})
				ev("op", "stop", "end", end, "res", "ok", "ms", ms, "ret", yn(ret), "tclosed", tc)
			}
		}
	}
	var wg sync.WaitGroup
	for _, th := range []struct {
		end string
		t   *tubes.Reliable
		m   *tubes.Muxer
		ops []string
	}{{"A", ta, ma, p.a}, {"B", tb, mb, p.b}, {"A", ta, ma, p.a2}} {
		if len(th.ops) == 0 {
			continue
		}
		wg.Add(1)
		th := th
		go func() { defer wg.Done(); exec(th.end, th.t, th.m, th.ops) }()
	}
	wg.Wait()
	if os.Getenv("C16_DUMP") != "" {
		fr, ac := n.Snapshot()
		for i, f := range fr {
			w.Ev("frame", "p", p.id, "at_ms", f.At.Milliseconds(), "dir", f.Dir, "kind", f.Kind(), "no", f.FrameNo, "ack", f.AckNo, "fin", yn(f.FIN), "ackf", yn(f.ACK), "drop", yn(ac[i].Drop))
		}
	}
	// after a local close that has completed: writes fail, reads give buffered data then end-of-stream
	for end, t := range map[string]*tubes.Reliable{"A": ta, "B": tb} {
		mu.Lock()
		cl := closedLocally[end]
		mu.Unlock()
		if t == nil || !cl {
			continue
		}
		if _, _, ret := timed(3*time.Second, func() string { t.WaitForClose(); return "ok" }); !ret {
			continue // closure not complete (judged by the wait / stop events), post-close clause not applicable yet
		}
		_, werr := t.Write([]byte("late"))
		var rerr error
		got := 0
		for k := 0; k < 50 && rerr == nil; k++ {
			var c int
			c, rerr = t.Read(make([]byte, 4096))
			got += c
		}
		mu.Lock()
		peer := map[string]string{"A": "B", "B": "A"}[end]
		pw, rb := wrote[peer], readN[end]
		mu.Unlock()
		// on a faithful network everything the peer wrote before closing was delivered in order before its FIN:
		// what was not read during the program is still buffered and must be returned before end-of-stream
		dataok := p.loss != "none" || got+rb == pw
		ev("op", "postclose", "end", end, "kind", "reliable", "res", errs(werr)+"/"+errs(rerr), "ms", 0, "ret", "yes", "wfail", yn(werr != nil), "reof", yn(rerr == io.EOF),
			"dataok", yn(dataok), "peerwrote", pw, "got", got+rb)
	}
	// the unreliable tube created at the start: close it, then the post-close clause (a read without any
	// deadline must end with end-of-stream promptly, a write must fail)
	if u != nil {
		if p.loss == "none" {
			timed(2*time.Second, func() string { _, _, err := u.WriteMsgUDP([]byte("datagram"), nil, nil); return errs(err) })
		}
		res, ms, ret := timed(10*time.Second, func() string { return errs(u.Close()) })
		ev("op", "close", "end", "A", "res", res, "ms", ms, "ret", yn(ret), "kind", "unreliable")
		if ret {
			_, _, wret := timed(5*time.Second, func() string { u.WaitForClose(); return "ok" })
			rres, _, rret := timed(3*time.Second, func() string {
				// buffered datagrams (the peer's FIN surfaces as an empty one) come first, then end-of-stream
				var err error
				for k := 0; k < 200 && err == nil; k++ {
					_, _, _, _, err = u.ReadMsgUDP(make([]byte, 100), nil)
				}
				return errs(err)
			})
			wres, _, wr := timed(3*time.Second, func() string { _, _, err := u.WriteMsgUDP([]byte("late"), nil, nil); return errs(err) })
			ev("op", "postclose", "end", "A", "kind", "unreliable", "res", wres+"/"+rres, "ms", 0, "ret", yn(rret && wret && wr), "wfail", yn(wr && wres != "ok"), "reof", yn(rret && rres == "eof"),
				"dataok", "yes", "peerwrote", 0, "got", 0)
		}
	}
	// create-then-close-at-once on unreliable tubes (the close may land before the initiation goroutine is parked)
	if p.id%3 == 1 {
		for k := 0; k < 6; k++ {
			uq, err := ma.CreateUnreliableTube(7)
			if err != nil {
				break
			}
			res, ms, ret := timed(5*time.Second, func() string { return errs(uq.Close()) })
			ev("op", "close", "end", "A", "res", res, "ms", ms, "ret", yn(ret), "kind", "unreliable-at-once")
			if !ret {
				break
			}
		}
	}
	// every muxer is stopped at the end; then no tube goroutine may be left
	for end, m := range map[string]*tubes.Muxer{"A": ma, "B": mb} {
		e := map[string]*scriptconn.End{"A": n.A, "B": n.B}[end]
		tc, ms, ret := timed(12*time.Second, func() string { m.Stop(); return yn(e.Closed()) })
		ev("op", "finalstop", "end", end, "res", "ok", "ms", ms, "ret", yn(ret), "tclosed", tc)
	}
}

func yn(b bool) string {
	if b {
		return "yes"
	}
	return "no"
}

func tubeGoroutines() (int, string) {
	buf := make([]byte, 1<<22)
	buf = buf[:runtime.Stack(buf, true)]
	n, sample := 0, ""
	for _, g := range strings.Split(string(buf), "\n\n") {
		if strings.Contains(g, "hop.computer/hop/tubes.") {
			n++
			if sample == "" {
				for _, l := range strings.Split(g, "\n") {
					if strings.Contains(l, "hop.computer/hop/tubes.") {
						sample = strings.TrimSpace(l)
						break
					}
				}
			}
		}
	}
	return n, sample
}

func main() {
	logrus.SetOutput(io.Discard)
	if os.Args[1] == "count" {
		fmt.Println(len(programs()))
		return
	}
	w = rec.Must(os.Args[1])
	defer w.Close()
	seed, _ := strconv.ParseInt(os.Args[2], 10, 64)
	from, _ := strconv.Atoi(os.Args[3])
	to, _ := strconv.Atoi(os.Args[4])
	vt.SetYield(seed*31 + int64(from) + 1)
	time.AfterFunc(280*time.Second, func() { w.Ev("stuck", "after_s", 280); w.Close(); os.Exit(3) })
	ps := programs()
	if to > len(ps) {
		to = len(ps)
	}
	var wg sync.WaitGroup
	sem := make(chan struct{}, 40)
	for _, p := range ps[from:to] {
		wg.Add(1)
		sem <- struct{}{}
		go func(p prog) {
			defer wg.Done()
			defer func() { <-sem }()
			w.Ev("prog", "p", p.id, "a", strings.Join(p.a, ","), "b", strings.Join(p.b, ","), "a2", strings.Join(p.a2, ","), "loss", p.loss, "tmo", p.tmo.Milliseconds())
			run(p, seed)
		}(p)
	}
	wg.Wait()
	// leak check: a short grace period for goroutines that are on their way out
	var n int
	var sample string
	for k := 0; k < 30; k++ {
		time.Sleep(100 * time.Millisecond)
		if n, sample = tubeGoroutines(); n == 0 {
			break
		}
	}
	w.Ev("leak", "goroutines", n, "sample", sample, "programs", to-from)
	w.Ev("done", "programs", to-from)
}
