------------------------------ MODULE HopHsTimer ------------------------------
(* Specification growth beyond the listed properties: the server's table of handshakes in        *)
(* progress and its timeout (transport/server.go setHandshakeState).  The table is keyed by the   *)
(* client ADDRESS.  Every handshake that reaches the ClientAck arms a timer; when the timer fires  *)
(* it looks the address up and deletes whatever entry it finds, together with the session          *)
(* reserved for it.  The source asks "is there a race condition here?" - TLC answers: yes.  If      *)
(* handshake 1 from an address completes (its entry is removed) and handshake 2 from the same       *)
(* address starts before timer 1 fires, timer 1 deletes the state of handshake 2, which then fails   *)
(* although it is younger than the timeout (an honest client reconnecting from the same address -    *)
(* same NAT mapping, same source port - within the timeout of its previous handshake).               *)
(* ByIdentity = TRUE is the repair a maintainer would make (the timer only deletes the entry it was  *)
(* armed for); with it OnlyOwnTimer holds.  The behaviour is reproduced on the real server by        *)
(* harness/cmd/hstimer.  It is not one of the properties C01-C20 and is recorded as an observation.  *)
EXTENDS Integers, FiniteSets, TLC
CONSTANTS Handshakes,        \* handshake attempts, all from ONE client address, started in increasing order
          ByIdentity

VARIABLES entry,             \* the table entry for the address: 0 (none) or the handshake it belongs to
          phase,             \* per handshake: "new" | "pending" | "done" | "killed"
          timer,             \* per handshake: "idle" | "armed" | "fired"
          killedBy           \* per handshake: 0 or the handshake whose timer deleted its state
vars == <<entry, phase, timer, killedBy>>

Init == entry = 0 /\ phase = [h \in Handshakes |-> "new"] /\ timer = [h \in Handshakes |-> "idle"]
        /\ killedBy = [h \in Handshakes |-> 0]

(* ClientAck with a valid cookie: the entry is created only if the address has none (setHandshakeState) *)
Start(h) ==
    /\ phase[h] = "new" /\ entry = 0
    /\ \A g \in Handshakes : g < h => phase[g] # "new"
    /\ entry' = h /\ phase' = [phase EXCEPT ![h] = "pending"] /\ timer' = [timer EXCEPT ![h] = "armed"]
    /\ UNCHANGED killedBy
(* ClientAuth accepted: the handshake is finished, its entry removed *)
Complete(h) ==
    /\ phase[h] = "pending" /\ entry = h
    /\ entry' = 0 /\ phase' = [phase EXCEPT ![h] = "done"]
    /\ UNCHANGED <<timer, killedBy>>
(* the timer of handshake h fires: it looks the ADDRESS up *)
Fire(h) ==
    /\ timer[h] = "armed" /\ timer' = [timer EXCEPT ![h] = "fired"]
    /\ IF entry # 0 /\ (ByIdentity => entry = h)
       THEN /\ phase' = [phase EXCEPT ![entry] = "killed"] /\ killedBy' = [killedBy EXCEPT ![entry] = h]
            /\ entry' = 0
       ELSE UNCHANGED <<entry, phase, killedBy>>
Next == \E h \in Handshakes : Start(h) \/ Complete(h) \/ Fire(h)
Spec == Init /\ [][Next]_vars

(* a handshake's state is deleted only by its own timer *)
OnlyOwnTimer == \A h \in Handshakes : killedBy[h] \in {0, h}
=============================================================================
