package flags

// Verification driver (go test -overlay): the client applies exactly the host blocks whose patterns match the
// REQUESTED host, also when an explicit configuration (-C) is layered over a default configuration whose matching
// block renames the host (Hostname alias).  Same event format as the "hosts" events of the c20 driver: the block
// list is the default configuration's blocks followed by the explicit one's; blocks are recognised by the CA file
// name each contributes.

import (
	"encoding/json"
	"fmt"
	"math/rand"
	"os"
	"strconv"
	"testing"

	"hop.computer/hop/config"
	"hop.computer/hop/core"
)

func TestVerifHostBlocksThroughFlags(t *testing.T) {
	out := os.Getenv("VT_OUT")
	if out == "" {
		t.Skip("VT_OUT not set")
	}
	seed, _ := strconv.ParseInt(os.Getenv("VT_SEED"), 10, 64)
	f, err := os.Create(out)
	if err != nil {
		t.Fatal(err)
	}
	defer f.Close()
	r := rand.New(rand.NewSource(seed + 20))
	chars := func(s string) []string {
		o := []string{}
		for _, c := range s {
			o = append(o, string(c))
		}
		return o
	}
	pool := []string{"*", "a", "a*", "*b", "a*b", "ab", "b*", "*a*"}
	hosts := []string{"", "a", "b", "aa", "ab", "ba", "bb", "aab", "abb", "bab"}
	aliases := []string{"a", "b", "ab", "bb", "zz"}
	for n := 0; n < 300; n++ {
		mk := func(first int) (*config.ClientConfig, [][][]string) {
			cc := &config.ClientConfig{}
			var logged [][][]string
			for b := 0; b < 1+r.Intn(2); b++ {
				var ps []string
				for k := 0; k < 1+r.Intn(2); k++ {
					ps = append(ps, pool[r.Intn(len(pool))])
				}
				blk := config.HostConfigOptional{Patterns: ps, CAFiles: []string{fmt.Sprint(first + b)}}
				if first == 1 && r.Intn(2) == 0 { // a block of the DEFAULT configuration renames the host
					a := aliases[r.Intn(len(aliases))]
					blk.Hostname = &a
				}
				cc.Hosts = append(cc.Hosts, blk)
				var lp [][]string
				for _, p := range ps {
					lp = append(lp, chars(p))
				}
				logged = append(logged, lp)
			}
			return cc, logged
		}
		dc, ld := mk(1)
		cc, lc := mk(1 + len(dc.Hosts))
		for _, h := range hosts {
			got, pan := []int{}, "no"
			func() {
				defer func() {
					if rec := recover(); rec != nil {
						pan = "yes"
					}
				}()
				hc, err := mergeClientFlagsAndConfig(&ClientFlags{Address: &core.URL{Host: h, User: "u", Port: "77"}}, cc, dc)
				if err != nil {
					pan = "err:" + err.Error()
					return
				}
				for _, ca := range hc.CAFiles {
					k, _ := strconv.Atoi(ca)
					got = append(got, k)
				}
			}()
			b, _ := json.Marshal(map[string]any{"ev": "hosts", "blocks": append(append([][][]string{}, ld...), lc...), "h": chars(h), "got": got, "pan": pan})
			f.Write(append(b, '\n'))
		}
	}
}
