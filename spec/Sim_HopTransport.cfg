SPECIFICATION SimSpec
CONSTANTS MaxPk = 6  MaxSteps = 14  Cap = 3  W = 448
INVARIANTS TypeOK AuthenticDelivery AtMostOnce CloseHasCause EmitBeh
CHECK_DEADLOCK FALSE
