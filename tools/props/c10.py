# C10 — no unauthenticated datagram can crash or wedge a transport endpoint (DESIGN.md §3 C10)
import json, os, re, subprocess, concurrent.futures
import lib

LEVEL = "fault_enumeration"

def run(v, tier, replay):
    thorough = tier == "thorough"
    v.level = "fault_enumeration"
    v.assumptions += ["the class product (configuration x endpoint state x derivation x base message) is enumerated by TLC from HopJunk.tla; inside a class concrete bytes are truncation lengths / field mutations of genuine messages captured from the same server, and seeded random bytes (quick: sampled lengths; thorough: every truncation length)",
                      "a handshake in progress from the same source address may be lost to junk (the specification allows it); what must survive is the process, later honest handshakes from fresh addresses and established sessions",
                      "each (configuration, state) group runs in its own child process; a crash is attributed to the datagram logged (and flushed) just before it"]
    r = lib.tlc("MC_HopJunk", "MC_HopJunk.cfg", timeout=120)
    lib.tlc_must_pass(r, "MC_HopJunk")
    v.add_tlc("MC_HopJunk (state x class product, postcondition)", r)
    edges = set()
    for m in re.finditer(r'^<<"EDGES", "(.*)">>$', r.out, re.M):
        for e in json.loads(m.group(1).replace('\\"', '"')):
            edges.add((e["c"], e["s"], e["d"], e["b"]))
    if not edges:
        raise lib.Inconclusive("no edges emitted")
    groups = sorted({(c, s) for (c, s, d, b) in edges})
    binp = lib.go_build("c10")
    sd = lib.scratch("vf-c10-")
    def child(g):
        c, s = g
        out = os.path.join(sd, "%s-%s.ndjson" % (c, s))
        seeds = [lib.seed() + 1000 * k for k in range(6 if thorough else 1)]
        rc, tail = 0, ""
        for k, sdv in enumerate(seeds):
            o = out + (".%d" % k)
            rc, so, se = lib.run([binp, "child", c, s, str(sdv), "1", o], timeout=3000)
            with open(out, "a") as fh, open(o) as src:
                fh.write(src.read())
            tail = (so + se)[-3000:]
            if rc != 0:
                break
        return g, rc, out, tail
    events, covered = [], set()
    with concurrent.futures.ThreadPoolExecutor(max_workers=12) as ex:
        for g, rc, out, tail in ex.map(child, groups):
            evs = lib.read_ndjson(out) if os.path.exists(out) else []
            cases = [e for e in evs if e["ev"] == "case"]
            for e in cases:
                d, _, rest = e["class"].partition(":")
                if d == "honest":
                    continue
                b = rest.split(".")[0] if d in ("trunc", "mut", "len", "extend") else "none"
                if d in ("envelope", "zerokey"):
                    b = rest.split(" ")[0]
                covered.add((g[0], g[1], d, b))
            if rc is None:
                raise lib.Inconclusive("child %s timed out" % (g,))
            if rc != 0 and not any(e["ev"] == "done" for e in evs):
                last = cases[-1] if cases else None
                reason = [l for l in tail.split("\n") if l.startswith("panic:") or "fatal error" in l]
                if last is None or not reason:
                    raise lib.Inconclusive("child %s failed before/without a junk case: %s" % (g, tail[-1500:]))
                evs.append(dict(ev="crash", cfg=g[0], state=g[1], k=last["k"], **{"class": last["class"]}, len=last["len"], src=last["src"], hex=last["hex"], reason=reason[0][:300],
                                stack=[l.strip() for l in tail.split("\n") if lib.REPO_MARK in l][:4]))
            events += [dict(e, cfg=g[0], state=g[1]) for e in evs if e["ev"] in ("probe", "crash")]
            v.count("datagrams_delivered", len(cases))
            for e in cases:
                v.case((g, e["class"], e["len"], e["hex"][:32]))
    missing = sorted(e for e in edges if e not in covered and (e[0], e[1]) in {(c, s) for (c, s, _, _) in covered})
    v.cov["edges_in_spec"] = len(edges)
    v.cov["edges_executed"] = len(edges & covered)
    v.cov["edges_missing_sample"] = [list(e) for e in missing[:10]]
    if missing and not events:
        raise lib.Inconclusive("state x class edges of the specification not executed: %s" % missing[:5])
    tr = os.path.join(sd, "trace.ndjson")
    lib.write_ndjson(tr, events or [dict(ev="none")])
    r = lib.tlc("Trace_HopJunk", "Trace_HopJunk.cfg", files={"trace.ndjson": "@" + tr}, workers=1, timeout=900)
    v.add_tlc("Trace_HopJunk", r)
    if not r.ok:
        raise lib.Inconclusive("trace not consumed: %s\n%s" % (r.kind, r.out[-1500:]))
    v.cov["traces_validated_against_impl"] += len(groups)
    v.cov["rule"] = "one case = one datagram delivered to a real endpoint in a given configuration and state; distinct by (group, class, length, leading bytes); non-trivial = all (every datagram is unauthenticated input)"
    for e in events[:3]:
        v.sample(e)
    for m in re.finditer(r'<<"MISMATCH", (\d+)>>', r.out):
        e = events[int(m.group(1)) - 1]
        if e["ev"] == "crash":
            where = (e["stack"] or ["?"])[0].split(" ")[0]
            sig = "crash cfg=%s state=%s class=%s | %s | %s" % (e["cfg"], e["state"], e["class"].split(".")[0], e["reason"][:120], where.split(lib.REPO_MARK)[-1])
            v.violation(sig, "datagram of %d bytes from %s (hex prefix %s) killed the process: %s" % (e["len"], e["src"], e["hex"][:48], e["reason"]), e)
        else:
            sig = "wedge cfg=%s state=%s after class=%s | handshake probe: %s | session probe: %s" % (e["cfg"], e["state"], e["class"], e["handshake"][:80], e["session"][:80])
            v.violation(sig, "liveness probe failed after junk datagram #%s" % e["k"], e)
