SPECIFICATION MCSpec
CONSTANTS
  Palette <- Pal
  MaxAdd = 3  MaxSess = 2  MaxReq = 3  MaxTime = 3
  CheckStart = TRUE  CheckIssue = TRUE  CheckPF = TRUE
INVARIANTS Justified SingleUse OnePlace OwnGrantsOnly NoIssuing
CHECK_DEADLOCK FALSE
