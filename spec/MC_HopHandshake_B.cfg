SPECIFICATION Spec
CONSTANTS Sess = {1}  ModeSet = {"disc","hid"}  CCfgSet <- CliB  DialSet <- SrvB  SCfg <- SCfgU  Cert <- CertU  MaxMoves = 1  Sync = FALSE  EnforceSAMac = TRUE
INVARIANTS EmitBeh TypeOK C01Client C01Server C01Accept C02Client C02Server C02Agree C02Distinct
PROPERTIES C19Stateless C19HiddenSilent
CHECK_DEADLOCK FALSE
