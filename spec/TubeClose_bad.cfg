SPECIFICATION Spec
CONSTANT Fenced = FALSE
INVARIANTS NoPanic ClosedPublishedOnce
