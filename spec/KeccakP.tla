------------------------------- MODULE KeccakP -------------------------------
(* The permutation Keccak-p[1600, nr] of FIPS 202 (section 3), written out so that TLC can       *)
(* evaluate it: this is the f that C13 requires the Cyclist code to use (nr = 12: the last 12    *)
(* rounds, indices 12..23, of Keccak-f[1600]).                                                   *)
(*                                                                                               *)
(* TLC's integers are 32 bit, so a 64-bit lane is a tuple of four 16-bit limbs, least significant *)
(* first; the state is the sequence of the 25 lanes A[x, y] at position x + 5y + 1, i.e. the      *)
(* byte string of the state read as little-endian 64-bit words.  The round constants below are    *)
(* the values of the LFSR rc(t) of FIPS 202 algorithm 5 and the offsets those of table 2; the      *)
(* module is anchored by the published Keccak-f[1600] test vector for the all-zero state          *)
(* (ZeroVector24, checked by TLC as an ASSUME).                                                   *)
EXTENDS Integers, Sequences, SequencesExt, Bitwise, TLC

Limbs == 1..4
XorL(a, b) == [i \in Limbs |-> a[i] ^^ b[i]]
AndL(a, b) == [i \in Limbs |-> a[i] & b[i]]
NotL(a)    == [i \in Limbs |-> 65535 - a[i]]
Pow2(n) == 2^n
(* rotation of a 64-bit lane towards the most significant bit by r *)
RotL(a, r) ==
    LET q == r \div 16
        s == r % 16
        b == [i \in Limbs |-> a[((i - 1 - q) % 4) + 1]]
    IN  IF s = 0 THEN b
        ELSE [i \in Limbs |-> ((b[i] * Pow2(s)) % 65536) + (b[((i - 2) % 4) + 1] \div Pow2(16 - s))]

RC == << <<1, 0, 0, 0>>,
         <<32898, 0, 0, 0>>,
         <<32906, 0, 0, 32768>>,
         <<32768, 32768, 0, 32768>>,
         <<32907, 0, 0, 0>>,
         <<1, 32768, 0, 0>>,
         <<32897, 32768, 0, 32768>>,
         <<32777, 0, 0, 32768>>,
         <<138, 0, 0, 0>>,
         <<136, 0, 0, 0>>,
         <<32777, 32768, 0, 0>>,
         <<10, 32768, 0, 0>>,
         <<32907, 32768, 0, 0>>,
         <<139, 0, 0, 32768>>,
         <<32905, 0, 0, 32768>>,
         <<32771, 0, 0, 32768>>,
         <<32770, 0, 0, 32768>>,
         <<128, 0, 0, 32768>>,
         <<32778, 0, 0, 0>>,
         <<10, 32768, 0, 32768>>,
         <<32897, 32768, 0, 32768>>,
         <<32896, 0, 0, 32768>>,
         <<1, 32768, 0, 0>>,
         <<32776, 32768, 0, 32768>> >>
Offset == << <<0, 36, 3, 41, 18>>, <<1, 44, 10, 45, 2>>, <<62, 6, 43, 15, 61>>, <<28, 55, 25, 21, 56>>, <<27, 20, 39, 8, 14>> >>      \* Offset[x + 1][y + 1]

L(A, x, y) == A[(x % 5) + 5 * (y % 5) + 1]
Round(A, ir) ==
    LET C == [x \in 0..4 |-> XorL(XorL(XorL(XorL(L(A, x, 0), L(A, x, 1)), L(A, x, 2)), L(A, x, 3)), L(A, x, 4))]
        D == [x \in 0..4 |-> XorL(C[(x + 4) % 5], RotL(C[(x + 1) % 5], 1))]
        T == [i \in 1..25 |-> XorL(A[i], D[(i - 1) % 5])]                                  \* theta
        \* rho and pi: B[y, 2x + 3y] = rot(T[x, y]);  inverted: B[X, Y] comes from x = (X + 3Y) mod 5, y = X
        B == [i \in 1..25 |-> LET X == (i - 1) % 5  Y == (i - 1) \div 5  x == (X + 3 * Y) % 5  y == X
                              IN RotL(L(T, x, y), Offset[x + 1][y + 1])]
        E == [i \in 1..25 |-> LET X == (i - 1) % 5  Y == (i - 1) \div 5
                              IN XorL(L(B, X, Y), AndL(NotL(L(B, X + 1, Y)), L(B, X + 2, Y)))]       \* chi
    IN  [E EXCEPT ![1] = XorL(@, RC[ir + 1])]                                                \* iota
(* a strict left fold (SequencesExt!FoldLeft is evaluated by Java): TLC passes operator arguments by name, a *)
(* recursive operator would re-evaluate the previous round at every use of its argument                     *)
Rounds(A, from, to) == FoldLeft(LAMBDA acc, ir : Round(acc, ir), A, [i \in 1..(to - from + 1) |-> from + i - 1])
KeccakP12(A) == Rounds(A, 12, 23)
KeccakF(A)   == Rounds(A, 0, 23)

Zero == [i \in 1..25 |-> <<0, 0, 0, 0>>]
(* Keccak-f[1600] of the all-zero state starts with the bytes e7 dd e1 40 79 8f 25 f1  8a 47 c0 33 f9 cc d5 84 *)
ZeroVector24 == LET Z == KeccakF(Zero) IN Z[1] = <<56807, 16609, 36729, 61733>> /\ Z[2] = <<18314, 13248, 52473, 34005>>
=============================================================================
