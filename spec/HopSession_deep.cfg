SPECIFICATION Spec
CONSTANTS MaxOpens = 3
          Acts = {"junk"}
          SecondByType = FALSE
INVARIANTS NoCrash Emit
CHECK_DEADLOCK FALSE
