--------------------------- MODULE Trace_HopHostile ---------------------------
(* Trace validation for C11: probes after hostile frames (witness tube still carries data in  *)
(* both directions; both muxers stop within the bound) and decoder outcomes (value or error,  *)
(* allocation bounded by c0 + c1 * bytes received), and hostile tube-open sequences against a   *)
(* real session (the server survives and still admits a regular connection).                  *)
EXTENDS Integers, Sequences, TLC, Json
Trace == ndJsonDeserialize("trace.ndjson")
VARIABLES l, bad
Ev == Trace[l]
C0 == 262144      \* 256 KiB
C1 == 16
Good(e) == CASE e.ev = "probe"   -> e.witness = "ok"
             [] e.ev = "stop"    -> e.ok = "yes"
             [] e.ev = "decode"  -> e.outcome \in {"value", "error"} /\ e.alloc <= C0 + C1 * e.bytes
             [] e.ev = "session" -> e.alive = "yes"      \* after a hostile session the server still admits a connection
             [] e.ev = "crash"   -> FALSE
             [] OTHER -> TRUE
TInit == l = 1 /\ bad = 0
TNext == /\ l <= Len(Trace) /\ l' = l + 1
         /\ IF Good(Ev) THEN bad' = bad ELSE bad' = bad + 1 /\ PrintT(<<"MISMATCH", l>>)
TSpec == TInit /\ [][TNext]_<<l, bad>>
HW == TLCSet(1, l)
Accepted == TLCGet(1) = Len(Trace) + 1
=============================================================================
