// c14 drives the real transport.SlidingWindow.
//
//	c14 trace  <out.ndjson> <seed> <ntraces> <steps>   seeded histories, every Check result logged
//	c14 replay <behaviours.jsonl> <out.jsonl>          TLC behaviours of the (8 blocks x 2 bits) model,
//	                                                   scaled to the real layout, expected verdicts from TLC
package main

import (
	"bufio"
	"encoding/json"
	"fmt"
	"math/rand"
	"os"
	"strconv"

	"hop.computer/hop/transport"
	"verif/harness/rec"
)

const W = 448

func main() {
	switch os.Args[1] {
	case "trace":
		seed, _ := strconv.ParseInt(os.Args[3], 10, 64)
		n, _ := strconv.Atoi(os.Args[4])
		steps, _ := strconv.Atoi(os.Args[5])
		trace(os.Args[2], seed, n, steps)
	case "replay":
		replay(os.Args[2], os.Args[3])
	}
}

// One history on the real filter. base is added to every logged (relative) counter.
type hist struct {
	w    *rec.W
	sw   transport.SlidingWindow
	base uint64
	top  int64 // highest relative counter marked, -1 if none (driver bookkeeping to aim at edges only)
}

func (h *hist) check(rel int64) bool {
	got := h.sw.Check(h.base + uint64(rel))
	h.w.Ev("check", "rel", rel, "got", got)
	return got
}
func (h *hist) mark(rel int64) {
	h.sw.Mark(h.base + uint64(rel))
	h.w.Ev("mark", "rel", rel)
	if rel > h.top {
		h.top = rel
	}
}
func (h *hist) recv(rel int64) {
	if h.check(rel) {
		h.mark(rel)
	}
}

var jumps = []int64{1, 1, 1, 2, 3, 63, 64, 65, 127, 128, 129, 447, 448, 449, 511, 512, 513, 514, 575, 576, 1023, 1024, 1025, 4096, 100000}
var backs = []int64{0, 1, 2, 62, 63, 64, 65, 127, 128, 383, 384, 446, 447, 448, 449, 450, 511, 512, 513, 600}

func trace(out string, seed int64, ntraces, steps int) {
	w := rec.Must(out)
	defer w.Close()
	bases := []uint64{0, 1, 63, 64, 447, 448, 449, 1 << 20, 1<<32 - 300, 1 << 32, 1<<62 + 17, 1<<63 - 1 - (1 << 30)}
	for t := 0; t < ntraces; t++ {
		r := rand.New(rand.NewSource(seed*1000003 + int64(t)))
		h := &hist{w: w, base: bases[t%len(bases)], top: -1}
		style := (t / len(bases)) % 5
		w.Ev("reset", "trace", t, "style", style, "base", strconv.FormatUint(h.base, 10))
		cur := int64(r.Intn(700)) // start anywhere, also beyond one window above base
		for i := 0; i < steps; i++ {
			switch style {
			case 0: // mostly linear with local reordering and duplicates
				switch r.Intn(10) {
				case 0:
					h.recv(max0(cur - int64(r.Intn(8))))
				case 1:
					cur += int64(r.Intn(4))
					h.recv(cur)
					h.recv(cur)
				default:
					cur++
					h.recv(cur)
				}
			case 1: // straddle 64-value block boundaries
				blk := (cur/64 + int64(r.Intn(3))) * 64
				cur = blk + []int64{-2, -1, 0, 1, 62, 63, 64, 65}[r.Intn(8)]
				cur = max0(cur)
				h.recv(cur)
			case 2: // forward jumps around ring multiples, then look back at the edges
				cur = maxi(cur, h.top) + jumps[r.Intn(len(jumps))]
				h.recv(cur)
				for k := 0; k < 3; k++ {
					h.recv(max0(h.top - backs[r.Intn(len(backs))]))
				}
			case 3: // revisit both window edges; checks without marks (unauthenticated packets)
				if h.top < 0 || r.Intn(4) == 0 {
					cur = maxi(cur, h.top) + jumps[r.Intn(len(jumps))]
					h.recv(cur)
				}
				b := max0(h.top - backs[r.Intn(len(backs))])
				if r.Intn(3) == 0 {
					h.check(b)
				} else {
					h.recv(b)
				}
			default: // uniformly random inside two windows around the top
				lo := max0(h.top - 2*W)
				h.recv(lo + int64(r.Intn(3*W)))
			}
			if i%64 == 63 && h.top >= 0 { // sweep: probe every edge of the window without marking
				for _, d := range []int64{-450, -449, -448, -447, -446, -1, 0, 1, 448, 512} {
					h.check(max0(h.top + d))
				}
			}
		}
	}
}

func max0(a int64) int64 {
	if a < 0 {
		return 0
	}
	return a
}
func maxi(a, b int64) int64 {
	if a > b {
		return a
	}
	return b
}

// ---- replay of TLC behaviours ------------------------------------------------------------

type step struct {
	Op    string `json:"op"`
	S     int64  `json:"s"`
	Ok    int    `json:"ok"`
	After []int  `json:"after"`
}

// scale maps a counter of the (8 x 2) model to the real (8 x 64) layout: block quotient kept,
// in-block offset 0/1 mapped monotonically to (lo, hi).
func scale(s int64, lo, hi uint64, base uint64) uint64 {
	q, r := uint64(s/2), s%2
	off := lo
	if r == 1 {
		off = hi
	}
	return base + q*64 + off
}

func replay(in, out string) {
	f, err := os.Open(in)
	if err != nil {
		panic(err)
	}
	defer f.Close()
	w := rec.Must(out)
	defer w.Close()
	sc := bufio.NewScanner(f)
	sc.Buffer(make([]byte, 1<<24), 1<<24)
	maps := [][2]uint64{{0, 1}, {62, 63}, {0, 63}, {31, 32}}
	// base must be a multiple of the ring size in counters (512) so that block phases agree; 0 is also the
	// only base for which the model's "wt = 0 initially" coincides literally.
	bases := []uint64{0, 512, 1 << 32, 1 << 62}
	nb, nsteps, nprobe, bad := 0, 0, 0, 0
	for sc.Scan() {
		var b []step
		if err := json.Unmarshal(sc.Bytes(), &b); err != nil {
			panic(err)
		}
		nb++
		for _, m := range maps {
			for _, base := range bases {
				var sw transport.SlidingWindow
				for i, st := range b {
					x := scale(st.S, m[0], m[1], base)
					got := sw.Check(x)
					nsteps++
					if got != (st.Ok == 1) {
						bad++
						w.Ev("mismatch", "behaviour", nb, "step", i, "kind", "recv", "s", st.S, "real", strconv.FormatUint(x, 10), "got", got, "want", st.Ok == 1, "map", fmt.Sprint(m), "base", strconv.FormatUint(base, 10))
						break
					}
					if got {
						sw.Mark(x)
					}
					fail := false
					for p, want := range st.After {
						y := scale(int64(p), m[0], m[1], base)
						g := sw.Check(y)
						nprobe++
						if g != (want == 1) {
							bad++
							fail = true
							w.Ev("mismatch", "behaviour", nb, "step", i, "kind", "probe", "s", p, "real", strconv.FormatUint(y, 10), "got", g, "want", want == 1, "map", fmt.Sprint(m), "base", strconv.FormatUint(base, 10))
							break
						}
					}
					if fail {
						break
					}
				}
			}
		}
	}
	w.Ev("summary", "behaviours", nb, "steps", nsteps, "probes", nprobe, "mismatches", bad)
}
