# Shared machinery for the established-channel properties C03 and C15: HopTransport.tla checked by TLC,
# simulated behaviours replayed on a real client/server pair (cmd/trreplay), per-step state comparison.
import json, os, re
import lib

def design(v, thorough):
    cfg = "MC_HopTransport_t.cfg" if thorough else "MC_HopTransport.cfg"
    r = lib.tlc("MC_HopTransport", cfg, timeout=3000)
    lib.tlc_must_pass(r, cfg)
    v.add_tlc(cfg + " (exhaustive, VIEW without history)", r)

def behaviours(v, n, depth=15, per_trace=4):
    """TLC -simulate evaluates the emitting invariant on every successor it generates, so each random trace yields
    all variants of its last step; a seeded sample of per_trace variants per trace is kept."""
    import random
    rng = random.Random(lib.seed())
    ntr = max(1, n // per_trace)
    r = lib.tlc("MC_HopTransport", "Sim_HopTransport.cfg", workers=1, simulate="num=%d" % ntr, depth=depth, tlc_seed=lib.seed(), timeout=1800)
    if r.kind:
        raise lib.Inconclusive("simulation failed: %s\n%s" % (r.kind, r.out[-2000:]))
    groups = {}
    for m in re.finditer(r'^<<"BEH", "(.*)">>$', r.out, re.M):
        b = json.loads(m.group(1).replace('\\"', '"'))
        groups.setdefault(json.dumps(b["hist"][:-1]), []).append(b)
    behs = []
    for k in sorted(groups):
        g = groups[k]
        rng.shuffle(g)
        # prefer variants whose last step is an accepted delivery or a mutation of a deliverable packet
        g.sort(key=lambda b: 0 if b["hist"][-1]["op"] == "deliver" and b["hist"][-1]["ok"] else 1)
        behs += g[:1] + rng.sample(g[1:], min(per_trace - 1, max(0, len(g) - 1)))
    if len(behs) < n // 2:
        raise lib.Inconclusive("simulation produced %d behaviours" % len(behs))
    v.cov["tlc_runs"].append(dict(name="Sim_HopTransport (-simulate)", traces=len(groups), behaviours_emitted=sum(len(g) for g in groups.values()), behaviours_kept=len(behs), wall_s=round(r.wall, 1)))
    return behs

def replay(behs):
    binp = lib.go_build("trreplay")
    sd = lib.scratch("vf-tr-")
    bf, of = os.path.join(sd, "beh.jsonl"), os.path.join(sd, "out.jsonl")
    with open(bf, "w") as fh:
        for b in behs:
            fh.write(json.dumps(b) + "\n")
    rc, so, se = lib.run([binp, bf, of, str(lib.seed()), "32"], timeout=3000)
    if rc != 0:
        return None, (so + se)[-3000:]
    res = {}
    for r in lib.read_ndjson(of):
        res[r["i"]] = r
    return [res[i] for i in range(len(behs))], None

def step_str(s):
    if s["op"] == "deliver":
        return "deliver(pkt%d->%s from %s%s)" % (s["j"], s["e"], s["a"], "" if s["mut"] == "none" else " mut=" + s["mut"])
    if s["op"] == "forge":
        return "forge(%s->%s from %s ctr=%d)" % (s["mut"], s["e"], s["a"], s["j"])
    return "%s(%s%s)" % (s["op"], s["e"], " pkt%d" % s["j"] if s["j"] else "")

def judge(v, pid, behs, results):
    """C03: queue contents/counts, closed flags, write results, leaks.  C15: remote addresses, send destinations."""
    nun = 0
    for k, (b, r) in enumerate(zip(behs, results)):
        hs = " ".join(step_str(s) for s in b["hist"])
        v.case(hs, nontrivial=any(s["op"] in ("deliver", "forge") for s in b["hist"]))
        if r.get("err"):
            nun += 1
            if nun <= 5:
                lib.log("UNEXPLAINED %s | %s" % (hs, r["err"]))
            continue
        found = []
        for n, (s, o) in enumerate(zip(b["hist"], r["steps"])):
            m, a = s["after"], o["after"]
            pre = " ".join(step_str(x) for x in b["hist"][:n + 1])
            if a["cc"] and not m["cc"] or a["cs"] and not m["cs"]:
                found.append(("C03", "an end is closed although neither a local close nor an authentic control message occurred", pre))
            if (not a["cc"] and m["cc"]) or (not a["cs"] and m["cs"]):
                found.append(("UN", "end not closed where the model closes it", pre))
            for end, qk in (("c", "qc"), ("s", "qs")):
                if a[qk] > m[qk]:
                    found.append(("C03", "end %s queued a message for its reader that the specification does not deliver (unauthentic, replayed or mis-directed datagram accepted)" % end, pre))
                elif a[qk] < m[qk]:
                    found.append(("C03", "end %s did not queue an authentic fresh message (an earlier unauthenticated datagram disturbed the session, or a fresh packet was rejected)" % end, pre))
            for end, rk in (("c", "rc"), ("s", "rs")):
                closed_now = a["c" + end]
                if a[rk] != m[rk] and not (closed_now and a[rk] == ""):
                    authentic = s["op"] == "deliver" and s["ok"] and s["e"] == end
                    found.append(("C15", "peer address of end %s is %s, the specification says %s (%s)" % (end, a[rk], m[rk],
                                  "genuine fresh packet from a new address not followed" if authentic else "address moved without an authentic fresh packet"), pre))
            if s["op"] == "write":
                if s["ok"] and not o["wok"]:
                    found.append(("UN", "write failed on an open session", pre))
                if not s["ok"] and o["wok"]:
                    found.append(("C03", "write succeeded on a locally closed session", pre))
                if s["ok"] and o.get("dst") and o["dst"] != s["dst"]:
                    found.append(("C15", "datagram sent to %s, the session's peer address is %s" % (o["dst"], s["dst"]), pre))
            if found:
                break
        if not found:
            if r["qc"] != b["qc"] or r["qs"] != b["qs"]:
                found.append(("C03", "messages read at the end differ: client got %s (spec %s), server got %s (spec %s)" % (r["qc"], b["qc"], r["qs"], b["qs"]), hs))
            if r.get("badpayload"):
                found.append(("C03", "a reader received bytes nobody wrote: %s" % r["badpayload"], hs))
            if r.get("leak"):
                found.append(("C03", "plaintext on the wire: %s" % r["leak"], hs))
        for prop, text, pre in found:
            if prop == "UN":
                nun += 1
                if nun <= 5:
                    lib.log("UNEXPLAINED %s | %s" % (pre, text))
            elif prop == pid:
                v.violation("%s | %s" % (text, pre), "replayed on a real client/server pair over the simulated wire", dict(behaviour=b, real=r))
            else:
                v.count("violations_of_other_properties_seen")
        if k % 499 == 0:
            v.sample(dict(kind="TLC behaviour replayed on a real established pair", steps=hs, model_final=b["hist"][-1]["after"], real_final=r["steps"][-1]["after"] if r["steps"] else None,
                          read=dict(client=r["qc"], server=r["qs"])))
    v.count("behaviours_replayed_into_impl", len(behs))
    v.cov["traces_validated_against_impl"] += len(behs)
    v.count("unexplained_differences", nun)
    return nun
