// c20 drives glob.Glob, config.ClientConfig.MatchHost and hopserver.VirtualHosts.Match and logs results.
//
//	c20 <out.ndjson> <seed> <maxP> <maxS> <nrandom>
package main

import (
	"fmt"
	"io"
	"math/rand"
	"os"
	"strconv"
	"strings"

	"github.com/sirupsen/logrus"

	"hop.computer/hop/config"
	"hop.computer/hop/hopserver"
	"hop.computer/hop/pkg/glob"
	"verif/harness/hopkit"
	"verif/harness/rec"
)

func chars(s string) []string {
	out := make([]string, 0, len(s))
	for i := 0; i < len(s); i++ {
		out = append(out, s[i:i+1])
	}
	return out
}

func all(alpha string, n int) []string {
	out := []string{""}
	prev := []string{""}
	for k := 1; k <= n; k++ {
		var cur []string
		for _, p := range prev {
			for i := 0; i < len(alpha); i++ {
				cur = append(cur, p+alpha[i:i+1])
			}
		}
		out = append(out, cur...)
		prev = cur
	}
	return out
}

func yn(b bool) string {
	if b {
		return "yes"
	}
	return "no"
}

func callGlob(p, s string) (res string, pan string) {
	defer func() {
		if r := recover(); r != nil {
			res, pan = "false", "yes"
		}
	}()
	if glob.Glob(p, s) {
		return "true", "no"
	}
	return "false", "no"
}

func logGlob(w *rec.W, p, s string) {
	got, pan := callGlob(p, s)
	w.Ev("glob", "p", chars(p), "s", chars(s), "got", got, "pan", pan)
}

func main() {
	logrus.SetOutput(io.Discard)
	out := os.Args[1]
	seed, _ := strconv.ParseInt(os.Args[2], 10, 64)
	maxP, _ := strconv.Atoi(os.Args[3])
	maxS, _ := strconv.Atoi(os.Args[4])
	nrand, _ := strconv.Atoi(os.Args[5])
	w := rec.Must(out)
	defer w.Close()
	r := rand.New(rand.NewSource(seed))

	// 1. exhaustive small scope
	pats := all("ab*", maxP)
	ins := all("ab", maxS)
	for _, p := range pats {
		for _, s := range ins {
			logGlob(w, p, s)
		}
	}
	// 2. seeded longer ones, biased towards matches (input derived from the pattern)
	for i := 0; i < nrand; i++ {
		lp := 1 + r.Intn(9)
		var pb strings.Builder
		for k := 0; k < lp; k++ {
			pb.WriteByte("aab.*c*"[r.Intn(7)])
		}
		p := pb.String()
		var sb strings.Builder
		for k := 0; k < len(p); k++ {
			if p[k] == '*' {
				for n := r.Intn(4); n > 0; n-- {
					sb.WriteByte("ab.c"[r.Intn(4)])
				}
			} else {
				sb.WriteByte(p[k])
			}
		}
		s := sb.String()
		if r.Intn(3) == 0 && len(s) > 0 { // perturb so that non-matches are exercised too
			k := r.Intn(len(s))
			s = s[:k] + s[k+1:]
		}
		logGlob(w, p, s)
	}
	// 3. host-block lists and virtual-host lists from a pattern pool
	pool := []string{"*", "a", "a*", "*b", "a*b", "ab", "b*", "*a*"}
	hosts := all("ab", 3)
	nlists := 0
	realLists := 0
	pki := hopkit.NewPKI()
	var idents []*hopkit.Ident
	for k := 0; k < 3; k++ {
		idents = append(idents, pki.Issue("valid", fmt.Sprintf("vh%d.example", k)))
	}
	for i := 0; i < len(pool)*len(pool)*4 && nlists < 400; i++ {
		nb := 1 + r.Intn(3)
		var blocks [][]string
		for b := 0; b < nb; b++ {
			np := 1 + r.Intn(2)
			var ps []string
			for k := 0; k < np; k++ {
				ps = append(ps, pool[r.Intn(len(pool))])
			}
			blocks = append(blocks, ps)
		}
		nlists++
		cc := &config.ClientConfig{}
		var logged [][][]string
		for b, ps := range blocks {
			cc.Hosts = append(cc.Hosts, config.HostConfigOptional{Patterns: ps, CAFiles: []string{fmt.Sprint(b + 1)}})
			var lp [][]string
			for _, p := range ps {
				lp = append(lp, chars(p))
			}
			logged = append(logged, lp)
		}
		var vh hopserver.VirtualHosts
		var vpats [][]string
		for _, ps := range blocks {
			vh = append(vh, hopserver.VirtualHost{Pattern: ps[0]})
			vpats = append(vpats, chars(ps[0]))
		}
		for _, h := range hosts {
			got, pan := matchHost(cc, h)
			w.Ev("hosts", "blocks", logged, "h", chars(h), "got", got, "pan", yn(pan))
			vi, pan := vhost(vh, h)
			w.Ev("vhost", "pats", vpats, "n", chars(h), "got", vi, "pan", yn(pan))
		}
		// the lookup a REAL hop server performs (its own closure): every name, in two orders, so that nothing a lookup
		// leaves behind can change the next one
		if nlists%4 == 0 {
			var pats []string
			for _, ps := range blocks {
				pats = append(pats, ps[0])
			}
			if look, ok := hopkit.RealVhostLookup(idents, pats); ok {
				order := append(append([]string{}, hosts...), hosts...)
				for i, j := len(hosts), len(order)-1; i < j; i, j = i+1, j-1 {
					order[i], order[j] = order[j], order[i]
				}
				for _, h := range order {
					vi, pan := 0, false
					func() {
						defer func() {
							if r := recover(); r != nil {
								pan = true
							}
						}()
						vi = look(h)
					}()
					w.Ev("vhost", "pats", vpats, "n", chars(h), "got", vi, "pan", yn(pan))
				}
				realLists++
			}
		}
	}
}

func matchHost(cc *config.ClientConfig, h string) (got []int, pan bool) {
	got = []int{}
	defer func() {
		if r := recover(); r != nil {
			pan = true
		}
	}()
	res := cc.MatchHost(h)
	for _, f := range res.CAFiles {
		n, _ := strconv.Atoi(f)
		got = append(got, n)
	}
	return got, false
}

func vhost(vh hopserver.VirtualHosts, n string) (idx int, pan bool) {
	defer func() {
		if r := recover(); r != nil {
			pan = true
		}
	}()
	m := vh.Match(n)
	if m == nil {
		return 0, false
	}
	for i := range vh {
		if &vh[i] == m {
			return i + 1, false
		}
	}
	return -1, false
}
