// c18 round-trips values of the exported wire codecs at every boundary length and mutates valid encodings.
//
//	c18 <out.ndjson> <seed> <thorough:0|1>
package main

import (
	"bytes"
	"encoding/pem"
	"fmt"
	"io"
	"math/rand"
	"os"
	"reflect"
	"strconv"
	"strings"
	"time"

	"github.com/sirupsen/logrus"

	"hop.computer/hop/authgrants"
	"hop.computer/hop/certs"
	"hop.computer/hop/common"
	"hop.computer/hop/core"
	"hop.computer/hop/keys"
	"verif/harness/rec"
)

var w *rec.W
var rng *rand.Rand

func yn(b bool) string {
	if b {
		return "yes"
	}
	return "no"
}

// guard runs f and maps its outcome to ok / err / panic.
func guard(f func() error) (res string) {
	defer func() {
		if r := recover(); r != nil {
			res = "panic"
		}
	}()
	if err := f(); err != nil {
		return "err"
	}
	return "ok"
}

func str(n int) string {
	if utf8Mode {
		// n BYTES of two- and three-byte characters (an ASCII letter fills up the remainder)
		var sb strings.Builder
		for sb.Len()+3 <= n {
			if sb.Len()%5 == 0 {
				sb.WriteString("\u6f22") // 3 bytes
			} else {
				sb.WriteString("\u00e9") // 2 bytes
			}
		}
		for sb.Len() < n {
			sb.WriteByte('a')
		}
		return sb.String()
	}
	// text is opaque to a codec: both letter cases, digits, separators, blanks
	const alphabet = "aBc.XyZ-019_ qRsT/u:V@w"
	b := make([]byte, n)
	for i := range b {
		b[i] = alphabet[(i*7+n)%len(alphabet)]
	}
	return string(b)
}

// hostStr: n bytes that can stand in the host part of a URL (letters of both cases, digits, dots, dashes)
func hostStr(n int) string {
	if utf8Mode {
		return str(n)
	}
	const alphabet = "aBc.XyZ-019qRsT"
	b := make([]byte, n)
	for i := range b {
		b[i] = alphabet[(i*7+n)%len(alphabet)]
	}
	return string(b)
}

var lens1 = []int{0, 1, 2, 100, 251, 252, 253, 254, 255, 256, 257, 300, 511, 512, 513, 1000}

func rt(codec string, lens map[string]int, enumok bool, enc func() ([]byte, error), dec func([]byte) (interface{}, error), want interface{}) []byte {
	var b []byte
	var got interface{}
	e := guard(func() (err error) { b, err = enc(); return })
	d, same := "na", "na"
	if e == "ok" {
		d = guard(func() (err error) { got, err = dec(b); return })
		if d == "ok" {
			same = yn(reflect.DeepEqual(got, want))
		}
	}
	w.Ev("rt", "codec", codec, "lens", lens, "enumok", yn(enumok), "enc", e, "dec", d, "same", same, "bytes", len(b))
	if e == "ok" {
		return b
	}
	return nil
}

// stab mutates valid bytes; whenever the decoder accepts, decode-encode-decode must be stable.
func stab(codec string, valid []byte, n int, dec func([]byte) (interface{}, error), enc func(interface{}) ([]byte, error)) {
	if len(valid) == 0 {
		return
	}
	for k := 0; k < n; k++ {
		m := append([]byte(nil), valid...)
		switch rng.Intn(4) {
		case 0:
			m[rng.Intn(len(m))] ^= byte(1 << uint(rng.Intn(8)))
		case 1:
			m[rng.Intn(len(m))] = byte(rng.Intn(256))
		case 2:
			m = m[:rng.Intn(len(m))]
		default:
			i := rng.Intn(len(m))
			m[i] = []byte{0, 1, 2, 3, 4, 0xff}[rng.Intn(6)]
		}
		var v1, v2 interface{}
		d := guard(func() (err error) { v1, err = dec(m); return })
		st := "na"
		if d == "ok" {
			var b2 []byte
			e2 := guard(func() (err error) { b2, err = enc(v1); return })
			if e2 == "ok" {
				d2 := guard(func() (err error) { v2, err = dec(b2); return })
				st = yn(d2 == "ok" && reflect.DeepEqual(v1, v2))
			} else {
				st = "no"
			}
		}
		w.Ev("stab", "codec", codec, "dec", d, "stable", st, "len", len(m))
	}
}

func decName(b []byte) (interface{}, error) {
	var n certs.Name
	r := bytes.NewReader(b)
	if _, err := n.ReadFrom(r); err != nil {
		return nil, err
	}
	if r.Len() != 0 {
		return nil, fmt.Errorf("trailing bytes")
	}
	return normName(n), nil
}
func normName(n certs.Name) certs.Name {
	if n.Label == nil {
		n.Label = []byte{}
	}
	return n
}
func encName(v interface{}) ([]byte, error) {
	n := v.(certs.Name)
	var buf bytes.Buffer
	_, err := n.WriteTo(&buf)
	return buf.Bytes(), err
}

type certView struct {
	Version   byte
	Type      certs.CertificateType
	Issued    int64
	Expires   int64
	Names     []certs.Name
	PublicKey keys.DHPublicKey
	Parent    certs.SHA3Fingerprint
	Signature [64]byte
}

func viewCert(c *certs.Certificate) certView {
	v := certView{c.Version, c.Type, c.IssuedAt.Unix(), c.ExpiresAt.Unix(), nil, c.PublicKey, c.Parent, c.Signature}
	for _, n := range c.IDChunk.Blocks {
		v.Names = append(v.Names, normName(n))
	}
	return v
}
func decCert(b []byte) (interface{}, error) {
	c := new(certs.Certificate)
	r := bytes.NewReader(b)
	if _, err := c.ReadFrom(r); err != nil {
		return nil, err
	}
	if r.Len() != 0 {
		return nil, fmt.Errorf("trailing bytes")
	}
	return viewCert(c), nil
}
func certFromView(v certView) *certs.Certificate {
	return &certs.Certificate{Version: v.Version, Type: v.Type, IssuedAt: time.Unix(v.Issued, 0), ExpiresAt: time.Unix(v.Expires, 0),
		IDChunk: certs.IDChunk{Blocks: v.Names}, PublicKey: v.PublicKey, Parent: v.Parent, Signature: v.Signature}
}
func encCert(v interface{}) ([]byte, error) { return certFromView(v.(certView)).Marshal() }

type intentView struct {
	GrantType  authgrants.GrantType
	Reserved   byte
	Port       uint16
	Start, Exp int64
	SNI        certs.Name
	User       string
	Cert       certView
	Cmd        string
}

func viewIntent(i authgrants.Intent) intentView {
	return intentView{i.GrantType, i.Reserved, i.TargetPort, i.StartTime.Unix(), i.ExpTime.Unix(), normName(i.TargetSNI), i.TargetUsername,
		viewCert(&i.DelegateCert), i.AssociatedData.CommandGrantData.Cmd}
}
func intentFromView(v intentView) authgrants.Intent {
	i := authgrants.Intent{GrantType: v.GrantType, Reserved: v.Reserved, TargetPort: v.Port, StartTime: time.Unix(v.Start, 0), ExpTime: time.Unix(v.Exp, 0),
		TargetSNI: v.SNI, TargetUsername: v.User, DelegateCert: *certFromView(v.Cert)}
	i.AssociatedData.CommandGrantData.Cmd = v.Cmd
	return i
}
func decIntent(b []byte) (interface{}, error) {
	r := bytes.NewReader(b)
	i, err := authgrants.ReadIntentRequest(r)
	if err != nil {
		return nil, err
	}
	if r.Len() != 0 {
		return nil, fmt.Errorf("trailing bytes")
	}
	return viewIntent(i), nil
}
func encIntent(v interface{}) ([]byte, error) {
	var buf bytes.Buffer
	err := authgrants.WriteIntentRequest(&buf, intentFromView(v.(intentView)))
	return buf.Bytes(), err
}

func main() {
	logrus.SetOutput(io.Discard)
	seed, _ := strconv.ParseInt(os.Args[2], 10, 64)
	thorough := os.Args[3] == "1"
	rng = rand.New(rand.NewSource(seed))
	w = rec.Must(os.Args[1])
	defer w.Close()
	nst := 300
	if thorough {
		nst = 3000
	}
	for _, m := range []bool{false, true} {
		utf8Mode = m // second pass: text made of multi-byte characters (lengths are BYTE lengths)
		pass(thorough, nst)
	}
	pemBundles()
}

var utf8Mode bool

// pemBundles: streams of several PEM-encoded certificates (trust files) decode to the certificates that went in
func pemBundles() {
	mk := func(k int) *certs.Certificate {
		kp := keys.GenerateNewX25519KeyPair()
		c, err := certs.SelfSignLeaf(&certs.Identity{PublicKey: kp.Public, Names: []certs.Name{certs.DNSName(fmt.Sprintf("host-%d.example", k)), certs.RawStringName(fmt.Sprintf("raw-%d", k))}})
		if err != nil {
			panic(err)
		}
		return c
	}
	for _, count := range []int{1, 2, 3, 5} {
		var cs []*certs.Certificate
		for k := 0; k < count; k++ {
			cs = append(cs, mk(k))
		}
		enc := "ok"
		var bundle []byte
		for _, c := range cs {
			b, err := certs.EncodeCertificateToPEM(c)
			if err != nil {
				enc = "err"
				break
			}
			bundle = append(bundle, b...)
			bundle = append(bundle, '\n')
		}
		dec, same := "na", false
		if enc == "ok" {
			got, err := certs.ReadManyCertificatesPEM(bytes.NewReader(bundle))
			dec = "ok"
			if err != nil {
				dec = "err"
			} else {
				same = len(got) == len(cs)
				for k := 0; same && k < len(cs); k++ {
					a, _ := cs[k].Marshal()
					b, err := got[k].Marshal()
					same = err == nil && bytes.Equal(a, b) && len(got[k].IDChunk.Blocks) == len(cs[k].IDChunk.Blocks) && got[k].Fingerprint == cs[k].Fingerprint
				}
			}
		}
		w.Ev("rt", "codec", "pembundle", "lens", map[string]int{"count": count}, "enumok", "yes", "enc", enc, "dec", dec, "same", yn(same), "bytes", len(bundle))
	}
}

func pass(thorough bool, nst int) {
	// ---- common string -------------------------------------------------------------------------
	decStr := func(b []byte) (interface{}, error) {
		r := bytes.NewReader(b)
		s, _, err := common.ReadString(r)
		if err == nil && r.Len() != 0 {
			err = fmt.Errorf("trailing bytes")
		}
		return s, err
	}
	encStr := func(v interface{}) ([]byte, error) {
		var buf bytes.Buffer
		_, err := common.WriteString(v.(string), &buf)
		return buf.Bytes(), err
	}
	var valid []byte
	for _, n := range lens1 {
		s := str(n)
		if b := rt("string", map[string]int{"s": n}, true, func() ([]byte, error) { return encStr(s) }, decStr, s); b != nil && n == 100 {
			valid = b
		}
	}
	stab("string", valid, nst, decStr, encStr)
	// ---- certificate names and id chunks ----------------------------------------------------------
	for _, n := range lens1 {
		for _, t := range []certs.IDType{certs.TypeRaw, certs.TypeDNSName, 7, 255} {
			nm := certs.Name{Type: t, Label: []byte(str(n))}
			b := rt("name", map[string]int{"label": n}, true, func() ([]byte, error) { return encName(nm) }, decName, normName(nm))
			if n == 100 && t == certs.TypeDNSName {
				valid = b
			}
		}
	}
	stab("name", valid, nst, decName, encName)
	kp := keys.GenerateNewX25519KeyPair()
	mkcert := func(names []certs.Name, typ certs.CertificateType) certView {
		v := certView{Version: certs.Version, Type: typ, Issued: 1_700_000_000, Expires: 1_800_000_000, Names: names, PublicKey: kp.Public}
		rng.Read(v.Parent[:])
		rng.Read(v.Signature[:])
		return v
	}
	for _, shape := range [][]int{{}, {0}, {1}, {252}, {253}, {100, 100}, {252, 252}, {252, 250}, {252, 251}, {252, 252, 1}, {200, 200, 97}, {200, 200, 98}, {0, 0, 0}, {10, 0}, {0, 10}} {
		var names []certs.Name
		total := 2
		maxl := 0
		for k, n := range shape {
			names = append(names, certs.Name{Type: []certs.IDType{certs.TypeDNSName, certs.TypeRaw}[k%2], Label: []byte(str(n))})
			total += n + 3
			if n > maxl {
				maxl = n
			}
		}
		for _, typ := range []certs.CertificateType{certs.Leaf, certs.Intermediate, certs.Root, 0, 9} {
			cv := mkcert(names, typ)
			b := rt("idchunk", map[string]int{"total": total, "label": maxl}, true, func() ([]byte, error) { return encCert(cv) }, decCert, cv)
			if len(shape) == 2 && shape[0] == 100 && typ == certs.Leaf {
				valid = b
			}
		}
	}
	stab("idchunk", valid, nst*2, decCert, encCert)
	// ---- authgrant messages ------------------------------------------------------------------------
	for _, n := range lens1 {
		reason := str(n)
		rt("denial", map[string]int{"reason": n}, true, func() ([]byte, error) {
			var buf bytes.Buffer
			err := authgrants.WriteIntentDenied(&buf, reason)
			return buf.Bytes(), err
		}, func(b []byte) (interface{}, error) {
			m, err := authgrants.ReadConfOrDenial(bytes.NewReader(b))
			return m.Data.Denial, err
		}, reason)
		u := core.URL{User: "u", Host: hostStr(n), Port: "77"} // a URL travels as text and is parsed back: host characters only
		rt("targetinfo", map[string]int{"url": len(u.String())}, true, func() ([]byte, error) {
			var buf bytes.Buffer
			err := authgrants.WriteTargetInfo(u, &buf)
			return buf.Bytes(), err
		}, func(b []byte) (interface{}, error) {
			x, err := authgrants.ReadTargetInfo(bytes.NewReader(b))
			if err != nil {
				return nil, err
			}
			return x.String(), nil
		}, u.String())
		rt("failure", map[string]int{"err": n}, true, func() ([]byte, error) {
			var buf bytes.Buffer
			err := authgrants.WriteFailure(&buf, reason)
			return buf.Bytes(), err
		}, func(b []byte) (interface{}, error) {
			err := authgrants.ReadResponse(bytes.NewReader(b))
			if err == nil {
				return nil, fmt.Errorf("failure decoded as confirmation")
			}
			return err.Error(), nil
		}, reason)
	}
	leaf, _ := certs.SelfSignLeaf(&certs.Identity{PublicKey: kp.Public, Names: []certs.Name{certs.RawStringName("delegate")}})
	base := intentView{GrantType: authgrants.Command, Port: 77, Start: 1_700_000_000, Exp: 1_700_000_600, SNI: certs.DNSName("target.example"),
		User: "alice", Cert: viewCert(leaf), Cmd: "ls -l"}
	valid = nil
	for _, gt := range []authgrants.GrantType{authgrants.Shell, authgrants.Command, authgrants.LocalPF, authgrants.RemotePF, 9, 255} {
		for _, which := range []string{"sni", "user", "cmd"} {
			for _, n := range lens1 {
				v := base
				v.GrantType = gt
				lens := map[string]int{"sni": len(v.SNI.Label), "user": len(v.User), "cmd": len(v.Cmd)}
				switch which {
				case "sni":
					v.SNI = certs.DNSName(str(n))
				case "user":
					v.User = str(n)
				case "cmd":
					v.Cmd = str(n)
				}
				lens[which] = n
				if gt != authgrants.Command {
					v.Cmd = ""
					lens["cmd"] = 0
					if which == "cmd" {
						continue
					}
				}
				// LocalPF / RemotePF associated data is declared but not implemented: whether such an intent can be
				// represented at all is left open (enumok = no: encoder may refuse, but must not mis-frame)
				known := gt == authgrants.Shell || gt == authgrants.Command || gt == 9 || gt == 255
				b := rt("intent", lens, known, func() ([]byte, error) { return encIntent(v) }, decIntent, v)
				if gt == authgrants.Command && which == "cmd" && n == 100 {
					valid = b
				}
			}
		}
	}
	stab("intent", valid, nst*3, decIntent, encIntent)
	// ---- text formats of keys ------------------------------------------------------------------------
	for k := 0; k < 50; k++ {
		kp := keys.GenerateNewX25519KeyPair()
		pub := kp.Public
		rt("keytext", map[string]int{}, true, func() ([]byte, error) { return []byte(pub.String()), nil }, func(b []byte) (interface{}, error) {
			p, err := keys.ParseDHPublicKey(string(b))
			if err != nil {
				return nil, err
			}
			return *p, nil
		}, pub)
		priv := kp.Private
		rt("keytext", map[string]int{}, true, func() ([]byte, error) { return []byte(priv.String()), nil }, func(b []byte) (interface{}, error) {
			blk, _ := pem.Decode(b)
			if blk == nil {
				return nil, fmt.Errorf("not PEM")
			}
			kp2, err := keys.DHKeyFromPEM(blk)
			if err != nil {
				return nil, err
			}
			return kp2.Public, nil
		}, pub)
	}
	_ = strings.Repeat
}
