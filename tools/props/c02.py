# C02 — any in-flight change aborts the handshake; success means equal fresh keys (DESIGN.md §3 C02)
import random
import lib
from props import hs_common as H

def run(v, tier, replay):
    thorough = tier == "thorough"
    rng = random.Random(lib.seed())
    v.assumptions += ["field-level tamper/truncate/splice moves are explored exhaustively by TLC (1 move single session, 2 moves with two concurrent sessions); each is realised at concrete byte offsets, and honest runs are expanded to byte level (quick: field edges + seeded offsets/masks/cuts; thorough: every byte offset x masks {01,80,ff} and every truncation length)",
                      "extension of a datagram by extra bytes is not part of the property text and is not judged"]
    H.selftest_mutant(v)
    nun = 0
    behsA = H.tlc_family(v, "A")
    # single-session behaviours in which the dialled server and the client are honest: all field-level moves
    honest = [b for b in behsA if all(c["srvOK"] and c["cliOK"] for c in b["cl"])]
    resA = H.replay(v, honest, "A")
    nun += H.judge(v, "C02", honest, resA)
    # byte-level expansion of the all-ok honest behaviours
    base, lens = [], {}
    for b, r in zip(honest, resA):
        if all(s["mv"] == "ok" for s in b["hist"]) and all(c["st"] == "done" for c in b["cl"]) and r.get("lens"):
            key = (b["mode"][0], b["dial"][0], b["ccfg"][0]["pol"])
            if b["dial"][0] in ("Sauth", "Hauth") and key not in lens:
                lens[key] = r["lens"]; base.append(b)
    if not base:
        raise lib.Inconclusive("no honest completed base behaviour to expand")
    def lens_of(b): return lens.get((b["mode"][0], b["dial"][0], b["ccfg"][0]["pol"]))
    bymode = {}
    for b in base:
        bymode.setdefault(b["mode"][0], []).append(b)
    base = [x for m in sorted(bymode) for x in bymode[m][:(2 if thorough else 1)]]
    v.cov["expanded_base_behaviours"] = [H.scen_str(b) for b in base]
    ex = H.expand_bytes(base, lens_of, rng, per_field=6, all_bytes=thorough, masks=[0x01, 0x80, 0xff])
    if not thorough and len(ex) > 2000:
        sp = lambda e: e["hist"][e["xk"]]["mv"] == "replay" or e["hist"][e["xk"]].get("cutzero")
        stale = [e for e in ex if sp(e)]
        rest = [e for e in ex if not sp(e)]
        rng.shuffle(rest); ex = stale + rest[:2000 - len(stale)]
    rex = H.replay(v, ex, "expand")
    nun += H.judge_expanded(v, "C02", ex, rex)
    # two concurrent sessions: splicing, replays, re-addressing, two moves
    for fam in ("C", "Ch"):
        behs = H.tlc_family(v, fam)
        cap = 10**9 if thorough else 2500
        if len(behs) > cap:
            rng.shuffle(behs); behs = behs[:cap]
        res = H.replay(v, behs, fam)
        nun += H.judge(v, "C02", behs, res)
    v.cov["exhaustive"] = thorough
    if nun and not v.viol:
        raise lib.Inconclusive("%d behaviours differ between model and code in ways no property clause explains (see UNEXPLAINED lines)" % nun)
