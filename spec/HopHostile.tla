------------------------------ MODULE HopHostile ------------------------------
(* Frames and application-protocol bytes from an AUTHENTICATED but hostile peer (C11).        *)
(* The tube states come from HopTubes.tla / HopMux.tla.  A hostile frame is described by a     *)
(* class; HostileFrame(class) is specified as a step that leaves every OTHER tube untouched    *)
(* and never disables Stop; the frame's own tube may be reset or closed.  A decoder fed a       *)
(* byte string of some class returns a value or an error, and allocates memory in proportion   *)
(* to the bytes received.  TLC enumerates the class product (the edges to execute on the real  *)
(* muxer / decoders) and checks the postcondition in the model.                                *)
EXTENDS Integers, Sequences, FiniteSets, TLC, Json

TubeRefs == {"live-rel", "live-unrel", "closed-rel", "never-rel", "never-unrel", "witness",
             "finwait1-rel", "lastack-rel",     \* the victim has a FIN outstanding (it closed first / after the peer)
             "full-unrel"}                      \* an unreliable tube nobody reads, its receive queue exactly full
LenClasses == {"zero", "exact", "declared-less", "declared-more", "declared-max",
               "exact-huge"}                    \* consistent, but above the largest frame a regular sender produces
AckClasses == {"below", "current", "sent", "beyond", "max"}
NoClasses  == {"below", "next", "inwindow", "beyond"}
FlagSets   == 0..63                              \* REQ RESP REL ACK FIN RTR

FrameEdges == {<<t, l, a, n>> \in TubeRefs \X LenClasses \X AckClasses \X NoClasses : TRUE}

Decoders == {"userauth", "exec", "winsize", "pfaddr", "intent", "confdenial", "targetinfo", "proxyresponse",
             "execstatus"}      \* the CLIENT side: the execution status message from a hostile server
ByteClasses == {"empty", "truncated-header", "truncated-body", "length-gt-remaining", "length-max", "unknown-enum", "valid", "random"}
DecoderEdges == Decoders \X ByteClasses

(* The session layer (which tubes an admitted peer opens, in which order) is HopSession.tla.                    *)

VARIABLES others, stoppable, own
vars == <<others, stoppable, own>>
Init == others = "intact" /\ stoppable = TRUE /\ own \in {"open"}
HostileFrame(e) == /\ e \in FrameEdges
                   /\ others' = others /\ stoppable' = stoppable
                   /\ own' \in {"open", "closed"}
Next == \E e \in FrameEdges : HostileFrame(e)
Spec == Init /\ [][Next]_vars
OthersIntact == others = "intact"
Stoppable == stoppable
Emit == PrintT(<<"EDGES", ToJson([frames |-> {[t |-> e[1], l |-> e[2], a |-> e[3], n |-> e[4]] : e \in FrameEdges},
                                   decoders |-> {[d |-> e[1], c |-> e[2]] : e \in DecoderEdges}])>>)
=============================================================================
