--------------------------- MODULE MC_HopTransport ---------------------------
EXTENDS HopTransport, Json
(* maximal behaviours (step budget used up) are emitted for replay on a real established pair *)
View == <<sendCtr, acc, top, q, closed, cause, remote, pkts, sent, steps>>
(* Next-state relation used for SIMULATION only: the same actions, with the parameter space shaped so that a
   random walk writes first, delivers often (authentic deliveries weighted by a dummy parameter) and forges little. *)
GoodEnd(j) == IF pkts[j].dir = "c2s" THEN "s" ELSE "c"
SimBody == \/ \E e \in Ends : Write(e) \/ Ctl(e)
           \/ (steps >= 9 /\ \E e \in Ends : LocalClose(e))
           \/ \E j \in 1..MaxPk, e \in Ends, a \in Addrs, mut \in Muts : Deliver(j, e, a, mut)
           \/ \E j \in 1..MaxPk, a \in Addrs, w \in 1..12 : (j <= Len(pkts) /\ Deliver(j, GoodEnd(j), a, "none"))
           \/ \E e \in Ends, a \in {"x", "cb"}, kind \in {"data", "ctl"}, c \in {1, 1000} : Forge(e, a, kind, c)
SimNext == IF steps < 2 THEN \E e \in Ends : Write(e) ELSE SimBody
SimSpec == Init /\ [][SimNext]_vars
EmitBeh == steps = MaxSteps => PrintT(<<"BEH", ToJson([hist |-> hist, qc |-> q["c"], qs |-> q["s"]])>>)
=============================================================================
