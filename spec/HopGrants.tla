------------------------------- MODULE HopGrants -------------------------------
(* Target side of authorization grants (hopserver/target.go, session.go, hopserver.go,          *)
(* authgrants/authgrants.go): the grant store, admission of a delegate key, and what an admitted  *)
(* session may start.                                                                             *)
(*                                                                                                 *)
(* A grant has a type (shell, cmd with a text, localpf, remotepf), a validity window               *)
(* [start, exp), the user and the delegate key it was issued for.  AddGrant stores it and puts the *)
(* key into the transport key set; Connect(user, key) admits a session iff the store holds grants  *)
(* for that pair, moves ALL of them into the session, and removes the pair from the store and the  *)
(* key from the key set; Request(session, kind) starts the action iff the session holds a grant    *)
(* that matches the kind (same command text), is effective now and unused - the FIRST such grant   *)
(* in the session's list is consumed.                                                              *)
(*                                                                                                 *)
(* Switches describe where the code deviates from that:                                            *)
(*   CheckStart   FALSE: the start of the validity window is ignored (code as found)               *)
(*   CheckIssue   FALSE: an admitted delegate session may itself issue further grants (as found)    *)
(*   CheckPF      FALSE: port forwarding is not checked against grants at all (code as found AND    *)
(*                now: recorded finding)                                                            *)
EXTENDS Integers, Sequences, FiniteSets, TLC
CONSTANTS Palette,      \* set of grant records [id, type, cmd, start, exp, user, key]
          MaxAdd, MaxSess, MaxReq, MaxTime,
          CheckStart, CheckIssue, CheckPF, MaxToggle

Users == {g.user : g \in Palette}
Keys  == {g.key : g \in Palette}
Kinds == {[type |-> "shell", cmd |-> "-"], [type |-> "cmd", cmd |-> "A"], [type |-> "cmd", cmd |-> "AB"], [type |-> "cmd", cmd |-> "B"],
          [type |-> "localpf", cmd |-> "-"], [type |-> "remotepf", cmd |-> "-"], [type |-> "issue", cmd |-> "-"],
          [type |-> "pfdata", cmd |-> "-"]}     \* a port-forwarding DATA tube: proxied only along a forwarding that was authorized before
ById(i) == CHOOSE g \in Palette : g.id = i

VARIABLES now, added, store, keyset, sess, started, issued, nreq, enabled, ntog
vars == <<now, added, store, keyset, sess, started, issued, nreq, enabled, ntog>>
\* store: [<<user, key>> -> sequence of grant ids]; sess: sequence of [user, key, grants (sequence of ids)]
\* started: set of [sid, kind, grant (id or 0), at]; issued: grants issued by delegate sessions

Init == now = 0 /\ added = {} /\ store = [p \in Users \X Keys |-> <<>>] /\ keyset = {} /\ sess = <<>> /\ started = {}
        /\ issued = 0 /\ nreq = 0 /\ enabled = TRUE /\ ntog = 0

(* the operator switches authorization grants off or on (the flag is read live by the server) *)
Toggle == /\ MaxToggle > 0 /\ ntog < MaxToggle /\ enabled' = ~enabled /\ ntog' = ntog + 1
          /\ UNCHANGED <<now, added, store, keyset, sess, started, issued, nreq>>

AddGrant(g) ==
    /\ enabled                                   \* while grants are off nothing is recorded
    /\ g \notin added /\ Cardinality(added) < MaxAdd
    /\ added' = added \cup {g}
    /\ store' = [store EXCEPT ![<<g.user, g.key>>] = Append(@, g.id)]
    /\ keyset' = keyset \cup {g.key}
    /\ UNCHANGED <<now, sess, started, issued, nreq, enabled, ntog>>

Tick == now < MaxTime /\ now' = now + 1 /\ UNCHANGED <<added, store, keyset, sess, started, issued, nreq, enabled, ntog>>

Admits(u, k) == enabled /\ store[<<u, k>>] # <<>>      \* a stored grant admits nobody while grants are switched off
Connect(u, k) ==
    /\ Len(sess) < MaxSess
    /\ IF Admits(u, k)
       THEN /\ sess' = Append(sess, [user |-> u, key |-> k, grants |-> store[<<u, k>>], ok |-> TRUE, en |-> enabled, fwd |-> FALSE])
            /\ store' = [store EXCEPT ![<<u, k>>] = <<>>]
            /\ keyset' = keyset \ {k}
       ELSE /\ sess' = Append(sess, [user |-> u, key |-> k, grants |-> <<>>, ok |-> FALSE, en |-> enabled, fwd |-> FALSE])
            /\ UNCHANGED <<store, keyset>>
    /\ UNCHANGED <<now, added, started, issued, nreq, enabled, ntog>>

Effective(g) == (CheckStart => g.start <= now) /\ now < g.exp
Matches(g, kd) == g.type = kd.type /\ (kd.type = "cmd" => g.cmd = kd.cmd)
Usable(s, kd) == {i \in 1..Len(sess[s].grants) : Effective(ById(sess[s].grants[i])) /\ Matches(ById(sess[s].grants[i]), kd)}
RemoveAt(q, i) == SubSeq(q, 1, i - 1) \o SubSeq(q, i + 1, Len(q))
Min(S) == CHOOSE x \in S : \A y \in S : x <= y

Request(s, kd) ==
    /\ s \in 1..Len(sess) /\ sess[s].ok /\ nreq < MaxReq /\ nreq' = nreq + 1
    /\ IF kd.type = "pfdata"
       THEN /\ IF sess[s].fwd \/ ~CheckPF
               THEN started' = started \cup {[sid |-> s, kind |-> kd, grant |-> -1, at |-> now, n |-> nreq]}
               ELSE UNCHANGED started
            /\ UNCHANGED <<sess, issued>>
       ELSE IF kd.type = "issue"
       THEN /\ IF CheckIssue THEN UNCHANGED <<started, issued>>
               ELSE started' = started \cup {[sid |-> s, kind |-> kd, grant |-> 0, at |-> now, n |-> nreq]} /\ issued' = issued + 1
            /\ UNCHANGED sess
       ELSE IF kd.type \in {"localpf", "remotepf"} /\ ~CheckPF
       THEN /\ started' = started \cup {[sid |-> s, kind |-> kd, grant |-> 0, at |-> now, n |-> nreq]}
            /\ UNCHANGED <<sess, issued>>
       ELSE IF Usable(s, kd) # {}
       THEN LET i == Min(Usable(s, kd)) IN
            /\ started' = started \cup {[sid |-> s, kind |-> kd, grant |-> sess[s].grants[i], at |-> now, n |-> nreq]}
            /\ sess' = [sess EXCEPT ![s].grants = RemoveAt(@, i), ![s].fwd = @ \/ kd.type = "localpf"]
            /\ UNCHANGED issued
       ELSE UNCHANGED <<sess, started, issued>>
    /\ UNCHANGED <<now, added, store, keyset, enabled, ntog>>

Next == \/ \E g \in Palette : AddGrant(g)
        \/ Tick \/ Toggle
        \/ \E u \in Users, k \in Keys : Connect(u, k)
        \/ \E s \in 1..MaxSess, kd \in Kinds : Request(s, kd)
Spec == Init /\ [][Next]_vars

-----------------------------------------------------------------------------
(* C07 *)
(* every started action is justified by a grant for the session's user and key, of the same kind and text, *)
(* effective when the action started *)
Justified == \A a \in started :
              IF a.grant = -1                                   \* data tube: a local forwarding was started in this session before
              THEN \E b \in started : b.sid = a.sid /\ b.kind.type = "localpf" /\ b.grant > 0 /\ b.n < a.n
              ELSE
                /\ a.grant # 0
                /\ LET g == ById(a.grant) IN
                   /\ g \in added /\ g.user = sess[a.sid].user /\ g.key = sess[a.sid].key
                   /\ g.type = a.kind.type /\ (a.kind.type = "cmd" => g.cmd = a.kind.cmd)
                   /\ g.start <= a.at /\ a.at < g.exp
(* each grant authorizes a single action, in whatever session *)
SingleUse == \A a, b \in started : (a.grant > 0 /\ a.grant = b.grant) => a = b
(* a grant lives in exactly one place: the store, one session, or it is used up *)
OnePlace == \A g \in added :
               Cardinality({p \in DOMAIN store : \E i \in 1..Len(store[p]) : store[p][i] = g.id})
             + Cardinality({s \in 1..Len(sess) : \E i \in 1..Len(sess[s].grants) : sess[s].grants[i] = g.id})
             + Cardinality({a \in started : a.grant = g.id}) <= 1
(* a session is admitted only while grants are enabled - recorded at admission *)
AdmittedOnlyWhenEnabled == \A s \in 1..Len(sess) : sess[s].ok => sess[s].en
(* grants are usable only by the key they name: a session only ever holds grants of its own user and key *)
OwnGrantsOnly == \A s \in 1..Len(sess) : \A i \in 1..Len(sess[s].grants) :
                    ById(sess[s].grants[i]).user = sess[s].user /\ ById(sess[s].grants[i]).key = sess[s].key
NoIssuing == issued = 0
=============================================================================
