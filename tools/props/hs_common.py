# Shared machinery for the handshake properties (C01, C02, part of C19): run a family of
# MC_HopHandshake, replay every emitted maximal behaviour on real endpoints (cmd/hsreplay),
# classify differences.
#
# Verdict classes (a VIOLATION is always a real-code outcome that contradicts a property clause,
# computed from scenario facts emitted by TLC, never "the model disagrees"):
#   C01/V1  a real client completed although the server instance it talked to does not satisfy the
#           client's policy or does not hold the key named in its certificate
#   C01/V3  a real server offered/established a connection whose client certificate no client
#           satisfying the server's policy (and, discoverable mode, holding its key) presented
#   C02/V2  a real client completed although it consumed a datagram changed in flight
#   C02/V4  a real server accepted more connections than the specification admits in a behaviour
#           where a client->server datagram of that session was changed in flight
#   C02/V5  both sides completed with the same session id but different keys; c2s key = s2c key;
#           two sessions sharing a key
#   other differences between model and code are "unexplained" (exit 2, never a violation)
import json, os, re, random
import lib

def hist_str(b):
    out = []
    for s in b["hist"]:
        x = "%s%s" % (s["s"] if s["s"] else "", s["hop"])
        if s["mv"] != "ok":
            x += ":" + s["mv"] + ("(" + s["f"] + ")" if s["f"] != "-" else "")
        if "off" in s:
            x += "@%d^%02x" % (s["off"], s.get("mask", 0))
        if s.get("cutzero"):
            x += "-zerotail"
        elif "cut" in s:
            x += "-%s" % s["cut"]
        out.append(x)
    return " ".join(out)

def scen_str(b):
    cs = ["%s/%s/%s" % (c["cert"], c["key"], c["pol"]) for c in b["ccfg"]]
    return "mode=%s dial=%s client=%s" % (",".join(b["mode"]), ",".join(b["dial"]), ",".join(cs))

def tlc_family(v, fam, timeout=3000):
    r = lib.tlc("MC_HopHandshake", "MC_HopHandshake_%s.cfg" % fam, timeout=timeout)
    lib.tlc_must_pass(r, "MC_HopHandshake_" + fam)
    v.add_tlc("MC_HopHandshake_%s" % fam, r)
    behs = [json.loads(m.group(1).replace('\\"', '"')) for m in re.finditer(r'^<<"BEH", "(.*)">>$', r.out, re.M)]
    if not behs:
        raise lib.Inconclusive("family %s emitted no behaviours" % fam)
    return behs

def selftest_mutant(v):
    """Design-stage sensitivity: a client that only logs the final ServerAuth MAC must violate C01/C02."""
    r = lib.tlc("MC_HopHandshake", "MC_HopHandshake_Abug.cfg", timeout=600)
    if r.kind != "invariant" or r.violated not in ("C01Client", "C02Client"):
        raise lib.Inconclusive("self-test: EnforceSAMac=FALSE not detected by the model (%s %s)" % (r.kind, r.violated))
    v.cov["selftest_design_mutant_detected"] = r.violated

def expand_bytes(behs, lens_of, rng, per_field, all_bytes, masks):
    """Byte-level expansion of honest behaviours: for every hop and field, concrete offsets/masks; truncations."""
    import copy
    out = []
    for b in behs:
        steps = [s for s in b["hist"] if s["hop"] not in ("start", "rotate", "tick")]
        if any(s["mv"] != "ok" for s in b["hist"]):
            continue
        lens = lens_of(b)
        if not lens:
            continue
        for k, s in enumerate(b["hist"]):
            if s["hop"] in ("start", "rotate", "tick"):
                continue
            key = "%d%s" % (s["s"], s["hop"])
            if key not in lens:
                continue
            n = lens[key]
            # truncations
            cuts = list(range(1, n)) if all_bytes else sorted(set([1, 2, 15, 16, 17, 31, 32, 33, n // 2, n - 5, n - 4, n - 3, n - 1] + [rng.randrange(1, n) for _ in range(per_field)]))
            for c in cuts:
                if 0 < c < n:
                    nb = copy.deepcopy(b); nb["xk"] = k
                    nb["hist"][k].update(mv="trunc", cut=c)
                    nb["expand"] = True
                    out.append(nb)
            # the same datagram seen first from another address, then a truncated copy on the right path (a receiver
            # that reads past the end of a short datagram finds the bytes of the previous one there)
            if s["hop"] in ("CA", "CL", "HR"):
                for c in (range(1, 49) if all_bytes else [1, 2, 8, 15, 16, 17, 32]):
                    if c < n:
                        nb = copy.deepcopy(b); nb["xk"] = k + 1
                        nb["hist"][k].update(mv="readdr")
                        nb["hist"].insert(k + 1, dict(s=s["s"], hop=s["hop"], mv="replay", f="-", cut=c, alt=True))
                        nb["expand"] = True
                        out.append(nb)
            # a datagram whose last byte(s) are zero, cut by exactly those bytes
            nb = copy.deepcopy(b); nb["xk"] = k
            nb["hist"][k].update(mv="trunc", cut=0, cutzero=True); nb["expand"] = True
            out.append(nb)
            offs = range(n) if all_bytes else sorted(set([0, 1, 2, 3, 4, n - 1, n - 16, n - 17, n - 32, n - 33] + [rng.randrange(0, n) for _ in range(per_field * 3)]))
            for off in offs:
                if not (0 <= off < n):
                    continue
                for mask in (masks if all_bytes else [masks[rng.randrange(len(masks))]]):
                    nb = copy.deepcopy(b); nb["xk"] = k
                    nb["hist"][k].update(mv="tamper", f="?", off=off, mask=mask)
                    nb["expand"] = True
                    out.append(nb)
    return out

def replay(v, behs, tag):
    binp = lib.go_build("hsreplay")
    sd = lib.scratch("vf-hs-")
    bf, of = os.path.join(sd, tag + ".jsonl"), os.path.join(sd, tag + ".out")
    with open(bf, "w") as fh:
        for b in behs:
            fh.write(json.dumps(b) + "\n")
    rc, so, se = lib.run([binp, bf, of, str(lib.seed()), "192"], timeout=3000)
    if rc != 0:
        raise lib.Inconclusive("hsreplay failed: " + (so + se)[-3000:])
    res = {}
    for r in lib.read_ndjson(of):
        res[r["i"]] = r
    if len(res) != len(behs):
        raise lib.Inconclusive("hsreplay returned %d results for %d behaviours" % (len(res), len(behs)))
    return [res[i] for i in range(len(behs))]

C2S = ("CH", "CA", "CL", "HR")

def classify(b, r):
    """returns (violations: list of (prop, cls, text)), unexplained: list of text)"""
    viol, unex = [], []
    if "err" in r:
        return [], ["replayer: " + r["err"]]
    n = len(b["mode"])
    steps = r.get("steps") or []
    # what each party consumed that was changed in flight (lock-step: a client consumes every datagram delivered
    # while its handshake is running; a server "consumes" a ClientAck it answers and a ClientAuth / hidden request
    # it completes on)
    cli_consumed_alt = [False] * n
    srv_alt_complete = []
    ca_alt_answered = [False] * n
    for st, ob in zip(b["hist"], steps):
        if st["s"] == 0 or not st.get("alt"):
            continue
        i, h = st["s"] - 1, st["hop"]
        if h in ("SH", "SA", "HP") and not ob["clifin"]:
            cli_consumed_alt[i] = True
        if h in ("CL", "HR") and ob["acc"] > 0:
            srv_alt_complete.append((i, h))
        if h == "CA" and ob["sent"] > 0:
            ca_alt_answered[i] = True
    for st, ob in zip(b["hist"], steps):
        if st["s"] and st["hop"] == "CL" and ob["acc"] > 0 and ca_alt_answered[st["s"] - 1]:
            srv_alt_complete.append((st["s"] - 1, "CA"))
    for (i, h) in srv_alt_complete:
        viol.append(("C02", "V4", "server %s completed the handshake of session %d although the %s it consumed was changed in flight" % (b["dial"][i], i + 1, h)))
    for i in range(n):
        m = b["cl"][i]
        mdone, rdone = m["st"] == "done", r["done"][i]
        if rdone and not m["srvOK"]:
            viol.append(("C01", "V1", "client %d completed with server instance %s, which does not hold the key named in the certificate it presented or whose certificate does not verify under the client's policy" % (i + 1, b["dial"][i])))
        if rdone and cli_consumed_alt[i]:
            viol.append(("C02", "V2", "client %d completed although it consumed a datagram changed in flight" % (i + 1)))
        if rdone and not mdone and m["srvOK"] and not cli_consumed_alt[i]:
            unex.append("client %d: model %s, real done" % (i + 1, m["st"]))
        if mdone and not rdone:
            unex.append("client %d: model done, real not done" % (i + 1))
        if r["keysdiff"][i]:
            viol.append(("C02", "V5", "session of client %d: same session id but different keys, or a key shared with another session" % (i + 1)))
        if rdone and r["c2s_eq_s2c"][i]:
            viol.append(("C02", "V5", "client %d: the two directions use the same key" % (i + 1)))
        if rdone and mdone and m["agree"] and not (r["agree"][i] and r["probe"][i]):
            unex.append("client %d: model agrees on keys, real agree=%s probe=%s" % (i + 1, r["agree"][i], r["probe"][i]))
    for s, so in b["srv"].items():
        racc = r["acc"].get(s, 0)
        leafs = r["leafs"].get(s, [])
        for leaf in leafs:
            pres = [i for i in range(n) if b["dial"][i] == s and b["ccfg"][i]["cert"] == leaf]
            ok = any(b["cl"][i]["cliPol"] and (b["cl"][i]["cliKey"] or b["mode"][i] == "hid") for i in pres)
            if not ok:
                viol.append(("C01", "V3", "server %s offered a connection for client certificate %s, which no client satisfying its policy (and, in discoverable mode, holding its key) presented" % (s, leaf)))
        if racc != so["acc"] and not viol:
            unex.append("server %s: accepted model=%d real=%d" % (s, so["acc"], racc))
        for f in ("nhs", "nsess", "sent"):
            if so[f] != r[f].get(s, 0) and not viol:
                unex.append("server %s: %s model=%d real=%d" % (s, f, so[f], r[f].get(s, 0)))
    return viol, unex

def judge(v, pid, behs, results, sample_every=997):
    """Record violations of property pid; returns number of unexplained differences."""
    nun = 0
    for k, (b, r) in enumerate(zip(behs, results)):
        v.case((scen_str(b), hist_str(b)), nontrivial=any(s["mv"] != "ok" for s in b["hist"]) or not all(c["srvOK"] and c["cliOK"] for c in b["cl"]))
        viol, unex = classify(b, r)
        for prop, cls, text in viol:
            if prop != pid:
                v.count("violations_of_other_properties_seen")
                continue
            sig = "%s %s | %s | %s" % (cls, scen_str(b), hist_str(b), text)
            v.violation(sig, "replayed on real transport endpoints over the simulated wire (mutations: %s)" % (r.get("muts"),), dict(behaviour=b, real=r))
        if unex:
            nun += 1
            if nun <= 5:
                lib.log("UNEXPLAINED %s | %s | %s" % (scen_str(b), hist_str(b), "; ".join(unex)))
        if k % sample_every == 0:
            v.sample(dict(kind="TLC behaviour replayed on real endpoints", scenario=scen_str(b), steps=hist_str(b),
                          model=dict(clients=[c["st"] for c in b["cl"]], accepted={s: o["acc"] for s, o in b["srv"].items()}),
                          real=dict(done=r.get("done"), accepted=r.get("acc"), agree=r.get("agree"), probe=r.get("probe"))))
    v.count("behaviours_replayed_into_impl", len(behs))
    v.cov["traces_validated_against_impl"] += len(behs)
    v.count("unexplained_differences", nun)
    return nun

def judge_expanded(v, pid, behs, results):
    """Byte-level expansions: one step of an honest run is replaced by a concrete tamper/truncate, the rest of the
    handshake runs honestly; the party that received the changed datagram must not complete."""
    nun = 0
    for b, r in zip(behs, results):
        xk = b["xk"]
        last = dict(b["hist"][xk])
        i, h = last["s"] - 1, last["hop"]
        if last.get("cutzero"):
            last["cut"] = "its trailing zero byte(s)"
        what = ("byte %d ^ 0x%02x" % (last["off"], last["mask"])) if last["mv"] == "tamper" else ("truncated by %s%s" % (last["cut"], " after the server saw the full datagram from another address" if last["mv"] == "replay" else ""))
        shown = dict(hist=b["hist"][:xk + 1])
        v.case(("x", scen_str(b), hist_str(shown)), nontrivial=True)
        if "err" in r:
            if "no pending message" in r["err"] or "no datagram ending" in r["err"]:
                continue      # the handshake stopped at the changed datagram (nothing further to deliver)
            nun += 1
            if nun <= 5:
                lib.log("UNEXPLAINED expansion %s | %s | %s" % (scen_str(b), hist_str(shown), r["err"]))
            continue
        s = b["dial"][i]
        bad = None
        steps = r.get("steps") or []
        acc_from = sum(o["acc"] for o in steps[xk:])
        if h in ("SH", "SA", "HP") and r["done"][i]:
            bad = ("V2", "client completed after consuming %s with %s" % (h, what))
        if h in ("CA", "CL", "HR") and acc_from > 0:
            bad = ("V4", "server completed the handshake after consuming %s with %s" % (h, what))
        if bad and pid == "C02":
            v.violation("%s %s | %s | %s" % (bad[0], scen_str(b), hist_str(shown), bad[1]),
                        "byte-level expansion replayed on real endpoints", dict(behaviour=dict(mode=b["mode"], dial=b["dial"], ccfg=b["ccfg"], hist=b["hist"]), real=r))
    v.count("byte_level_expansions_replayed", len(behs))
    v.cov["traces_validated_against_impl"] += len(behs)
    v.count("unexplained_differences", nun)
    return nun
