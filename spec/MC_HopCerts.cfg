SPECIFICATION Spec
CONSTANTS K = 3
INVARIANTS DecideIsValidChain BasesValid Issuance Emit
CHECK_DEADLOCK FALSE
