SPECIFICATION MCSpec
CONSTANTS
  Palette <- Pal
  MaxAdd = 3  MaxSess = 2  MaxReq = 3  MaxTime = 3
  CheckStart = TRUE  CheckIssue = TRUE  CheckPF = TRUE  MaxToggle = 1
INVARIANTS Justified SingleUse OnePlace OwnGrantsOnly NoIssuing AdmittedOnlyWhenEnabled
CHECK_DEADLOCK FALSE
