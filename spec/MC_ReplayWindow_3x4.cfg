SPECIFICATION Spec
CONSTANTS NumBlocks = 3  BlockSize = 4  MaxSeq = 27  ClearCap = 3
INVARIANTS TypeOK Equiv Refines
CHECK_DEADLOCK FALSE
