SPECIFICATION Spec
CONSTANTS N = 3  Win = 1000  MaxSteps = 4
INVARIANTS InOrderNoGapsNoDups AckIsNextMinusOne FragsAboveWindowStart EmitBeh
CHECK_DEADLOCK FALSE
