------------------------ MODULE Trace_ReplayWindow ------------------------
(* Trace validation for C14: events recorded from the real transport.SlidingWindow are       *)
(* replayed against the SET specification with the real window size.  Explanation layer:     *)
(* every event is consumed whatever its logged result; property layer: the invariant         *)
(* ResultMatchesSpec judges the logged result of each check against SpecCheck.               *)
(* Counters are logged relative to a per-trace base (TLC integers are 32-bit); the spec is   *)
(* translation invariant because `top` starts undefined.                                      *)
EXTENDS Integers, Sequences, FiniteSets, TLC, Json

CONSTANTS W          \* 448 for the real filter
None == -1

Trace == ndJsonDeserialize("trace.ndjson")

VARIABLES l,          \* next line to consume
          accepted, top,
          lastOK      \* verdict of the property layer on the line just consumed
vars == <<l, accepted, top, lastOK>>

SpecCheck(s) == s \notin accepted /\ (top = None \/ s + W >= top)
Ev == Trace[l]

Init == l = 1 /\ accepted = {} /\ top = None /\ lastOK = TRUE

Reset == Ev.ev = "reset" /\ accepted' = {} /\ top' = None /\ lastOK' = TRUE

Check == /\ Ev.ev = "check"
         /\ lastOK' = (Ev.got = SpecCheck(Ev.rel))
         /\ UNCHANGED <<accepted, top>>

Mark == /\ Ev.ev = "mark"
        /\ IF top # None /\ Ev.rel + W < top
           THEN UNCHANGED <<accepted, top>>
           ELSE /\ top' = (IF top = None \/ Ev.rel > top THEN Ev.rel ELSE top)
                /\ accepted' = {a \in accepted \cup {Ev.rel} : a + W >= top'}
        /\ lastOK' = TRUE

Next == l <= Len(Trace) /\ l' = l + 1 /\ (Reset \/ Check \/ Mark)
Spec == Init /\ [][Next]_vars

ResultMatchesSpec == lastOK
HW == TLCSet(1, l)
Accepted == TLCGet(1) = Len(Trace) + 1
=============================================================================
