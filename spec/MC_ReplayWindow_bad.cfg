SPECIFICATION Spec
CONSTANTS NumBlocks = 4  BlockSize = 4  MaxSeq = 36  ClearCap = 3
INVARIANTS Equiv
CHECK_DEADLOCK FALSE
