// c10 throws unauthenticated datagrams of every class at real transport endpoints in every endpoint
// state and server configuration, and probes liveness.  Each (configuration, state) group runs in a child
// process of its own so that a panic in any goroutine of the code under test is attributed to the
// datagram logged just before it.
//
//	c10 child <cfg> <state> <seed> <thorough:0|1> <out.ndjson>
//	c10 list                                   prints the (cfg, state) groups
package main

import (
	"bytes"
	"encoding/binary"
	"encoding/hex"
	"fmt"
	"io"
	"math/rand"
	"net"
	"os"
	"strconv"
	"strings"
	"time"

	"github.com/sirupsen/logrus"

	"hop.computer/hop/certs"
	"hop.computer/hop/keys"
	"hop.computer/hop/kravatte"
	"hop.computer/hop/transport"
	"verif/harness/hopkit"
	"verif/harness/rec"
	"verif/harness/simwire"
)

var cfgs = []string{"one", "vhosts", "hidden1", "hidden2"}
var states = []string{"idle", "pending", "established", "closed", "client-wSH", "client-wSA", "client-wHP", "client-open",
	"env-sni", "env-certs", "env-srvcerts"}

var (
	pki       *hopkit.PKI
	cid       *hopkit.Ident
	ids       []*hopkit.Ident
	kems      []*keys.KEMKeyPair
	sa        = simwire.Addr("10.0.0.1", 77)
	addrA     = simwire.Addr("10.0.1.1", 1001)
	freshBase = 0
)

func srvOpt(cfg string) hopkit.SrvOpt {
	switch cfg {
	case "one":
		return hopkit.SrvOpt{Ident: ids[0], KEM: kems[0]}
	case "vhosts": // literal, wildcard-suffix and catch-all patterns
		return hopkit.SrvOpt{Ident: ids[0], KEM: kems[0], Extra: ids[1:3], ExtraKEM: kems[1:3], Patterns: []string{"a.example", "*.b.example", "*"}}
	case "one-nokem": // a discoverable-only server that has no KEM key at all
		return hopkit.SrvOpt{Ident: ids[0]}
	case "one-authkeys": // clients are verified against authorized keys and the CA store
		return hopkit.SrvOpt{Ident: ids[0], KEM: kems[0], ClientVerify: pki.Policy("both", "", cid.Key.Public)}
	case "vhosts-strict": // named blocks only: a name that matches none of them has no certificate
		return hopkit.SrvOpt{Ident: ids[0], KEM: kems[0], Extra: ids[1:2], ExtraKEM: kems[1:2], Patterns: []string{"a.example", "*.b.example"}}
	case "hidden1":
		return hopkit.SrvOpt{Ident: ids[0], KEM: kems[0], Hidden: true}
	case "hidden2":
		return hopkit.SrvOpt{Ident: ids[0], KEM: kems[0], Hidden: true, Extra: ids[1:3], ExtraKEM: kems[1:3], Patterns: []string{"a.example", "*.b.example", "*"}}
	}
	panic(cfg)
}

func nvhOf(cfg string) int {
	switch cfg {
	case "vhosts", "hidden2":
		return 3
	case "vhosts-strict":
		return 2
	}
	return 1
}

func hiddenCfg(cfg string) bool { return cfg == "hidden1" || cfg == "hidden2" }

func cliOpt(cfg string, which int) hopkit.CliOpt {
	names := []string{"a.example", "x.b.example", "c.example"}
	o := hopkit.CliOpt{Ident: cid, Verify: pki.Policy("store", names[which])}
	if hiddenCfg(cfg) {
		o.ServerKEM = &kems[which].Public
	}
	return o
}

func fresh() *net.UDPAddr {
	freshBase++
	return &net.UDPAddr{IP: net.IPv4(10, 9, byte(freshBase>>8), byte(freshBase)), Port: 2000 + freshBase%30000}
}

// stepClient advances a started client by k message exchanges with s; returns the client->server datagrams
// seen, delivering all but (optionally) the last one.
func exchange(w *hopkit.World, s *hopkit.Srv, c *hopkit.Cli, msgs int, holdLast bool) (sent [][]byte, lastReply [][]byte) {
	for len(sent) < msgs {
		if err := c.WaitStep(); err != nil {
			panic(err)
		}
		ds := w.Net.TakeFrom(c.EP)
		if len(ds) == 0 {
			return
		}
		for _, d := range ds {
			sent = append(sent, d.Data)
			if len(sent) == msgs && holdLast {
				return
			}
			if err := s.EP.Deliver(d.Data, d.From, hopkit.StepTimeout); err != nil {
				panic(err)
			}
		}
		lastReply = nil
		for _, d := range w.Net.TakeFrom(s.EP) {
			lastReply = append(lastReply, d.Data)
			if len(sent) < msgs {
				c.EP.Inject(d.Data, d.From)
			}
		}
	}
	return
}

type junk struct {
	class string
	data  []byte
}

func lengthsOf(n int, thorough bool, rng *rand.Rand) []int {
	if thorough {
		out := make([]int, 0, n)
		for i := 0; i < n; i++ {
			out = append(out, i)
		}
		return out
	}
	set := map[int]bool{}
	for _, l := range []int{0, 1, 2, 3, 4, 5, 7, 8, 9, 15, 16, 17, 31, 32, 33, 47, 48, 49, n - 33, n - 32, n - 17, n - 16, n - 15, n - 2, n - 1} {
		if l >= 0 && l < n {
			set[l] = true
		}
	}
	for k := 0; k < 6; k++ {
		set[rng.Intn(n)] = true
	}
	var out []int
	for l := range set {
		out = append(out, l)
	}
	return out
}

// catalogue builds the junk datagrams from genuine ones (truncations, field mutations) plus typed random ones.
func catalogue(genuine map[string][]byte, liveSid []byte, thorough bool, rng *rand.Rand) (out []junk) {
	for name, g := range genuine {
		for _, l := range lengthsOf(len(g), thorough, rng) {
			out = append(out, junk{"trunc:" + name, g[:l]})
		}
		for _, f := range hopkit.Layout(g) {
			if f.Len <= 0 {
				continue
			}
			reps := 2
			if thorough {
				reps = 6
			}
			for r := 0; r < reps; r++ {
				m := append([]byte(nil), g...)
				off := f.Off + []int{0, f.Len - 1, rng.Intn(f.Len)}[r%3]
				m[off] ^= []byte{0x01, 0x80, 0xff}[rng.Intn(3)]
				out = append(out, junk{"mut:" + name + "." + f.Name, m})
			}
			// length fields: every interesting declared length
			if f.Name == "len" {
				for _, v := range []int{0, 1, 4, 5, 0x7fff, 0xffff, len(g), len(g) - 1, len(g) + 1, len(g) - 40} {
					if v < 0 {
						continue
					}
					m := append([]byte(nil), g...)
					m[f.Off], m[f.Off+1] = byte(v>>8), byte(v)
					out = append(out, junk{"len:" + name, m})
				}
			}
		}
		out = append(out, junk{"extend:" + name, append(append([]byte(nil), g...), make([]byte, 1+rng.Intn(40))...)})
	}
	types := []byte{0x00, 0x01, 0x02, 0x03, 0x04, 0x05, 0x06, 0x07, 0x08, 0x09, 0x0a, 0x0f, 0x10, 0x11, 0x18, 0x20, 0x7f, 0x80, 0x81, 0x90, 0xff}
	lens := []int{4, 7, 8, 12, 15, 16, 31, 47, 48, 49, 64, 100, 819, 820, 821, 1171, 1172, 1173, 2000, 65000}
	for _, t := range types {
		for _, l := range lens {
			b := make([]byte, l)
			rng.Read(b)
			b[0] = t
			if rng.Intn(2) == 0 && l >= 4 {
				b[1], b[2], b[3] = 0, 0, 0
			}
			if t == 0x01 || t == 0x08 {
				b[1] = transport.Version
			}
			out = append(out, junk{fmt.Sprintf("typed:%02x", t), b})
			if liveSid != nil && l >= 8 {
				bb := append([]byte(nil), b...)
				bb[1], bb[2], bb[3] = 0, 0, 0
				copy(bb[4:8], liveSid)
				out = append(out, junk{fmt.Sprintf("typed-livesid:%02x", t), bb})
			}
		}
	}
	for _, l := range []int{0, 1, 2, 3} {
		out = append(out, junk{"tiny", make([]byte, l)})
	}
	return
}

// sealTrivial builds a transport-layer datagram for session sid, sealed under a key of 32 equal bytes.
func sealTrivial(mt byte, sid []byte, ctr uint64, keyByte byte) []byte {
	pkt := []byte{mt, 0, 0, 0}
	pkt = append(pkt, sid...)
	var c [8]byte
	binary.BigEndian.PutUint64(c[:], ctr)
	pkt = append(pkt, c[:]...)
	aead, err := kravatte.NewSANSE(bytes.Repeat([]byte{keyByte}, transport.KeyLen))
	if err != nil {
		panic(err)
	}
	body := []byte("forged")
	if mt == byte(transport.MessageTypeControl) {
		body = []byte{byte(transport.ControlMessageClose)}
	}
	return aead.Seal(pkt, nil, body, pkt[:transport.AssociatedDataLen])
}

func must(err error) {
	if err != nil {
		panic(err)
	}
}

func probeHandshake(cfg string, w *hopkit.World, s *hopkit.Srv, which int) error {
	c := w.NewClient(fresh(), sa, cliOpt(cfg, which))
	err := w.RunHandshake(c, s)
	if err == nil {
		if _, e := s.T.AcceptTimeout(500 * time.Millisecond); e != nil {
			err = fmt.Errorf("probe connection not offered: %v", e)
		}
	}
	c.T.Close()
	return err
}

func probeSession(w *hopkit.World, s *hopkit.Srv, c *hopkit.Cli, h *transport.Handle, k int) error {
	msg := []byte(fmt.Sprintf("probe-%d", k))
	if err := c.T.WriteMsg(msg); err != nil {
		return fmt.Errorf("client write: %v", err)
	}
	for _, d := range w.Net.TakeFrom(c.EP) {
		must(s.EP.Deliver(d.Data, d.From, hopkit.StepTimeout))
	}
	buf := make([]byte, 200)
	h.SetReadDeadline(time.Now().Add(200 * time.Millisecond))
	n, err := h.ReadMsg(buf)
	if err != nil || string(buf[:n]) != string(msg) {
		return fmt.Errorf("server read %q, %v", buf[:n], err)
	}
	if err := h.WriteMsg(msg); err != nil {
		return fmt.Errorf("server write: %v", err)
	}
	for _, d := range w.Net.TakeFrom(s.EP) {
		c.EP.Inject(d.Data, d.From)
	}
	c.T.SetReadDeadline(time.Now().Add(200 * time.Millisecond))
	n, err = c.T.ReadMsg(buf)
	if err != nil || string(buf[:n]) != string(msg) {
		return fmt.Errorf("client read %q, %v", buf[:n], err)
	}
	return nil
}

func errs(e error) string {
	if e == nil {
		return "ok"
	}
	return e.Error()
}

// hostileCerts: byte strings presented as certificates inside a correctly encrypted and authenticated
// handshake message: every truncation of a real certificate, field-boundary cuts, random bytes, length extremes.
func hostileCerts(real []byte, rng *rand.Rand) (out [][]byte) {
	for l := 0; l <= len(real); l++ {
		out = append(out, real[:l])
	}
	for k := 0; k < 40; k++ {
		m := append([]byte(nil), real...)
		m[rng.Intn(len(m))] ^= byte(1 << uint(rng.Intn(8)))
		out = append(out, m)
	}
	for _, l := range []int{1, 2, 3, 4, 64, 200, 1000, 30000} {
		b := make([]byte, l)
		rng.Read(b)
		out = append(out, b)
	}
	out = append(out, append(append([]byte(nil), real...), make([]byte, 50)...))
	// well-formed certificates of the wrong kind: a root, an intermediate, a leaf of somebody else
	for _, c := range []*certs.Certificate{pki.TRoot, pki.TInter, pki.FRoot, ids[0].Leaf} {
		if b, err := c.Marshal(); err == nil {
			out = append(out, b, b) // twice: the second one meets whatever the first left behind
		}
	}
	return
}

// envelope: protocol-following hostile peers.  The messages are well-formed, encrypted and authenticated; their
// CONTENT (server name, certificate bytes) is hostile.  Nothing here needs a key the adversary does not own.
func envelope(cfg, state string, rng *rand.Rand, w *rec.W) {
	wd := hopkit.NewWorld()
	nvh := nvhOf(cfg)
	k := 0
	logCase := func(class string, n int, hexs string) {
		w.Ev("case", "k", k, "class", class, "len", n, "src", "-", "hex", hexs)
		w.Flush()
		k++
	}
	switch state {
	case "env-sni": // ClientAck carrying any server name: every type byte, label lengths 0/1/252, labels aimed at the patterns
		if hiddenCfg(cfg) {
			w.Ev("skip", "why", "no server name in the hidden handshake")
			return
		}
		s := wd.NewServer(sa, srvOpt(cfg))
		w.Ev("group", "cfg", cfg, "state", state, "genuine", 0)
		labels := [][]byte{nil, {}, []byte("a"), []byte("a.example"), []byte("x.b.example"), []byte(".b.example"), []byte("*"), []byte("**"),
			[]byte("zzz"), make([]byte, 252), []byte("a.example\x00"), {0xff, 0xfe}}
		for t := 0; t < 256; t++ {
			for li, lab := range labels {
				if t > 8 && li > 3 && t%16 != 0 {
					continue
				}
				o := cliOpt(cfg, 0)
				o.Verify.Name = certsName(byte(t), lab)
				logCase(fmt.Sprintf("envelope:sni type=%d label#%d", t, li), len(lab), hex.EncodeToString(lab[:min(len(lab), 16)]))
				c := wd.NewClient(fresh(), sa, o)
				_ = wd.RunHandshake(c, s) // may fail; must not crash or wedge
				c.T.Close()
				if err := s.EP.WaitIdle(2 * time.Second); err != nil {
					w.Ev("probe", "k", k, "class", "envelope:sni", "session", "ok", "handshake", "server no longer reads datagrams")
					return
				}
				for {
					if _, err := s.T.AcceptTimeout(200 * time.Microsecond); err != nil {
						break
					}
				}
				if k%60 == 0 {
					w.Ev("probe", "k", k, "class", "envelope:sni", "session", "ok", "handshake", errs(probeHandshake(cfg, wd, s, k/60%nvh)))
				}
			}
		}
		w.Ev("probe", "k", k, "class", "envelope:sni", "session", "ok", "handshake", errs(probeHandshake(cfg, wd, s, 0)))
	case "env-certs": // ClientAuth / hidden request carrying hostile certificate bytes
		s := wd.NewServer(sa, srvOpt(cfg))
		w.Ev("group", "cfg", cfg, "state", state, "genuine", 0)
		realLeaf, _ := cid.Leaf.Marshal()
		realInter, _ := ids[0].Inter.Marshal()
		hc := hostileCerts(realLeaf, rng)
		for i, leaf := range hc {
			inter := []byte(nil)
			if i%5 == 1 {
				inter = hostileCerts(realInter, rng)[rng.Intn(len(realInter))]
			}
			if len(leaf) == 0 {
				continue // the client refuses to send an empty leaf
			}
			for _, hidden := range []bool{false, true} {
				if hidden != hiddenCfg(cfg) && !(hidden && cfg != "hidden1" && cfg != "hidden2") {
					continue
				}
				o := cliOpt(cfg, i%nvh)
				if hidden {
					o.ServerKEM = &kems[i%nvh].Public
				}
				logCase(fmt.Sprintf("envelope:certs hidden=%v leaflen=%d interlen=%d", hidden, len(leaf), len(inter)), len(leaf), hex.EncodeToString(leaf[:min(len(leaf), 48)]))
				c := wd.NewClient(fresh(), sa, o)
				c.T.VerifSetRawCertificates(leaf, inter)
				_ = wd.RunHandshake(c, s)
				c.T.Close()
				if err := s.EP.WaitIdle(2 * time.Second); err != nil {
					w.Ev("probe", "k", k, "class", fmt.Sprintf("envelope:certs hidden=%v leaflen=%d", hidden, len(leaf)), "session", "ok", "handshake", "server no longer reads datagrams")
					return
				}
				for {
					if _, err := s.T.AcceptTimeout(200 * time.Microsecond); err != nil {
						break
					}
				}
			}
			if i%50 == 49 {
				w.Ev("probe", "k", k, "class", "envelope:certs", "session", "ok", "handshake", errs(probeHandshake(cfg, wd, s, i/50%nvh)))
			}
		}
		w.Ev("probe", "k", k, "class", "envelope:certs", "session", "ok", "handshake", errs(probeHandshake(cfg, wd, s, 0)))
	case "env-srvcerts": // a hostile SERVER presents hostile certificate bytes to an honest client
		w.Ev("group", "cfg", cfg, "state", state, "genuine", 0)
		realLeaf, _ := ids[0].Leaf.Marshal()
		honest := wd.NewServer(simwire.Addr("10.0.0.9", 77), srvOpt(cfg))
		for i, leaf := range hostileCerts(realLeaf, rng) {
			raw := leaf
			mal := wd.NewServer(&net.UDPAddr{IP: net.IPv4(10, 8, byte(i>>8), byte(i)), Port: 77}, hopkit.SrvOpt{Ident: ids[0], KEM: kems[0], Hidden: hiddenCfg(cfg), RawLeaf: &raw})
			logCase(fmt.Sprintf("envelope:srvcerts leaflen=%d", len(leaf)), len(leaf), hex.EncodeToString(leaf[:min(len(leaf), 48)]))
			c := wd.NewClient(fresh(), mal.EP.Addr(), cliOpt(cfg, 0))
			_ = wd.RunHandshake(c, mal)
			c.T.Close()
			mal.T.Close()
			if i%50 == 49 { // the client side of the process is still able to complete an honest handshake
				c2 := wd.NewClient(fresh(), honest.EP.Addr(), cliOpt(cfg, 0))
				err := wd.RunHandshake(c2, honest)
				c2.T.Close()
				w.Ev("probe", "k", k, "class", "envelope:srvcerts", "session", "ok", "handshake", errs(err))
			}
		}
	}
	w.Ev("done", "cases", k)
}

func certsName(t byte, label []byte) certs.Name {
	return certs.Name{Type: certs.IDType(t), Label: label}
}

func child(cfg, state string, seed int64, thorough bool, out string) {
	w := rec.Must(out)
	defer w.Close()
	if strings.HasPrefix(state, "env-") {
		envelope(cfg, state, rand.New(rand.NewSource(seed)), w)
		return
	}
	flush := func() { w.Close(); w2, _ := os.OpenFile(out, os.O_APPEND|os.O_WRONLY, 0644); _ = w2 }
	_ = flush
	rng := rand.New(rand.NewSource(seed))
	wd := hopkit.NewWorld()
	s := wd.NewServer(sa, srvOpt(cfg))
	genuine := map[string][]byte{}
	var liveSid, pendingSid []byte
	var c1 *hopkit.Cli
	var h1 *transport.Handle
	nvh := nvhOf(cfg)
	// genuine material from a side handshake (another address) with the same server
	{
		w.Ev("case", "k", -1, "class", fmt.Sprintf("honest:handshake with virtual host #%d of %d", nvh, nvh), "len", 0, "src", "10.0.2.2:2002", "hex", "")
		w.Flush()
		side := wd.NewClient(simwire.Addr("10.0.2.2", 2002), sa, cliOpt(cfg, nvh-1))
		side.Start()
		sent, _ := exchange(wd, s, side, 3, false)
		for _, d := range sent {
			genuine[hopkit.TypeName(d)] = d
		}
		side.WaitStep()
		side.T.Close()
		for {
			if _, err := s.T.AcceptTimeout(time.Millisecond); err != nil {
				break
			}
		}
		if !hiddenCfg(cfg) { // also a hidden request against a discoverable server that has a KEM key
			o := cliOpt(cfg, 0)
			o.ServerKEM = &kems[0].Public
			hc := wd.NewClient(simwire.Addr("10.0.2.3", 2003), sa, o)
			hc.Start()
			hc.WaitStep()
			for _, d := range wd.Net.TakeFrom(hc.EP) {
				genuine[hopkit.TypeName(d.Data)] = d.Data
			}
			hc.T.Close()
		}
	}
	target := s.EP // endpoint receiving the junk
	var tc *hopkit.Cli
	srcs := []*net.UDPAddr{addrA, simwire.Addr("10.0.3.3", 3003)}
	switch state {
	case "idle":
	case "pending":
		if hiddenCfg(cfg) {
			w.Ev("skip", "why", "hidden handshake has no pending state")
			return
		}
		c1 = wd.NewClient(addrA, sa, cliOpt(cfg, 0))
		c1.Start()
		sent, reply := exchange(wd, s, c1, 2, false) // CH, CA delivered; SA held back
		genuine["CA-pending"] = sent[1]
		if len(reply) > 0 {
			if f, ok := hopkit.FieldOf(reply[0], "sid"); ok {
				pendingSid = append([]byte(nil), reply[0][f.Off:f.Off+f.Len]...)
			}
			c1.EP.Inject(reply[0], sa)
			c1.WaitStep()
			for _, d := range wd.Net.TakeFrom(c1.EP) { // the genuine ClientAuth, not delivered
				genuine["CL-pending"] = d.Data
			}
		}
	case "established", "closed":
		c1 = wd.NewClient(addrA, sa, cliOpt(cfg, 0))
		must(wd.RunHandshake(c1, s))
		var err error
		h1, err = s.T.AcceptTimeout(time.Second)
		must(err)
		v := h1.VerifSession()
		liveSid = v.SessionID[:]
		must(c1.T.WriteMsg([]byte("genuine data")))
		d := wd.Net.TakeFrom(c1.EP)[0]
		genuine["TR"] = d.Data
		must(s.EP.Deliver(d.Data, d.From, hopkit.StepTimeout))
		{
			buf := make([]byte, 100)
			h1.SetReadDeadline(time.Now().Add(200 * time.Millisecond))
			if n, err := h1.ReadMsg(buf); err != nil || string(buf[:n]) != "genuine data" {
				panic(fmt.Sprint("setup: genuine data not delivered: ", err))
			}
		}
		if state == "closed" {
			h1.Close()
		}
	case "client-wSH", "client-wSA", "client-wHP", "client-open":
		if (state == "client-wHP") != hiddenCfg(cfg) && state != "client-open" {
			w.Ev("skip", "why", "state not reachable in this mode")
			return
		}
		srcs = []*net.UDPAddr{sa, simwire.Addr("10.0.3.3", 3003)}
	}
	w.Ev("group", "cfg", cfg, "state", state, "genuine", len(genuine))
	cat := catalogue(genuine, liveSid, thorough, rng)
	if pendingSid != nil {
		// the session id of a reserved, not yet finished session is visible in the ServerAuth: transport and control
		// datagrams for it, correctly sealed under keys anybody can guess (what a half-initialised session would hold)
		for _, mt := range []byte{byte(transport.MessageTypeTransport), byte(transport.MessageTypeControl)} {
			for _, kb := range []byte{0x00, 0xff} {
				for _, ctr := range []uint64{0, 1, 2} {
					cat = append(cat, junk{fmt.Sprintf("zerokey:TR-pending type=%02x key=%02x", mt, kb), sealTrivial(mt, pendingSid, ctr, kb)})
				}
			}
		}
	}
	rng.Shuffle(len(cat), func(i, j int) { cat[i], cat[j] = cat[j], cat[i] })
	batch := 40
	for k, j := range cat {
		src := srcs[k%len(srcs)]
		if strings.HasPrefix(state, "client") {
			// a fresh client brought to the wanted stage for every few datagrams (a failed handshake is final)
			if tc == nil || k%4 == 0 {
				if tc != nil {
					tc.T.Close()
				}
				tc = wd.NewClient(fresh(), sa, cliOpt(cfg, 0))
				switch state {
				case "client-wSH", "client-wHP":
					tc.Start()
					tc.WaitStep()
					wd.Net.TakeFrom(tc.EP)
				case "client-wSA":
					tc.Start()
					exchange(wd, s, tc, 2, false)
					tc.WaitStep()
				case "client-open":
					must(wd.RunHandshake(tc, s))
					var err error
					h1, err = s.T.AcceptTimeout(time.Second)
					must(err)
					v := h1.VerifSession()
					liveSid = v.SessionID[:]
					if len(j.data) >= 8 && k%3 == 0 && strings.HasPrefix(j.class, "typed:") {
						j.data[1], j.data[2], j.data[3] = 0, 0, 0
						copy(j.data[4:8], liveSid)
						j.class = "typed-livesid:" + j.class[6:]
					}
				}
				target = tc.EP
			}
		}
		w.Ev("case", "k", k, "class", j.class, "len", len(j.data), "src", src.String(), "hex", hex.EncodeToString(j.data[:min(len(j.data), 96)]))
		w.Flush()
		target.Inject(j.data, src)
		if strings.HasPrefix(state, "client") {
			tc.WaitStep()
			wd.Net.TakeFrom(tc.EP)
			if state == "client-open" {
				if err := probeSession(wd, s, tc, h1, k); err != nil {
					w.Ev("probe", "k", k, "class", j.class, "session", errs(err), "handshake", "ok")
				}
			}
		} else if err := target.WaitIdle(hopkit.StepTimeout); err != nil {
			w.Ev("probe", "k", k, "class", j.class, "session", "ok", "handshake", "server no longer reads: "+err.Error())
			return
		}
		wd.Net.Take()
		if k%batch == batch-1 || k == len(cat)-1 {
			he := probeHandshake(cfg, wd, s, k/batch%nvh)
			var se error
			if state == "established" {
				se = probeSession(wd, s, c1, h1, k)
			}
			w.Ev("probe", "k", k, "class", j.class, "session", errs(se), "handshake", errs(he))
		}
	}
	w.Ev("done", "cases", len(cat))
}

func min(a, b int) int {
	if a < b {
		return a
	}
	return b
}

func main() {
	logrus.SetOutput(io.Discard)
	if os.Args[1] == "list" {
		for _, c := range cfgs {
			for _, s := range states {
				fmt.Println(c, s)
			}
		}
		// named blocks only (a name may match no block): the states in which a server name is looked up
		fmt.Println("vhosts-strict", "env-sni")
		fmt.Println("vhosts-strict", "pending")
		fmt.Println("one-nokem", "idle")
		fmt.Println("one-nokem", "established")
		fmt.Println("one-authkeys", "env-certs")
		fmt.Println("one-authkeys", "idle")
		return
	}
	cfg, state := os.Args[2], os.Args[3]
	seed, _ := strconv.ParseInt(os.Args[4], 10, 64)
	hopkit.StepTimeout = 3 * time.Second
	pki = hopkit.NewPKI()
	cid = pki.Issue("selfsigned", "client")
	ids = []*hopkit.Ident{pki.Issue("valid", "a.example"), pki.Issue("valid", "x.b.example"), pki.Issue("valid", "c.example")}
	for range ids {
		kems = append(kems, hopkit.NewKEM())
	}
	child(cfg, state, seed, os.Args[5] == "1", os.Args[6])
}
