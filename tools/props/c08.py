# C08 — reliable tubes deliver the written byte stream in order, intact and complete (DESIGN.md §3 C08)
import json, os, re, random
import lib

M = 32768

def schedules(rng, thorough, tlc_losses):
    S = []
    def add(name, **kw):
        d = dict(name=name, drops=[], dups=[], delays=[], lossPct=0, lossMs=0, outageAtMs=0, outageMs=0, sizes=[1000, M - 1, M, M + 1, 5, 2 * M + 7, 100000], both=False, boundMs=25000, pauseMs=0, lateClose=False, dupAckEvery=0, reverse=False, reuseBuf=False)
        d.update(kw); S.append(d)
    add("faithful"); add("faithful-both", both=True)
    add("tiny-writes", sizes=[1] * 50 + [0, 3, 0, 7]); add("one-big-write", sizes=[700000])
    nframes = 12
    for k in range(1, nframes + 1):
        add("drop-data-%d" % k, drops=[dict(dir=0, kind="data", no=k, times=1)])
    for k in (1, 2, 5, 9):
        add("drop-data-%d-x3" % k, drops=[dict(dir=0, kind="data", no=k, times=3)])
        add("dup-data-%d" % k, dups=[dict(dir=0, kind="data", no=k, copies=2)])
        add("delay-data-%d" % k, delays=[dict(dir=0, kind="data", no=k, ms=40)])
        add("drop-ack-%d" % k, drops=[dict(dir=1, kind="ack", no=k + 1, times=2)])
        add("dup-ack-%d" % k, dups=[dict(dir=1, kind="ack", no=k + 1, copies=3)])
    add("drop-fin", drops=[dict(dir=0, kind="fin", no=nframes + 1, times=1)])
    add("drop-fin-x2-both", drops=[dict(dir=0, kind="fin", no=nframes + 1, times=2)], both=True)
    add("drop-req", drops=[dict(dir=0, kind="req", no=0, times=1)]); add("drop-resp", drops=[dict(dir=1, kind="resp", no=0, times=1)])
    # the accepting end answers at once and closes (a server that prints a banner and hangs up), with the tube
    # handshake still incomplete on the opening end because the answer to its request was lost
    for sizes in ([11], [5, M + 1], []):
        add("reverse-quick-close-%d" % len(sizes), sizes=sizes, reverse=True, boundMs=12000)
        add("reverse-quick-close-%d-drop-resp" % len(sizes), sizes=sizes, reverse=True, boundMs=12000, drops=[dict(dir=1, kind="resp", no=0, times=1)])
        add("reverse-quick-close-%d-drop-req" % len(sizes), sizes=sizes, reverse=True, boundMs=12000, drops=[dict(dir=0, kind="req", no=0, times=1)])
    # writers that reuse one buffer for every Write (io.Copy, bufio): large single writes, with and without loss
    big = [2 * M, M, 3 * M + 5, M - 1, 4 * M, M + 1, 65536, 65536, 100, 65536]
    add("reused-buffer", sizes=big, reuseBuf=True); add("reused-buffer-both", sizes=big, reuseBuf=True, both=True)
    add("reused-buffer-small", sizes=[100, 2000, 31, 5000] * 20, reuseBuf=True)
    add("reused-buffer-loss", sizes=big, reuseBuf=True, lossPct=10, lossMs=1500)
    add("reused-buffer-drop-3", sizes=big, reuseBuf=True, drops=[dict(dir=0, kind="data", no=3, times=2)])
    # request/response-like traffic: small writes with pauses; a late duplicate of an old acknowledgement arrives
    # after the newest frame was lost, and nothing else is in flight
    for k in (2, 3, 4):
        for dd in (60, 150, 400):
            add("stale-ack-%d-after-loss-%dms" % (k, dd), sizes=[3, 3, 5, 4, 6][:k + 1], pauseMs=120, boundMs=12000, lateClose=True,
                drops=[dict(dir=0, kind="data", no=k + 1, times=1)], dups=[dict(dir=1, kind="ack", no=k + 1, copies=1, dupDelayMs=dd), dict(dir=1, kind="ack", no=k, copies=1, dupDelayMs=120 + dd)])
            add("stale-ack-%d-after-loss-%dms-both" % (k, dd), sizes=[3, 3, 5, 4, 6][:k + 1], pauseMs=120, boundMs=20000, both=True,
                drops=[dict(dir=0, kind="data", no=k + 1, times=1)], dups=[dict(dir=1, kind="ack", no=k + 1, copies=1, dupDelayMs=dd)])
    add("drop-first-three", drops=[dict(dir=0, kind="data", no=k, times=1) for k in (1, 2, 3)])
    add("drop-window", drops=[dict(dir=0, kind="data", no=k, times=1) for k in range(1, 11)])
    for pct in (5, 15, 30):
        for k in range(3 if thorough else 1):
            add("random-loss-%d%%-%d" % (pct, k), lossPct=pct, lossMs=1500, both=(k % 2 == 1))
    for ms in ([1000, 4000, 8000, 13000, 30000] if thorough else [1000, 3000]):
        add("outage-%dms" % ms, outageAtMs=30, outageMs=ms, sizes=[400000], boundMs=40000)
    # a tube that has left slow start (one early loss) and is still streaming when the network goes away for a few
    # seconds - many consecutive retransmission timeouts - and comes back
    for ms in ([1500, 3000, 6000] if thorough else [3000]):
        add("warm-outage-%dms" % ms, sizes=[20000] * 70, pauseMs=15, drops=[dict(dir=0, kind="data", no=8, times=1)], outageAtMs=500, outageMs=ms, boundMs=40000)
        add("warm-outage-%dms-both" % ms, sizes=[20000] * 70, pauseMs=15, both=True, drops=[dict(dir=0, kind="data", no=8, times=1)], outageAtMs=500, outageMs=ms, boundMs=40000)
    # interactive traffic (small messages, each acknowledged before the next: small congestion window, small RTO),
    # then the network goes away for seconds while a few more small messages are written - many consecutive
    # retransmission timeouts on a small window - and comes back
    for ms in ([2500, 4000, 7000] if thorough else [4000]):
        add("interactive-outage-%dms" % ms, sizes=[32] * 110, pauseMs=5, outageAtMs=480, outageMs=ms, boundMs=40000)
    # a long-lived tube with small frames only, on a network that duplicates every third acknowledgement
    add("chatty-dup-acks", sizes=[20] * 500, pauseMs=2, dupAckEvery=3, boundMs=30000)
    add("chatty-dup-acks-both", sizes=[20] * 500, pauseMs=2, dupAckEvery=3, both=True, boundMs=30000)
    # loss patterns explored by the design-level model, as first-transmission drops
    for n, h in enumerate(tlc_losses):
        add("tlc-loss-%d" % n, drops=[dict(dir=0 if x["dir"] == "A" else 1, kind=x["kind"], no=x["no"] if x["kind"] != "ack" else x["no"], times=1) for x in h],
            sizes=[M] * 4)
    return S

def run(v, tier, replay):
    thorough = tier == "thorough"
    rng = random.Random(lib.seed())
    v.assumptions += ["fault model: any finite set of losses / duplications (<= 3 copies) / delays (reordering) / total outages followed by a faithful network; the muxer data timeout is disabled",
                      "which frame is retransmitted when (RTO, duplicate-ack, congestion window) is abstracted in the model to 'any unacknowledged frame in the window'",
                      "completeness is judged per scenario: all bytes and end-of-stream within 25 s (40 s for outages) after the last fault"]
    binp = lib.go_build("tubepair")
    # design stage
    for cfg in (["MC_HopTubes_t.cfg"] if thorough else ["MC_HopTubes.cfg"]):
        r = lib.tlc("MC_HopTubes", cfg, timeout=1500)
        lib.tlc_must_pass(r, cfg); v.add_tlc(cfg + " (tube pair, protocol level)", r)
    # liveness ("complete"): under a network that loses finitely often and delivers every frame it keeps
    lcfg = "HopTubesLive.cfg" if thorough else "HopTubesLive_q.cfg"
    r = lib.tlc("HopTubesLive", lcfg, timeout=2400)
    lib.tlc_must_pass(r, lcfg); v.add_tlc(lcfg + " (liveness under fairness: everything written is eventually delivered, then end-of-stream; both ends reach closed)", r)
    r = lib.tlc("HopTubesLive", "HopTubesLive_unfair.cfg", timeout=600)
    v.add_tlc("HopTubesLive_unfair.cfg (a network that may starve a frame for ever: must violate)", r)
    if r.kind != "temporal":
        raise lib.Inconclusive("self-test: liveness without delivery fairness is not rejected (%s)" % r.kind)
    r = lib.tlc("MC_TubeReceiver", "MC_TubeReceiver_t.cfg", timeout=600)
    lib.tlc_must_pass(r, "MC_TubeReceiver_t"); v.add_tlc("MC_TubeReceiver_t.cfg (reassembly core, 7 steps, VIEW)", r)
    r = lib.tlc("MC_TubeReceiver", "MC_TubeReceiver.cfg", timeout=600)
    lib.tlc_must_pass(r, "MC_TubeReceiver"); v.add_tlc("MC_TubeReceiver.cfg (reassembly core, behaviours emitted)", r)
    behs = [m.group(1).replace('\\"', '"') for m in re.finditer(r'^<<"BEH", "(.*)">>$', r.out, re.M)]
    sd = lib.scratch("vf-c08-")
    # binding E: every emitted reassembly behaviour on the real receiver (white-box overlay driver)
    if not thorough and len(behs) > 60000:
        rng.shuffle(behs); behs = behs[:60000]
    bf, of = os.path.join(sd, "recv.jsonl"), os.path.join(sd, "recv.out")
    open(bf, "w").write("\n".join(behs) + "\n")
    rc, so, se = lib.overlay_test("tubes", "^TestVerifReceiverReplay$", env_extra={"VT_IN": bf, "VT_OUT": of}, timeout=1500)
    if rc != 0 or not os.path.exists(of):
        raise lib.Inconclusive("receiver overlay driver failed: " + (so + se)[-3000:])
    res = lib.read_ndjson(of)
    summ = [e for e in res if e["ev"] == "summary"][0]
    v.cov["receiver_behaviours_replayed"] = summ["behaviours"]; v.cov["receiver_steps"] = summ["steps"]
    v.cov["traces_validated_against_impl"] += summ["behaviours"]
    v.cov["evaluations"] += summ["steps"]
    v.sample(dict(kind="reassembly behaviour (TLC) replayed on the real receiver", steps=json.loads(behs[0])))
    for e in res:
        if e["ev"] == "mismatch":
            seq = " ".join("%s%d" % (s["k"][0], s["n"]) for s in e["steps"])
            v.violation("receiver core: after frames [%s] at base %s the real receiver is %s, the specification %s" % (seq, e["base"], json.dumps(e["got"], sort_keys=True), json.dumps({k: e["want"][k] for k in ("res", "fin", "next", "buf", "closed")}, sort_keys=True)),
                        "white-box replay of a TubeReceiver.tla behaviour", e)
            break
    # loss patterns from the protocol model
    r = lib.tlc("MC_HopTubes", "Sim_HopTubes.cfg", workers=1, simulate="num=%d" % (400 if thorough else 60), depth=40, tlc_seed=lib.seed(), timeout=600)
    if r.kind:
        raise lib.Inconclusive("HopTubes simulation failed: %s\n%s" % (r.kind, r.out[-1500:]))
    losses = []
    for m in re.finditer(r'^<<"LOSS", "(.*)">>$', r.out, re.M):
        h = json.loads(m.group(1).replace('\\"', '"'))
        if h not in losses:
            losses.append(h)
    rng.shuffle(losses)
    losses = losses[:(120 if thorough else 25)]
    S = schedules(rng, thorough, losses)
    sf, tr = os.path.join(sd, "sched.json"), os.path.join(sd, "pair.ndjson")
    json.dump(S, open(sf, "w"))
    rc, so, se = lib.run([binp, sf, tr, str(lib.seed())], timeout=3000)
    if rc != 0:
        if "panic" in se:
            where = [l.strip() for l in se.split("\n") if lib.REPO_MARK in l][:3]
            v.violation("tube pair driver crashed: %s | %s" % ([l for l in se.split("\n") if l.startswith("panic")][:1], where[:1]), se[-1500:], dict(stderr=se[-3000:]))
            return
        raise lib.Inconclusive("tubepair failed: " + (so + se)[-3000:])
    evs = lib.read_ndjson(tr)
    by = {}
    for e in evs:
        by.setdefault(e["sc"], []).append(e)
    events = []
    for sc in sorted(by):
        g = by[sc]
        g.sort(key=lambda e: 0 if e["ev"] == "reset" else 1)
        events += g
    t2 = os.path.join(sd, "trace.ndjson")
    lib.write_ndjson(t2, events)
    r = lib.tlc("Trace_HopTubes", "Trace_HopTubes.cfg", files={"trace.ndjson": "@" + t2}, workers=1, timeout=1800)
    v.add_tlc("Trace_HopTubes", r)
    if not r.ok:
        raise lib.Inconclusive("trace not consumed: %s\n%s" % (r.kind, r.out[-2000:]))
    v.cov["traces_validated_against_impl"] += len(by)
    v.cov["tube_pair_scenarios"] = len(by); v.cov["tube_pair_events"] = len(events)
    for s in S:
        v.case(("sched", s["name"]))
    v.sample(dict(kind="fault schedule", schedule=S[10])); v.sample(dict(kind="fault schedule from the protocol model", schedule=S[-1]))
    seen = set()
    for m in re.finditer(r'<<"MISMATCH", (\d+)>>', r.out):
        e = events[int(m.group(1)) - 1]
        name = S[e["sc"]]["name"]
        if (e["sc"], e["ev"]) in seen:
            continue
        seen.add((e["sc"], e["ev"]))
        if e["ev"] == "done":
            out = S[e["sc"]]["outageMs"]
            sig = "incomplete transfer: scenario %s (outage %d ms): reader got %s of %s bytes, end-of-stream missing, %d ms after start%s" % (re.sub(r"-\d+$", "", name) if name.startswith("random") else name, out, e.get("gotA") if S[e["sc"]].get("reverse") else e.get("gotB"), e.get("want"), e["ms"], " (%s)" % e["why"] if e.get("why") else "")
            v.violation(sig, "real tube pair over the scripted network; all faults had ended %d ms before the deadline" % S[e["sc"]]["boundMs"], dict(schedule=S[e["sc"]], event=e))
        else:
            v.violation("stream violation in scenario %s: %s" % (name, json.dumps(e, sort_keys=True)), "real tube pair over the scripted network, judged by Trace_HopTubes", dict(schedule=S[e["sc"]], event=e))
