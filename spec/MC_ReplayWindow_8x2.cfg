SPECIFICATION Spec
CONSTANTS NumBlocks = 8  BlockSize = 2  MaxSeq = 36  ClearCap = 8
INVARIANTS TypeOK Equiv Refines
CHECK_DEADLOCK FALSE
