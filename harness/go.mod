module verif/harness

go 1.24

require hop.computer/hop v0.0.0

replace hop.computer/hop => /repo

replace github.com/BurntSushi/toml => github.com/drebelsky/toml v0.0.2
