---------------------------- MODULE Trace_Cyclist ----------------------------
(* Trace validation for C13.  One line per interface call on a real cyclist.Cyclist object, with   *)
(* the Up / Down steps it performed (hooks in cyclist.up / cyclist.down).  Checked per call:       *)
(*   S1  the sequence of steps (kind, colour byte, block length) is the one Cyclist.tla prescribes  *)
(*       for that call in the object's mode and phase (tracked here from the calls, not logged)     *)
(*   S2  the mode and phase the hook saw are the tracked ones                                       *)
(*   S3  the states chain: each step starts where the previous one ended; Initialize starts from 0  *)
(*   deep lines (full 200-byte states):                                                             *)
(*   S4  Down:  post = pre xor (X || 01 || zeros) xor (colour at byte 199; in hash mode its low bit)   *)
(*       Up:    post = KeccakP12(pre xor (colour at byte 199, keyed mode only)), Y = post[0..n)     *)
(*       with KeccakP12 the TLA+ definition of Keccak-p[1600, 12] in KeccakP.tla                    *)
(*   S5  the blocks absorbed are the right ones (data / key||id||len / counter bytes / plaintext,   *)
(*       for Decrypt the recovered plaintext) and the outputs are the extracted bytes (Squeeze) or  *)
(*       input xor key stream (Encrypt / Decrypt)                                                   *)
(* sync lines: after every call the peer object (which decrypts what the first encrypts) is in the  *)
(* same state and phase, and the outputs agree.                                                     *)
EXTENDS Cyclist, KeccakP, Json, FiniteSets
Trace == ndJsonDeserialize("trace.ndjson")
VARIABLES l, objs, bad
Ev == Trace[l]

ModeName(m) == IF m = 0 THEN "hash" ELSE "keyed"
PhName(p) == IF p = 0 THEN "up" ELSE "down"
ZeroD == "00000000000000000000000000000000"
Unknown == [mode |-> "keyed", ph |-> "down", st |-> "?"]
IsInit(e) == e.op \in {"Initialize", "InitializeEmpty"}
CallOf(e) == [op |-> e.op, a |-> e.a, b |-> e.b, c |-> e.c]

\* ---- byte level ----
Bytes2Lanes(b) == [j \in 1..25 |-> [m \in 1..4 |-> b[8 * (j - 1) + 2 * m - 1] + 256 * b[8 * (j - 1) + 2 * m]]]
Lanes2Bytes(A) == [i \in 1..200 |-> LET j == ((i - 1) \div 8) + 1  r == (i - 1) % 8  limb == A[j][(r \div 2) + 1]
                                    IN IF r % 2 = 0 THEN limb % 256 ELSE limb \div 256]
DownOK(s, mode) ==
    LET eff == Effective([k |-> "down", c |-> s.c, n |-> s.n], mode) IN
    /\ Len(s.x) = s.n
    /\ s.post = [i \in 1..200 |-> (s.pre[i] ^^ (IF i <= s.n THEN s.x[i] ELSE IF i = s.n + 1 THEN 1 ELSE 0)) ^^ (IF i = 200 THEN eff ELSE 0)]
UpOK(s, mode) ==
    LET eff == Effective([k |-> "up", c |-> s.c, n |-> s.n], mode)
        fin == [s.pre EXCEPT ![200] = @ ^^ eff] IN
    /\ s.fin = fin
    /\ s.post = Lanes2Bytes(KeccakP12(Bytes2Lanes(fin)))
    /\ s.y = SubSeq(s.post, 1, s.n)
StepOK(s, mode) == IF s.k = "down" THEN DownOK(s, mode) ELSE UpOK(s, mode)

RECURSIVE SplitBytes(_, _)
SplitBytes(b, r) == IF Len(b) <= r THEN <<b>> ELSE <<SubSeq(b, 1, r)>> \o SplitBytes(SubSeq(b, r + 1, Len(b)), r)
Downs(steps) == SelectSeq(steps, LAMBDA s : s.k = "down")
Ups(steps) == SelectSeq(steps, LAMBDA s : s.k = "up")
RECURSIVE Concat(_)
Concat(ss) == IF ss = <<>> THEN <<>> ELSE Head(ss) \o Concat(Tail(ss))
XorSeq(a, b) == [i \in 1..Len(a) |-> a[i] ^^ b[i]]
(* S5 *)
DataOK(e) ==
    LET d == Downs(e.steps)  u == Ups(e.steps) IN
    CASE e.op = "Absorb" -> [i \in 1..Len(d) |-> d[i].x] = SplitBytes(e.in, Rate)
      [] e.op = "Initialize" ->
           IF e.a = 0 THEN TRUE
           ELSE LET kid == SubSeq(e.in, 1, e.a + e.b + 1)  ctr == SubSeq(e.in, e.a + e.b + 2, Len(e.in)) IN
                /\ kid[e.a + e.b + 1] = e.b
                /\ [i \in 1..Len(d) |-> d[i].x] = SplitBytes(kid, Rate) \o [i \in 1..Len(ctr) |-> <<ctr[i]>>]
      [] e.op \in {"Encrypt", "Decrypt"} ->
           LET plain == IF e.op = "Encrypt" THEN e.in ELSE e.out
               blocksIn == SplitBytes(e.in, Rate)
               ks == [i \in 1..Len(u) |-> SubSeq(u[i].post, 1, Len(blocksIn[i]))] IN
           /\ [i \in 1..Len(d) |-> d[i].x] = SplitBytes(plain, Rate)
           /\ e.out = Concat([i \in 1..Len(u) |-> XorSeq(blocksIn[i], ks[i])])
      [] e.op \in {"Squeeze", "SqueezeKey"} -> e.out = Concat([i \in 1..Len(u) |-> u[i].y]) /\ \A i \in 1..Len(d) : d[i].x = <<>>
      [] e.op = "Ratchet" -> d[Len(d)].x = u[1].y /\ Len(u[1].y) = LRatchet
      [] OTHER -> TRUE

CallGood(e) ==
    LET o == objs[e.o]
        call == CallOf(e)
        specOp == IF e.op = "Decrypt" THEN [call EXCEPT !.op = "Encrypt"] ELSE call
        exp == Steps(specOp, o.mode, o.ph)
        mode1 == ModeAfter(specOp, o.mode)
        n == Len(e.steps) IN
    /\ Allowed(specOp, o.mode) \/ IsInit(e)
    /\ n = Len(exp)                                                                                     \* S1
    /\ \A i \in 1..n : /\ e.steps[i].k = exp[i].k /\ e.steps[i].n = exp[i].n
                        \* the colour that reaches the state (a colour byte handed to a hash-mode Up is inert)
                        /\ Effective([k |-> e.steps[i].k, c |-> e.steps[i].c, n |-> 0], mode1) = Effective(exp[i], mode1)
    /\ \A i \in 1..n : ModeName(e.steps[i].mode) = mode1                                                \* S2
    /\ \A i \in 1..n : PhName(e.steps[i].ph) = (IF i = 1 THEN (IF IsInit(e) THEN "up" ELSE o.ph) ELSE e.steps[i - 1].k)
    /\ n > 0 => e.steps[1].dpre = (IF IsInit(e) THEN ZeroD ELSE o.st)                                   \* S3
    /\ \A i \in 1..(n - 1) : e.steps[i + 1].dpre = e.steps[i].dpost
    /\ e.deep => (\A i \in 1..n : StepOK(e.steps[i], mode1)) /\ DataOK(e)                               \* S4, S5
ObjAfter(e) ==
    LET o == objs[e.o]
        call == CallOf(e)
        specOp == IF e.op = "Decrypt" THEN [call EXCEPT !.op = "Encrypt"] ELSE call
        n == Len(e.steps) IN
    [mode |-> ModeAfter(specOp, o.mode), ph |-> PhaseAfterCall(specOp, o.mode, o.ph),
     st |-> IF n > 0 THEN e.steps[n].dpost ELSE IF IsInit(e) THEN ZeroD ELSE o.st]

Good(e) == CASE e.ev = "call" -> CallGood(e)
             [] e.ev = "sync" -> e.outputs_agree /\ objs["A"].st = objs["B"].st /\ objs["A"].ph = objs["B"].ph /\ objs["A"].mode = objs["B"].mode
             [] OTHER -> TRUE
TInit == l = 1 /\ bad = 0 /\ objs = [x \in {"A", "B"} |-> Unknown]
TNext == /\ l <= Len(Trace) /\ l' = l + 1
         /\ IF Good(Ev) THEN bad' = bad ELSE bad' = bad + 1 /\ PrintT(<<"MISMATCH", l>>)
         /\ objs' = CASE Ev.ev = "call" -> [objs EXCEPT ![Ev.o] = ObjAfter(Ev)]
                      [] Ev.ev = "prog" -> [x \in {"A", "B"} |-> Unknown]
                      [] OTHER -> objs
TSpec == TInit /\ [][TNext]_<<l, objs, bad>>
HW == TLCSet(1, l)
Accepted == TLCGet(1) = Len(Trace) + 1
=============================================================================
