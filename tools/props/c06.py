# C06 — nothing is delegated without the principal approving that exact intent (DESIGN.md §3 C06)
import json, os, re, random, concurrent.futures
import lib

VARIANT = "fixed"    # the variant of HopAuthgrant.tla that describes the code in /repo ("pinned" = the code as found)

CFG = """SPECIFICATION Spec
CONSTANTS MaxReq = %d  Variant = "%s"
INVARIANTS %s
CHECK_DEADLOCK FALSE
"""
PROPS = "ForwardedOnlyIfApproved OneAnswerPerRequest ConfirmationMeansStored ForwardedOnce"

def scenarios(n, variant):
    r = lib.tlc("MC_HopAuthgrant", "gen.cfg", workers=1, timeout=900, files={"gen.cfg": CFG % (n, variant, "Emit")})
    out = []
    for m in re.finditer(r'<<"BEH", "(.*)">>', r.out):
        b = json.loads(m.group(1).encode().decode("unicode_escape"))
        b["id"] = len(out)
        out.append(b)
    return r, out

def desc(b):
    return " ; ".join("%d:%s/%s/%s/%s%s" % (i + 1, c["tclass"], c["decision"], c["setup"], c["tbeh"], "/PF-TYPE" if c.get("gt") == "pf" else "") for i, c in enumerate(b["sc"]))

def judge(b, e):
    """property predicates on what the real principal / target did"""
    out = []
    d = desc(b)
    cb = e["cb"] or []; fwd = e["fwd"] or []; stored = e["stored"] or []; ans = [a or [] for a in (e["ans"] or [])]
    for f in fwd:
        k, seq, url, mtype, cur = f
        if mtype != 2:
            out.append("a message of type %d was sent to the target while request %d was handled | %s" % (mtype, cur, d)); continue
        if k == 0:
            out.append("the intent forwarded while request %d was handled is not, field for field, any intent the delegate sent | %s" % (cur, d)); continue
        if k != cur:
            out.append("while request %d was handled the intent of request %d was forwarded | %s" % (cur, k, d))
        appr = [c for c in cb if c[0] == k and c[1] == "approve" and c[2] < seq]
        if not appr:
            said = [c[1] for c in cb if c[0] == k]
            out.append("the intent of request %d was forwarded to the target although the approval callback %s | %s" % (k, "rejected it" if said else "was never asked about it", d))
        if url != e["urls"][k - 1]:
            out.append("the intent of request %d (target %s) was forwarded over the connection set up for %s | %s" % (k, e["urls"][k - 1], url, d))
    ks = [f[0] for f in fwd if f[0]]
    if len(set(ks)) != len(ks):
        out.append("an intent was forwarded more than once: %s | %s" % (ks, d))
    for i, a in enumerate(ans):
        if i >= len(b["sc"]):
            continue
        if i > 0 and any(c.get("gt") == "pf" for c in b["sc"][:i]):
            # the principal gave up on the connection with the unusable request: nothing after it is answered
            if a and not all(x.startswith("none") or x.startswith("writefail") for x in a):
                if "confirm" in a and (i + 1) not in stored:
                    out.append("request %d was confirmed to the delegate although the target did not store a grant for it | %s" % (i + 1, d))
            continue
        if len(a) != 1 or a[0] not in ("confirm", "deny"):
            out.append("request %d got %d answers (%s) instead of exactly one | %s" % (i + 1, len([x for x in a if not x.startswith("none")]), ",".join(a), d))
        if "confirm" in a and (i + 1) not in stored:
            out.append("request %d was confirmed to the delegate although the target did not store a grant for it | %s" % (i + 1, d))
    if not e["returned"]:
        out.append("the principal instance did not end after the delegate connection was closed | %s" % d)
    return out

def run(v, tier, replay):
    thorough = tier == "thorough"
    v.assumptions += ["requests are recognised byte for byte (serialised intent) wherever they turn up: approval callback, target connection, target store",
                      "the scripted target set-up consults the verification callback inside the 'handshake' as hopclient.setupTargetClient does (the fake in the repository's tests never does)",
                      "a second answer is looked for during 15 ms after each answer"]
    r = lib.tlc("MC_HopAuthgrant", "p.cfg", timeout=600, files={"p.cfg": CFG % (3, "fixed", PROPS)})
    lib.tlc_must_pass(r, "HopAuthgrant fixed"); v.add_tlc("HopAuthgrant, MaxReq=3, fixed variant: C06 invariants", r)
    r = lib.tlc("MC_HopAuthgrant", "p.cfg", timeout=600, files={"p.cfg": CFG % (3, "pinned", PROPS)})
    v.add_tlc("HopAuthgrant, pinned variant (the code as found): must violate", r)
    if r.kind != "invariant":
        raise lib.Inconclusive("self-test: the pinned variant is not rejected (%s)" % r.kind)
    r2, s2 = scenarios(2, VARIANT)
    v.add_tlc("scenario enumeration, 2 requests", r2)
    r3, s3 = scenarios(3, VARIANT)
    v.add_tlc("scenario enumeration, 3 requests", r3)
    if len(s2) < 100 or len(s3) < 1000:
        raise lib.Inconclusive("scenario enumeration too small: %d / %d" % (len(s2), len(s3)))
    v.cov["scenarios_enumerated_2"] = len(s2); v.cov["scenarios_enumerated_3"] = len(s3)
    rng = random.Random(lib.seed())
    # scenarios with a slow target cost 6 s of real time each: a handful in the quick tier, more in the thorough one
    slow = lambda b: any(c["tbeh"] == "slowconfirm" for c in b["sc"])
    s2slow = [b for b in s2 if slow(b)]; s3slow = [b for b in s3 if slow(b)]
    s2 = [b for b in s2 if not slow(b)]; s3 = [b for b in s3 if not slow(b)]
    keep = [b for b in s2slow if b["sc"][0]["tclass"] == "base" and len(b["sc"]) == 2 and b["sc"][1]["tclass"] == "base"]
    slowpick = keep[:8] + rng.sample(s2slow, min(len(s2slow), 4)) + (rng.sample(s3slow, min(len(s3slow), 80)) + s2slow if thorough else [])
    v.cov["slow_target_scenarios"] = len(slowpick)
    scs = slowpick + s2 + (s3 if thorough else rng.sample(s3, 1500))
    for i, b in enumerate(scs):
        b["id"] = i
    binp = lib.go_build("c06")
    sd = lib.scratch("vf-c06-")
    NP = 16
    def child(i):
        inp = os.path.join(sd, "sc-%d.ndjson" % i); out = os.path.join(sd, "out-%d.ndjson" % i)
        lib.write_ndjson(inp, [dict(id=b["id"], sc=b["sc"]) for b in scs[i::NP]])
        rc, so, se = lib.run([binp, inp, out], timeout=1500)
        return i, rc, out, (so + se)[-3000:]
    unexplained = []
    with concurrent.futures.ThreadPoolExecutor(max_workers=NP) as ex:
        for i, rc, out, tail in ex.map(child, range(NP)):
            evs = lib.read_ndjson(out) if os.path.exists(out) else []
            if rc != 0 or not any(e["ev"] == "done" for e in evs):
                raise lib.Inconclusive("replay child %d failed: rc=%s\n%s" % (i, rc, tail))
            for e in evs:
                if e["ev"] != "replayed":
                    continue
                b = scs[e["id"]]
                v.case(("sc", desc(b)), nontrivial=True)
                v.count("scenarios_replayed"); v.count("requests_replayed", len(b["sc"]))
                for sig in judge(b, e):
                    v.violation(sig, "TLC-enumerated scenario replayed on the real principal and target instances", dict(scenario=b, observed=e))
                # conformance with the model's outputs
                m_cb = [[x[0], x[1]] for x in b["cb"]]; c_cb = [[x[0], x[1]] for x in (e["cb"] or [])]
                m_fwd = list(b["fwd"]); c_fwd = [x[0] for x in (e["fwd"] or [])]
                m_ans = [list(a) for a in b["ans"]]; c_ans = [[x for x in a if not (x.startswith("none") or x.startswith("writefail"))] for a in [x or [] for x in e["ans"]]]
                if (m_cb, m_fwd, sorted(b["stored"]), m_ans) != (c_cb, c_fwd, sorted(e["stored"] or []), c_ans):
                    unexplained.append("%s: model cb=%s fwd=%s stored=%s ans=%s; code cb=%s fwd=%s stored=%s ans=%s" % (desc(b), m_cb, m_fwd, sorted(b["stored"]), m_ans, c_cb, c_fwd, sorted(e["stored"] or []), c_ans))
                else:
                    v.count("traces_validated_against_impl")
    v.sample(dict(scenario=desc(scs[0])))
    v.cov["model_code_differences"] = len(unexplained)
    if unexplained and not v.viol:
        raise lib.Inconclusive("%d scenarios where model and code differ without a property being violated, e.g. %s" % (len(unexplained), unexplained[:3]))
    if unexplained:
        v.cov["unexplained_examples"] = unexplained[:3]
