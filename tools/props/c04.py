# C04 — certificate verification accepts exactly the valid chains (DESIGN.md §3 C04)
import json, os, re
import lib

def run(v, tier, replay):
    thorough = tier == "thorough"
    v.assumptions += ["five certificate slots (2 roots, 2 intermediates, 1 leaf); configurations within K field changes of three valid baselines (K=3 quick, K=4 thorough)",
                      "Ed25519 / SHA3 are trusted primitives; an abstract 'signed by key X' is realised by a real signature with a real key",
                      "each abstract clock tick is realised at three real instants (start, end-1ns, middle of the tick)"]
    cfgname = "MC_HopCerts_k4.cfg" if thorough else "MC_HopCerts.cfg"
    r = lib.tlc("HopCerts", cfgname, timeout=3000, workers=8)
    lib.tlc_must_pass(r, cfgname)
    v.add_tlc(cfgname + " (Decide = ValidChain on every configuration; configurations emitted)", r)
    cfgs = {}
    for m in re.finditer(r'^<<"CFG", "(.*)">>$', r.out, re.M):
        o = json.loads(m.group(1).replace('\\"', '"'))
        cfgs[json.dumps(o["c"], sort_keys=True)] = o
    if len(cfgs) != r.distinct:
        raise lib.Inconclusive("emitted %d configurations, TLC reports %d distinct states" % (len(cfgs), r.distinct))
    lst = list(cfgs.values())
    v.cov["exhaustive"] = True
    sd = lib.scratch("vf-c04-")
    cf = os.path.join(sd, "cfgs.jsonl")
    with open(cf, "w") as fh:
        for o in lst:
            fh.write(json.dumps(o) + "\n")
    binp = lib.go_build("c04")
    of = os.path.join(sd, "out.jsonl")
    rc, so, se = lib.run([binp, "cfgs", cf, of], timeout=3000)
    if rc != 0:
        raise lib.Inconclusive("c04 driver failed: " + (so + se)[-2000:])
    res = lib.read_ndjson(of)
    if len(res) != len(lst):
        raise lib.Inconclusive("driver returned %d results for %d configurations" % (len(res), len(lst)))
    reason_agree = 0
    nvalid = 0
    for o, rr in zip(lst, res):
        nvalid += o["valid"]
        v.case(json.dumps(o["c"], sort_keys=True), nontrivial=True)
        for variant, got in enumerate(rr["got"]):
            acc = got == "ok"
            if got == o["reason"]:
                reason_agree += 1
            if acc != o["valid"]:
                diff = {k: o["c"][k] for k in o["c"]}
                v.violation("VerifyLeaf %s a chain the property calls %s: %s" % ("accepted" if acc else "rejected (%s)" % got,
                                                                              "valid" if o["valid"] else "invalid (%s)" % o["reason"],
                                                                              json.dumps(o["c"], sort_keys=True)),
                            "real Store.VerifyLeaf returned %s on materialisation variant %d; spec: valid=%s reason=%s" % (got, variant, o["valid"], o["reason"]),
                            dict(config=o, got=rr["got"]))
                break
    v.cov["configurations_executed_on_impl"] = len(lst)
    v.cov["traces_validated_against_impl"] += len(lst)
    v.cov["valid_configurations"] = nvalid
    v.cov["reason_agreement"] = "%d/%d" % (reason_agree, 3 * len(lst))
    v.sample(dict(kind="configuration (spec) -> real verifier", config=lst[0], got=res[0]["got"]))
    v.sample(dict(kind="configuration (spec) -> real verifier", config=lst[len(lst) // 2], got=res[len(lst) // 2]["got"]))

    # bit flips and issuance: recorded from the real code, judged by TLC
    tr = os.path.join(sd, "trace.ndjson")
    f1, f2 = os.path.join(sd, "flips.ndjson"), os.path.join(sd, "issue.ndjson")
    for mode, f in (("flips", f1), ("issue", f2)):
        rc, so, se = lib.run([binp, mode, f], timeout=900)
        if rc != 0:
            raise lib.Inconclusive("c04 %s failed: %s" % (mode, (so + se)[-2000:]))
    events = lib.read_ndjson(f1) + lib.read_ndjson(f2)
    lib.write_ndjson(tr, events)
    r = lib.tlc("Trace_HopCerts", "Trace_HopCerts.cfg", files={"trace.ndjson": "@" + tr}, workers=1, timeout=900)
    v.add_tlc("Trace_HopCerts (bit flips, issuance)", r)
    if not r.ok:
        raise lib.Inconclusive("trace not consumed by Trace_HopCerts: kind=%s\n%s" % (r.kind, r.out[-2000:]))
    v.cov["traces_validated_against_impl"] += 2
    v.cov["trace_events"] = len(events)
    nfl = 0
    for e in events:
        v.case(("ev", json.dumps(e, sort_keys=True)), nontrivial=True)
        nfl += e["ev"] == "flip"
    v.cov["single_bit_flips"] = nfl
    vn = [e for e in events if e["ev"] == "vname"]
    v.cov["name_sets_issued"] = len({e["set"] for e in vn if e["issued"] == "yes"}); v.cov["name_sets_refused"] = len({e["set"] for e in vn if e["issued"] == "no"})
    if v.cov["name_sets_issued"] < 10:
        raise lib.Inconclusive("name-fidelity section vacuous: only %d identities were issued" % v.cov["name_sets_issued"])
    v.sample(events[1]); v.sample([e for e in events if e["ev"] == "issue"][3]); v.sample([e for e in events if e["ev"] == "vissued"][0])
    for m in re.finditer(r'<<"MISMATCH", (\d+)>>', r.out):
        e = events[int(m.group(1)) - 1]
        if e["ev"] in ("flip", "flipbase"):
            sig = "bit flip %s bit %s verified as %s" % (e.get("which"), e.get("bit"), e["got"])
        elif e["ev"] == "vname":
            sig = "leaf issued for names of %s bytes: after serialisation %s" % (e["lens"], "it no longer parses (%s)" % e["probe"][:60] if e["reparse"] != "ok"
                  else "verification for name %s (%s by the issuer) gives ok=%s" % (e["probe"], "certified" if e["certified"] == "yes" else "NOT certified", e["ok"]))
        elif e["ev"] == "issue":
            sig = "IssueLeafAt parent-window %s at %s dur %s -> err=%s window %s" % (e["pw"], e["at"], e["dur"], e["err"], e["w"])
        else:
            sig = "issued leaf window %s verified at %s (%s): ok=%s" % (e["w"], e["t"], e["form"], e["ok"])
        v.violation(sig, "recorded from the real certs package; TLC judged it against HopCerts.tla", e)
