# C13 — the Cyclist duplex matches its specification and stays in sync across peers (DESIGN.md §3 C13)
import json, os, re, concurrent.futures
import lib

def hexb(s):
    return [int(s[i:i + 2], 16) for i in range(0, len(s), 2)]

def dg(s):
    return s[:16] + s[384:] if len(s) == 400 else s

def convert(e):
    """format conversion only: hex strings -> byte arrays for TLC, short digests of the states"""
    if e["ev"] != "call":
        return e
    e = dict(e)
    steps = []
    for s in e["steps"]:
        s = dict(s)
        s["dpre"], s["dpost"] = dg(s["pre"]), dg(s["post"])
        if e["deep"]:
            for k in ("pre", "post", "fin", "x", "y"):
                s[k] = hexb(s.get(k) or "")
            if s["k"] == "down":
                s["fin"] = []
        else:
            s["pre"] = s["post"] = s["fin"] = s["x"] = s["y"] = []
        steps.append(s)
    e["steps"] = steps
    e["in"], e["out"] = hexb(e["in"]), hexb(e["out"])
    return e

def run(v, tier, replay):
    thorough = tier == "thorough"
    v.assumptions += ["the mode (decomposition of calls into Up / Down steps, colours, block lengths, phases, key absorption) is Cyclist.tla; the permutation is KeccakP.tla (FIPS 202 Keccak-p[1600,12] written in TLA+, anchored by the published Keccak-f[1600] zero-state vector, evaluated by TLC)",
                      "objects are reused (previous life leaves them keyed, in the Down phase, with a non-zero state) so that initialisation is exercised as a reset",
                      "deep programs carry full 200-byte states for every step and are checked byte for byte by TLC, the others by step sequence, mode, phase, state chaining and peer agreement",
                      "both builds of the permutation are driven: amd64 assembly and the generic Go code (-tags appengine)"]
    r = lib.tlc("MC_Cyclist", "MC_Cyclist.cfg", timeout=600)
    lib.tlc_must_pass(r, "MC_Cyclist"); v.add_tlc("MC_Cyclist.cfg (peers stay in sync under encrypt/decrypt, programs of 4 calls over 5 length classes, both modes)", r)
    r = lib.tlc("MC_Cyclist", "MC_Cyclist_bad.cfg", timeout=300)
    v.add_tlc("MC_Cyclist_bad.cfg (decrypt absorbs the ciphertext: must lose sync)", r)
    if r.kind != "invariant":
        raise lib.Inconclusive("self-test: the ciphertext-absorbing variant is not rejected (%s)" % r.kind)
    r = lib.tlc("KeccakP_anchor", "KeccakP_anchor.cfg", timeout=300)
    lib.tlc_must_pass(r, "KeccakP anchor"); v.add_tlc("KeccakP.tla: Keccak-f[1600] of the zero state equals the published vector", r)
    sd = lib.scratch("vf-c13-")
    builds = [("asm", "verif"), ("generic", "verif,appengine")]
    nrand = 4000 if thorough else 600
    deep_every = 6 if thorough else 25
    chunks = []
    progs = {}
    for bname, tags in builds:
        binp = lib.go_build("c13", tags=tags)
        out = os.path.join(sd, "tr-%s.ndjson" % bname)
        rc, so, se = lib.run([binp, out, str(lib.seed()), str(nrand), str(deep_every)], timeout=900)
        evs = lib.read_ndjson(out) if os.path.exists(out) else []
        if rc != 0 or not any(e["ev"] == "done" for e in evs):
            panic = [l for l in (so + se).split("\n") if l.startswith("panic:")]
            if panic:
                last = [e for e in evs if e["ev"] == "prog"][-1:]
                v.violation("the duplex panicked: %s | build %s program %s" % (panic[0][:120], bname, last and last[0]["text"]), "program over the real cyclist.Cyclist API", dict(build=bname, tail=(so + se)[-1500:]))
                continue
            raise lib.Inconclusive("c13 driver failed (%s): rc=%s\n%s" % (bname, rc, (so + se)[-1500:]))
        cur = []
        for e in evs:
            if e["ev"] == "prog":
                progs[(bname, e["p"])] = e["text"]
                if len(cur) >= 1200:
                    chunks.append((bname, cur)); cur = []
                v.case((bname, e["text"]), nontrivial=True)
                if e["deep"]:
                    v.count("deep_programs")
            if e["ev"] in ("prog", "call", "sync"):
                cur.append(convert(e))
                if e["ev"] == "call":
                    v.count("calls_recorded"); v.count("steps_recorded", len(e["steps"]))
                    if e["deep"]:
                        v.count("permutation_evaluations_checked_by_TLC", sum(1 for s in e["steps"] if s["k"] == "up"))
        if cur:
            chunks.append((bname, cur))
    def check(ix):
        bname, evs = chunks[ix]
        tr = os.path.join(sd, "chunk-%d.ndjson" % ix)
        lib.write_ndjson(tr, evs)
        r = lib.tlc("Trace_Cyclist", "Trace_Cyclist.cfg", files={"trace.ndjson": "@" + tr}, workers=1, timeout=1800, jvm=["-Xss64m"])
        return ix, r
    seen = set()
    with concurrent.futures.ThreadPoolExecutor(max_workers=12) as ex:
        for ix, r in ex.map(check, range(len(chunks))):
            bname, evs = chunks[ix]
            if ix < 3:
                v.add_tlc("Trace_Cyclist chunk %d (%s build)" % (ix, bname), r)
            else:
                v.cov["states"] += r.distinct; v.cov["transitions"] += r.generated
            if not r.ok:
                raise lib.Inconclusive("trace chunk %d not consumed: %s\n%s" % (ix, r.kind, r.out[-1500:]))
            v.count("traces_validated_against_impl", sum(1 for e in evs if e["ev"] == "prog"))
            for m in re.finditer(r'<<"MISMATCH", (\d+)>>', r.out):
                e = evs[int(m.group(1)) - 1]
                ptxt = progs.get((bname, e["p"]), "?")
                if e["ev"] == "sync":
                    sig = "after call %d (%s) the decrypting peer is not in the same state as the encrypting object, or their outputs differ | %s build, program %s" % (e["k"], e["op"], bname, ptxt)
                else:
                    obs = " ".join("%s(0x%02x,%d)" % (s["k"], s["c"], s["n"]) for s in e["steps"])
                    sig = "%s(%d,%d,%d) as call %d: the steps performed [%s] or their states / outputs are not those of the Cyclist specification%s | %s build, object %s, program %s" % (
                        e["op"], e["a"], e["b"], e["c"], e["k"], obs, " (checked byte for byte)" if e["deep"] else "", bname, e["o"], ptxt)
                key = re.sub(r" as call \d+", "", re.sub(r" \| .*", "", sig))
                if key in seen:
                    continue
                seen.add(key)
                small = dict(e)
                if small.get("steps"):
                    small["steps"] = [{k: x for k, x in s.items() if k in ("k", "c", "n", "mode", "ph", "dpre", "dpost")} for s in small["steps"]]
                    small["in"] = small["out"] = "(omitted)"
                v.violation(sig, "program over the real cyclist.Cyclist API, steps recorded by the hooks in up/down, judged by Trace_Cyclist", dict(build=bname, program=ptxt, event=small))
    v.sample(dict(program=list(progs.values())[0] if progs else None))
