----------------------------- MODULE Trace_Sanse -----------------------------
(* Trace validation for C12: calls on real cipher.AEAD values returned by kravatte.NewSANSE.       *)
(*   new      a session with a key (tracked here by the executable specification Sanse.tla)        *)
(*   seal     the output must equal Sanse!Seal on the tracked session                              *)
(*   open     result (success / failure) and plaintext must equal Sanse!Open; the session advances *)
(*            also when the tag is wrong                                                           *)
(*   vector   like seal, but the expected output comes from the published XKCP transcript           *)
(*            (kravatte/testdata/xkcp-sanse.txt), not from the code: the anchor of Sanse.tla        *)
(*   mask     the derived mask for a key must equal Sanse!Mask (and the transcript's dumpK)         *)
(*   tamper   a copy with one bit of ciphertext, tag or associated data flipped must not open        *)
(*   keybyte  changing one key byte must change the sealed output                                   *)
(*   alias    sealing / opening with overlapping buffers gives the same bytes as with disjoint ones  *)
(*            and leaves the caller's other bytes alone                                             *)
EXTENDS Sanse, Json
Trace == ndJsonDeserialize("trace.ndjson")
VARIABLES l, sess, bad
Ev == Trace[l]
Good(e) ==
    CASE e.op = "seal"   -> Seal(sess[e.inst], e.ad, e.pt).out = e.out
      [] e.op = "vector" -> Seal(NewSession(e.key), e.ad, e.pt).out = e.out
      [] e.op = "mask"   -> Lanes2Bytes(Mask(e.key)) = e.out
      [] e.op = "open"   -> LET r == Open(sess[e.inst], e.ad, e.ct) IN r.ok = e.ok /\ (r.ok => r.out = e.out)
      [] e.op = "tamper" -> ~e.ok
      [] e.op = "keybyte" -> e.differs
      [] e.op = "alias"  -> e.same_output /\ e.rest_intact
      [] e.op = "roundtrip" -> e.ok
      [] OTHER -> TRUE
TInit == l = 1 /\ bad = 0 /\ sess = [i \in {} |-> 0]
TNext == /\ l <= Len(Trace) /\ l' = l + 1
         /\ IF Good(Ev) THEN bad' = bad ELSE bad' = bad + 1 /\ PrintT(<<"MISMATCH", l>>)
         /\ sess' = CASE Ev.op = "new"  -> [i \in DOMAIN sess \cup {Ev.inst} |-> IF i = Ev.inst THEN NewSession(Ev.key) ELSE sess[i]]
                      [] Ev.op = "seal" -> [sess EXCEPT ![Ev.inst] = Seal(@, Ev.ad, Ev.pt).st]
                      [] Ev.op = "open" -> [sess EXCEPT ![Ev.inst] = Open(@, Ev.ad, Ev.ct).st]
                      [] Ev.op = "reset" -> [i \in {} |-> 0]
                      [] OTHER -> sess
TSpec == TInit /\ [][TNext]_<<l, sess, bad>>
HW == TLCSet(1, l)
Accepted == TLCGet(1) = Len(Trace) + 1
=============================================================================
