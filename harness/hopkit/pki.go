// Package hopkit builds real Hop transport endpoints (servers, clients, certificate material with
// chosen defects) on top of simwire for the replay and trace drivers.
package hopkit

import (
	"bytes"
	"crypto/ed25519"
	"crypto/rand"
	"fmt"
	"os"
	"time"

	"hop.computer/hop/authkeys"
	"hop.computer/hop/certs"
	"hop.computer/hop/config"
	"hop.computer/hop/hopserver"
	"hop.computer/hop/keys"
	"hop.computer/hop/transport"
)

// PKI holds two certificate hierarchies: a trusted one (root T) and a foreign one (root F).
type PKI struct {
	TRootKey, TInterKey, FRootKey, FInterKey *keys.SigningKeyPair
	TRoot, TInter, FRoot, FInter             *certs.Certificate
	Store                                    certs.Store // trusts TRoot only
}

func must(err error) {
	if err != nil {
		panic(err)
	}
}

func hierarchy() (*keys.SigningKeyPair, *keys.SigningKeyPair, *certs.Certificate, *certs.Certificate) {
	rk := keys.GenerateNewSigningKeyPair()
	root, err := certs.SelfSignRoot(certs.SigningIdentity(rk), rk)
	must(err)
	must(root.ProvideKey((*[32]byte)(&rk.Private)))
	ik := keys.GenerateNewSigningKeyPair()
	inter, err := certs.IssueIntermediate(root, certs.SigningIdentity(ik))
	must(err)
	must(inter.ProvideKey((*[32]byte)(&ik.Private)))
	return rk, ik, root, inter
}

// NewPKI creates fresh hierarchies.
func NewPKI() *PKI {
	p := &PKI{}
	p.TRootKey, p.TInterKey, p.TRoot, p.TInter = hierarchy()
	p.FRootKey, p.FInterKey, p.FRoot, p.FInter = hierarchy()
	p.Store.AddCertificate(p.TRoot)
	return p
}

// Ident is a certificate (with its presented intermediate) plus the key pair an endpoint holds.
type Ident struct {
	Class string
	Leaf  *certs.Certificate
	Inter *certs.Certificate  // presented intermediate (may be nil)
	Key   *keys.X25519KeyPair // the private key this endpoint actually holds
	Owns  bool                // Key matches Leaf.PublicKey
}

// forge builds a certificate with arbitrary fields through the real serialiser, signs it with
// the given Ed25519 signing key and parses the result with the real parser.
func forge(typ certs.CertificateType, issued, expires time.Time, names []certs.Name, pub keys.DHPublicKey,
	parent certs.SHA3Fingerprint, signer *keys.SigningKeyPair) *certs.Certificate {
	c := &certs.Certificate{Version: certs.Version, Type: typ, IssuedAt: issued, ExpiresAt: expires,
		IDChunk: certs.IDChunk{Blocks: names}, PublicKey: pub, Parent: parent}
	b, err := c.Marshal()
	must(err)
	sk := ed25519.NewKeyFromSeed(signer.Private[:])
	copy(b[len(b)-64:], ed25519.Sign(sk, b[:len(b)-64]))
	out := new(certs.Certificate)
	_, err = out.ReadFrom(bytes.NewReader(b))
	must(err)
	return out
}

// Issue makes an identity of the given class for the given DNS name:
//
//	valid       chain under the trusted root, leaf names `name`
//	expired     same, but the leaf's validity ended an hour ago
//	notyet      same, but the leaf becomes valid in an hour
//	wrongtype   same, but the "leaf" carries the intermediate type byte
//	untrusted   well-formed chain under the foreign root
//	selfsigned  self-signed leaf (no chain)
//	badsig      chain under the trusted root, leaf signature made by a foreign key
func (p *PKI) Issue(class, name string) *Ident {
	k := keys.GenerateNewX25519KeyPair()
	id := &Ident{Class: class, Key: k, Owns: true}
	names := []certs.Name{certs.DNSName(name)}
	now := time.Now()
	var err error
	switch class {
	case "valid":
		id.Leaf, err = certs.IssueLeaf(p.TInter, certs.LeafIdentity(k, names...))
		must(err)
		id.Inter = p.TInter
	case "expired":
		id.Leaf = forge(certs.Leaf, now.Add(-2*time.Hour), now.Add(-time.Hour), names, k.Public, p.TInter.Fingerprint, p.TInterKey)
		id.Inter = p.TInter
	case "notyet":
		id.Leaf = forge(certs.Leaf, now.Add(time.Hour), now.Add(2*time.Hour), names, k.Public, p.TInter.Fingerprint, p.TInterKey)
		id.Inter = p.TInter
	case "wrongtype":
		id.Leaf = forge(certs.Intermediate, now.Add(-time.Minute), now.Add(time.Hour), names, k.Public, p.TInter.Fingerprint, p.TInterKey)
		id.Inter = p.TInter
	case "untrusted":
		id.Leaf, err = certs.IssueLeaf(p.FInter, certs.LeafIdentity(k, names...))
		must(err)
		id.Inter = p.FInter
	case "selfsigned":
		id.Leaf, err = certs.SelfSignLeaf(&certs.Identity{PublicKey: k.Public, Names: names})
		must(err)
	case "badsig":
		id.Leaf = forge(certs.Leaf, now.Add(-time.Minute), now.Add(time.Hour), names, k.Public, p.TInter.Fingerprint, p.FInterKey)
		id.Inter = p.TInter
	default:
		panic("unknown identity class " + class)
	}
	return id
}

// IssueRawName makes a valid chain whose leaf carries the label as a RAW name instead of a DNS name.
func (p *PKI) IssueRawName(label string) *Ident {
	k := keys.GenerateNewX25519KeyPair()
	leaf, err := certs.IssueLeaf(p.TInter, certs.LeafIdentity(k, certs.RawStringName(label)))
	must(err)
	return &Ident{Class: "valid-rawname", Leaf: leaf, Inter: p.TInter, Key: k, Owns: true}
}

// Impostor presents victim's certificates but holds a fresh, different key.
func Impostor(victim *Ident) *Ident {
	return &Ident{Class: "impostor(" + victim.Class + ")", Leaf: victim.Leaf, Inter: victim.Inter, Key: keys.GenerateNewX25519KeyPair(), Owns: false}
}

// Policy builds a VerifyConfig.
//
//	store     CA store with the trusted root
//	authkeys  authorized keys only (the given keys), empty store
//	both      authorized keys, then CA store
//	skip      InsecureSkipVerify
func (p *PKI) Policy(kind string, name string, authorized ...keys.DHPublicKey) *transport.VerifyConfig {
	vc := &transport.VerifyConfig{}
	if name != "" {
		vc.Name = certs.DNSName(name)
	}
	mkset := func() *authkeys.SyncAuthKeySet {
		s := authkeys.NewSyncAuthKeySet()
		for _, k := range authorized {
			s.AddKey(k)
		}
		return s
	}
	switch kind {
	case "store":
		vc.Store = p.Store
	case "authkeys":
		vc.AuthKeys = mkset()
		vc.AuthKeysAllowed = true
	case "both":
		vc.Store = p.Store
		vc.AuthKeys = mkset()
		vc.AuthKeysAllowed = true
	case "skip":
		vc.InsecureSkipVerify = true
	default:
		panic("unknown policy " + kind)
	}
	return vc
}

// NewKEM generates a static KEM key pair for hidden mode.
func NewKEM() *keys.KEMKeyPair {
	k, err := keys.GenerateKEMKeyPair(rand.Reader)
	must(err)
	return k
}

// String describes an identity.
func (i *Ident) String() string { return fmt.Sprintf("%s(owns=%v)", i.Class, i.Owns) }

// PolicyViaConfigFile builds the same server-side policy as Policy(kind, "") the way hopd does: the administrator's
// configuration file is written to disk (switches that are off are rendered as "= false" or left out, by variant),
// read by config.LoadServerConfigFromFile, turned into a transport configuration by hopserver.NewHopServer, and the
// ClientVerify of THAT configuration is returned (authorized keys are then added to its key set).
func (p *PKI) PolicyViaConfigFile(kind string, variant int, authorized ...keys.DHPublicKey) (*transport.VerifyConfig, error) {
	dir, err := os.MkdirTemp("", "vf-srvcfg-")
	if err != nil {
		return nil, err
	}
	defer os.RemoveAll(dir)
	kp := keys.GenerateNewX25519KeyPair()
	leaf, err := certs.SelfSignLeaf(&certs.Identity{PublicKey: kp.Public, Names: []certs.Name{certs.DNSName("cfg.example")}})
	if err != nil {
		return nil, err
	}
	lb, err := certs.EncodeCertificateToPEM(leaf)
	if err != nil {
		return nil, err
	}
	rb, err := certs.EncodeCertificateToPEM(p.TRoot)
	if err != nil {
		return nil, err
	}
	os.WriteFile(dir+"/id.pem", []byte(kp.Private.String()), 0600)
	os.WriteFile(dir+"/id.cert", lb, 0600)
	os.WriteFile(dir+"/root.cert", rb, 0600)
	txt := fmt.Sprintf("ListenAddress = \"127.0.0.1:0\"\nKey = %q\nCertificate = %q\n", dir+"/id.pem", dir+"/id.cert")
	sw := func(name string, on bool) {
		switch {
		case on:
			txt += name + " = true\n"
		case variant%2 == 0:
			txt += name + " = false\n"
		}
	}
	switch kind {
	case "store":
		txt += fmt.Sprintf("CAFiles = [%q]\n", dir+"/root.cert")
		sw("InsecureSkipVerify", false)
		sw("DisableCertificateValidation", false)
		sw("EnableAuthorizedKeys", false)
	case "skip":
		sw("InsecureSkipVerify", true)
		sw("EnableAuthorizedKeys", false)
	case "authkeys":
		sw("InsecureSkipVerify", false)
		sw("DisableCertificateValidation", true)
		sw("EnableAuthorizedKeys", true)
	case "both":
		txt += fmt.Sprintf("CAFiles = [%q]\n", dir+"/root.cert")
		sw("InsecureSkipVerify", false)
		sw("DisableCertificateValidation", false)
		sw("EnableAuthorizedKeys", true)
	default:
		return nil, fmt.Errorf("unknown policy %s", kind)
	}
	sw("EnableAuthgrants", false)
	if err := os.WriteFile(dir+"/config.toml", []byte(txt), 0600); err != nil {
		return nil, err
	}
	sc, err := config.LoadServerConfigFromFile(dir + "/config.toml")
	if err != nil {
		return nil, err
	}
	hs, err := hopserver.NewHopServer(sc)
	if err != nil || hs.Server == nil {
		return nil, fmt.Errorf("NewHopServer: %v", err)
	}
	vc := hs.Server.VerifConfig().ClientVerify
	hs.Server.Close()
	if vc == nil {
		return nil, fmt.Errorf("no ClientVerify derived")
	}
	if vc.AuthKeys != nil {
		for _, k := range authorized {
			vc.AuthKeys.AddKey(k)
		}
	}
	return vc, nil
}

// IssueShortLived makes a valid chain under the trusted root whose leaf expires `life` from now (whole seconds).
func (p *PKI) IssueShortLived(name string, life time.Duration) *Ident {
	k := keys.GenerateNewX25519KeyPair()
	now := time.Now()
	exp := now.Add(life).Truncate(time.Second).Add(time.Second)
	leaf := forge(certs.Leaf, now.Add(-time.Minute), exp, []certs.Name{certs.DNSName(name)}, k.Public, p.TInter.Fingerprint, p.TInterKey)
	return &Ident{Class: "short-lived", Leaf: leaf, Inter: p.TInter, Key: k, Owns: true}
}
