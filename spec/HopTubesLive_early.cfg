SPECIFICATION Spec
CONSTANTS D = 2  Win = 2  MaxLoss = 2  LingerOutlastsLoss = FALSE
INVARIANT Prefix
PROPERTIES Complete BothClose
CHECK_DEADLOCK FALSE
