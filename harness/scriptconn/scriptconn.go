// Package scriptconn is an in-memory pair of transport.MsgConn endpoints for two tube muxers with
// per-frame fault control: every frame written is parsed (tube id, flags, numbers, length), counted per
// identity, logged, and dropped / duplicated / delayed / delivered as a policy decides.
package scriptconn

import (
	"encoding/binary"
	"errors"
	"net"
	"os"
	"sync"
	"time"
)

// Frame is the parsed header of a tube frame (data and initiate frames share the first 4 bytes).
type Frame struct {
	Dir                           int // 0: A->B, 1: B->A
	Tube                          byte
	REQ, RESP, REL, ACK, FIN, RTR bool
	DataLen                       int
	AckNo                         uint32
	FrameNo                       uint32
	Len                           int
	Nth                           int // n-th transmission (1-based) of this identity (dir, tube, kind, frameNo)
	Seq                           int // global sequence number of the write
	At                            time.Duration
	Raw                           []byte
}

// Kind classifies a frame for fault keys: "req", "resp", "fin", "data", "ack".
func (f *Frame) Kind() string {
	switch {
	case f.REQ:
		return "req"
	case f.RESP:
		return "resp"
	case f.FIN:
		return "fin"
	case f.DataLen > 0:
		return "data"
	}
	return "ack"
}

// Action is a policy decision.
type Action struct {
	Drop     bool
	Dups     int           // extra copies
	Delay    time.Duration // delivery delay of all copies
	DupDelay time.Duration // additional delay of the extra copies only (a late duplicate)
}

// Policy decides per frame.  It is called with the network lock held; it must not block.
type Policy func(f *Frame) Action

// Net is the pair.
type Net struct {
	mu         sync.Mutex
	A, B       *End
	policy     Policy
	start      time.Time
	seq        int
	counts     map[[4]uint32]int
	Log        []Frame // every write, with the action applied recorded in Applied
	Applied    []Action
	outage     [2]time.Time // drop everything between these instants
	KeepRaw    bool
	writeErrAt time.Time // after this instant WriteMsg fails (zero: never)
}

// End is one endpoint.
type End struct {
	n        *Net
	dir      int
	peer     *End
	mu       sync.Mutex
	cond     *sync.Cond
	q        [][]byte
	closed   bool
	deadline time.Time
	dlGen    int
	name     string
}

// New creates a connected pair; policy may be nil (faithful).
func New(policy Policy) *Net {
	n := &Net{policy: policy, start: time.Now(), counts: map[[4]uint32]int{}}
	n.A = &End{n: n, dir: 0, name: "A"}
	n.B = &End{n: n, dir: 1, name: "B"}
	n.A.cond = sync.NewCond(&n.A.mu)
	n.B.cond = sync.NewCond(&n.B.mu)
	n.A.peer, n.B.peer = n.B, n.A
	return n
}

// SetPolicy replaces the policy.
func (n *Net) SetPolicy(p Policy) {
	n.mu.Lock()
	n.policy = p
	n.mu.Unlock()
}

// FailWritesAfter makes every WriteMsg on both ends return an error from d after now on (the socket reports
// e.g. "connection refused"), while reads keep working.
func (n *Net) FailWritesAfter(d time.Duration) {
	n.mu.Lock()
	n.writeErrAt = time.Now().Add(d)
	n.mu.Unlock()
}

// Outage drops every frame written in the next d.
func (n *Net) Outage(d time.Duration) {
	n.mu.Lock()
	n.outage = [2]time.Time{time.Now(), time.Now().Add(d)}
	n.mu.Unlock()
}

func parse(dir int, b []byte) Frame {
	f := Frame{Dir: dir, Len: len(b)}
	if len(b) < 4 {
		return f
	}
	f.Tube = b[0]
	m := b[1]
	f.REQ, f.RESP, f.REL, f.ACK, f.FIN, f.RTR = m&1 != 0, m&2 != 0, m&4 != 0, m&8 != 0, m&16 != 0, m&32 != 0
	f.DataLen = int(binary.BigEndian.Uint16(b[2:4]))
	if f.REQ || f.RESP {
		if len(b) >= 10 {
			f.FrameNo = binary.BigEndian.Uint32(b[6:10])
		}
	} else if len(b) >= 12 {
		f.AckNo = binary.BigEndian.Uint32(b[4:8])
		f.FrameNo = binary.BigEndian.Uint32(b[8:12])
	}
	return f
}

func kindCode(k string) uint32 {
	switch k {
	case "req":
		return 1
	case "resp":
		return 2
	case "fin":
		return 3
	case "data":
		return 4
	}
	return 5
}

// WriteMsg implements transport.MsgWriter.
func (e *End) WriteMsg(b []byte) error {
	e.mu.Lock()
	closed := e.closed
	e.mu.Unlock()
	if closed {
		return net.ErrClosed
	}
	n := e.n
	n.mu.Lock()
	if !n.writeErrAt.IsZero() && time.Now().After(n.writeErrAt) {
		n.mu.Unlock()
		return errWrite
	}
	f := parse(e.dir, b)
	n.seq++
	f.Seq = n.seq
	f.At = time.Since(n.start)
	key := [4]uint32{uint32(e.dir), uint32(f.Tube), kindCode(f.Kind()), f.FrameNo}
	if f.Kind() == "ack" {
		key[3] = f.AckNo
	}
	n.counts[key]++
	f.Nth = n.counts[key]
	if n.KeepRaw {
		f.Raw = append([]byte(nil), b...)
	}
	var act Action
	now := time.Now()
	if now.After(n.outage[0]) && now.Before(n.outage[1]) {
		act.Drop = true
	} else if n.policy != nil {
		act = n.policy(&f)
	}
	n.Log = append(n.Log, f)
	n.Applied = append(n.Applied, act)
	n.mu.Unlock()
	if act.Drop {
		return nil
	}
	data := append([]byte(nil), b...)
	deliver := func() {
		e.peer.push(data)
		for k := 0; k < act.Dups; k++ {
			if act.DupDelay > 0 {
				time.AfterFunc(act.DupDelay, func() { e.peer.push(data) })
			} else {
				e.peer.push(data)
			}
		}
	}
	if act.Delay > 0 {
		time.AfterFunc(act.Delay, deliver)
	} else {
		deliver()
	}
	return nil
}

func (e *End) push(b []byte) {
	e.mu.Lock()
	if !e.closed {
		e.q = append(e.q, b)
		e.cond.Broadcast()
	}
	e.mu.Unlock()
}

// Inject delivers raw bytes to this endpoint as if the peer had written them.
func (e *End) Inject(b []byte) { e.push(append([]byte(nil), b...)) }

var errWrite = errors.New("write: connection refused (injected)")

type timeoutErr struct{}

func (timeoutErr) Error() string   { return "i/o timeout" }
func (timeoutErr) Timeout() bool   { return true }
func (timeoutErr) Temporary() bool { return true }
func (timeoutErr) Unwrap() error   { return os.ErrDeadlineExceeded }

// ReadMsg implements transport.MsgReader.
func (e *End) ReadMsg(b []byte) (int, error) {
	e.mu.Lock()
	defer e.mu.Unlock()
	for {
		if len(e.q) > 0 {
			m := e.q[0]
			e.q = e.q[1:]
			return copy(b, m), nil
		}
		if e.closed {
			return 0, net.ErrClosed
		}
		if !e.deadline.IsZero() && !time.Now().Before(e.deadline) {
			return 0, timeoutErr{}
		}
		e.cond.Wait()
	}
}

// Read implements net.Conn.
func (e *End) Read(b []byte) (int, error) { return e.ReadMsg(b) }

// Write implements net.Conn.
func (e *End) Write(b []byte) (int, error) { return len(b), e.WriteMsg(b) }

// Close implements net.Conn.
func (e *End) Close() error {
	e.mu.Lock()
	defer e.mu.Unlock()
	if e.closed {
		return errors.New("already closed")
	}
	e.closed = true
	e.cond.Broadcast()
	return nil
}

// Closed reports whether Close was called on this endpoint.
func (e *End) Closed() bool {
	e.mu.Lock()
	defer e.mu.Unlock()
	return e.closed
}

type addr string

func (a addr) Network() string { return "scriptconn" }
func (a addr) String() string  { return string(a) }

// LocalAddr implements net.Conn.
func (e *End) LocalAddr() net.Addr { return addr(e.name) }

// RemoteAddr implements net.Conn.
func (e *End) RemoteAddr() net.Addr { return addr(e.peer.name) }

// SetDeadline implements net.Conn.
func (e *End) SetDeadline(t time.Time) error { return e.SetReadDeadline(t) }

// SetWriteDeadline implements net.Conn.
func (e *End) SetWriteDeadline(t time.Time) error { return nil }

// SetReadDeadline implements net.Conn.
func (e *End) SetReadDeadline(t time.Time) error {
	e.mu.Lock()
	e.deadline = t
	e.dlGen++
	gen := e.dlGen
	e.cond.Broadcast()
	e.mu.Unlock()
	if !t.IsZero() {
		d := time.Until(t)
		if d < 0 {
			d = 0
		}
		time.AfterFunc(d, func() {
			e.mu.Lock()
			if e.dlGen == gen {
				e.cond.Broadcast()
			}
			e.mu.Unlock()
		})
	}
	return nil
}

// Snapshot returns a copy of the log.
func (n *Net) Snapshot() ([]Frame, []Action) {
	n.mu.Lock()
	defer n.mu.Unlock()
	return append([]Frame(nil), n.Log...), append([]Action(nil), n.Applied...)
}
