package portforwarding

// Verification driver (added with `go test -overlay`): round trips of the port-forward address packet.

import (
	"bytes"
	"encoding/json"
	"net"
	"os"
	"strings"
	"testing"
)

func TestVerifWirePF(t *testing.T) {
	out := os.Getenv("VT_OUT")
	if out == "" {
		t.Skip("VT_OUT not set")
	}
	f, err := os.Create(out)
	if err != nil {
		t.Fatal(err)
	}
	defer f.Close()
	yn := func(b bool) string {
		if b {
			return "yes"
		}
		return "no"
	}
	emit := func(addr net.Addr, n int, fwd int) {
		var b []byte
		var got net.Addr
		var gf byte
		e, d := "ok", "ok"
		func() {
			defer func() {
				if r := recover(); r != nil {
					e = "panic"
				}
			}()
			b = toBytes(addr, fwd)
			if b == nil {
				e = "err" // the encoder refuses by returning nothing
			}
		}()
		same := false
		if e == "ok" {
			func() {
				defer func() {
					if r := recover(); r != nil {
						d = "panic"
					}
				}()
				var err error
				got, gf, err = readPacket(bytes.NewReader(b))
				if err != nil {
					d = "err"
				}
			}()
			same = d == "ok" && got.Network() == addr.Network() && got.String() == addr.String() && int(gf) == fwd
		}
		bb, _ := json.Marshal(map[string]interface{}{"ev": "rt", "codec": "pfaddr", "lens": map[string]int{"addr": n}, "enumok": "yes", "enc": e, "dec": d, "same": yn(same), "bytes": len(b)})
		f.Write(append(bb, '\n'))
	}
	for _, port := range []int{0, 1, 53, 80, 32767, 32768, 65535} {
		for _, ip := range []string{"127.0.0.1", "10.1.2.3", "::1", "fd00::1234"} {
			a := &net.TCPAddr{IP: net.ParseIP(ip), Port: port}
			emit(a, len(a.String()), 1)
			u := &net.UDPAddr{IP: net.ParseIP(ip), Port: port}
			emit(u, len(u.String()), 2)
		}
	}
	for _, n := range []int{1, 10, 107, 108, 255, 256, 65535, 65536, 70000} {
		emit(&net.UnixAddr{Name: "/" + strings.Repeat("s", n-1), Net: "unix"}, n, 3)
	}
}
