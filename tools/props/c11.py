# C11 — no peer-supplied frame or protocol message can crash or wedge the process (DESIGN.md §3 C11)
import json, os, re, concurrent.futures
import lib

LEVEL = "fault_enumeration"

def run(v, tier, replay):
    thorough = tier == "thorough"
    v.level = "fault_enumeration"
    v.assumptions += ["the frame class product (tube reference x declared-vs-actual length x acknowledgement class x frame-number class x all 64 flag bytes) and the decoder x byte-class product are enumerated by TLC from HopHostile.tla; each class is realised by one concrete frame / byte string (contents seeded)",
                      "hostile frames are injected into the victim muxer's transport as an authenticated peer would send them; a witness tube must keep carrying data both ways and both muxers must stop within 8 s",
                      "decoder memory: bytes allocated during the call (runtime.MemStats.TotalAlloc delta) <= 256 KiB + 16 x bytes received"]
    binp = lib.go_build("c11")
    r = lib.tlc("HopHostile", "MC_HopHostile.cfg", timeout=300)
    lib.tlc_must_pass(r, "MC_HopHostile"); v.add_tlc("MC_HopHostile (class products, postcondition)", r)
    m = re.search(r'^<<"EDGES", "(.*)">>$', r.out, re.M)
    edges = json.loads(m.group(1).replace('\\"', '"'))
    fedges = {(e["t"], e["l"], e["a"], e["n"]) for e in edges["frames"]}
    dedges = {(e["d"], e["c"]) for e in edges["decoders"]}
    sd = lib.scratch("vf-c11-")
    # the session accept loop as a state machine: NoCrash, behaviours (tube-open sequences with the phase reached)
    opens = []
    for cfg in ["HopSession.cfg"] + (["HopSession_deep.cfg"] if thorough else []):
        rs = lib.tlc("HopSession", cfg, timeout=300)
        lib.tlc_must_pass(rs, cfg); v.add_tlc(cfg + " (session accept loop: NoCrash; behaviours emitted)", rs)
        for m in re.finditer(r'^<<"SESS", "(.*)">>$', rs.out, re.M):
            b = json.loads(m.group(1).replace('\\"', '"'))
            same = [o for o in opens if o["seq"] == b["seq"] and o["pre"] == b["pre"]]
            if not same:
                opens.append(b)
            elif same[0]["phase"] != b["phase"]:
                same[0]["phase"] = "any"     # the model allows more than one phase (how a garbled user name is read)
    rs = lib.tlc("HopSession", "HopSession_bad.cfg", timeout=120)
    v.add_tlc("HopSession_bad.cfg (second execution tube identified by its type byte only: must violate NoCrash)", rs)
    if rs.kind != "invariant":
        raise lib.Inconclusive("self-test: HopSession_bad does not violate NoCrash (%s)" % rs.kind)
    nseeds = 5 if thorough else 1        # the frames' random payloads and the decoders' random inputs depend on the seed
    jobs = [("frames", str(g), k) for g in range(9) for k in range(nseeds)] + [("flood", "", k) for k in range(nseeds)] + [("decoders", "", k) for k in range(nseeds)]
    def child(j):
        mode, g, k = j
        out = os.path.join(sd, "%s%s-%d.ndjson" % (mode, g, k))
        args = [binp, mode, out, str(lib.seed() + 7919 * k)] + ([g] if g else [])
        rc, so, se = lib.run(args, timeout=900)
        return j, rc, out, (so + se)[-4000:]
    # the client-side decoder of the execution status (unexported: add-only overlay test in package codex)
    ov_out = os.path.join(sd, "execstatus.ndjson")
    orc, oso, ose = lib.overlay_test("codex", "^TestVerifHostileExecStatus$", env_extra={"VT_OUT": ov_out}, timeout=600)
    if orc != 0 or not os.path.exists(ov_out):
        raise lib.Inconclusive("overlay driver codex failed: %s" % (oso + ose)[-2000:])
    events, fcov, dcov = [], set(), set()
    # the session layer: hostile tube-open sequences against a real session loop (unexported: overlay test in hopserver)
    of_in, of_out = os.path.join(sd, "opens.json"), os.path.join(sd, "opens.ndjson")
    json.dump(opens, open(of_in, "w"))
    orc, oso, ose = lib.overlay_test("hopserver", "^TestVerifHostileTubeOpens$", env_extra={"VT_IN": of_in, "VT_OUT": of_out}, timeout=900, only=["zz_verif_grants_test.go", "zz_verif_hostile_test.go"])
    oev = lib.read_ndjson(of_out) if os.path.exists(of_out) else []
    done_i = {e["i"] for e in oev if e["ev"] == "session"}
    if orc != 0 or not any(e["ev"] == "summary" for e in oev):
        tail = oso + ose
        reason = [l for l in tail.split("\n") if (l.startswith("panic:") and "test timed out" not in l) or "fatal error" in l]
        if not reason:
            raise lib.Inconclusive("overlay driver hopserver failed: %s" % tail[-2000:])
        inflight = [e for e in oev if e["ev"] == "opens" and e["i"] not in done_i]
        stack = [l.strip() for l in tail.split("\n") if lib.REPO_MARK in l and "zz_verif" not in l][:4]
        events.append(dict(ev="crash", mode="session", reason=reason[0][:300], stack=stack,
                           last=dict(ref="one of %d tube-open sequences in flight, e.g. " % len(inflight) + json.dumps((inflight or [dict(seq="?")])[0]["seq"]), len="-", ack="-", no="-")))
    events += [e for e in oev if e["ev"] == "session"]
    for e in oev:
        if e["ev"] == "opens":
            v.case(("opens", json.dumps(e["seq"], sort_keys=True)))
    v.cov["open_sequences_in_spec"] = len(opens); v.cov["open_sequences_executed"] = len(done_i)
    # conformance of the session model (not a property clause): a loop the model leaves accepting closes the unknown
    # fence tube at once; a session the model shuts down answers nothing any more
    diffs = []
    for e in oev:
        if e["ev"] == "session" and e.get("admitted") == "yes":
            ph = opens[e["i"]]["phase"]
            if (ph == "loop" and e["fence"] != "eof") or (ph == "closed" and e["fence"] == "eof"):
                diffs.append((opens[e["i"]], e["fence"]))
            else:
                v.cov["traces_validated_against_impl"] += 1
    if diffs and orc == 0:
        # a difference counts only if it is reproduced when the behaviour is run again on its own (the fence is a
        # timed observation; a loaded machine may be late once)
        again = [d[0] for d in diffs]
        v.cov["session_model_differences_first_pass"] = len(diffs)
        json.dump(again, open(of_in + ".again", "w"))
        arc, aso, ase = lib.overlay_test("hopserver", "^TestVerifHostileTubeOpens$", env_extra={"VT_IN": of_in + ".again", "VT_OUT": of_out + ".again"}, timeout=600, only=["zz_verif_grants_test.go", "zz_verif_hostile_test.go"])
        aev = lib.read_ndjson(of_out + ".again") if os.path.exists(of_out + ".again") else []
        if arc != 0 or not any(e["ev"] == "summary" for e in aev):
            raise lib.Inconclusive("re-run of differing session behaviours failed: %s" % (aso + ase)[-1500:])
        diffs = [(again[e["i"]], e["fence"]) for e in aev if e["ev"] == "session" and e.get("admitted") == "yes"
                 and ((again[e["i"]]["phase"] == "loop" and e["fence"] != "eof") or (again[e["i"]]["phase"] == "closed" and e["fence"] == "eof"))]
    v.cov["session_model_differences"] = len(diffs)
    ov = lib.read_ndjson(ov_out)
    for e in ov:
        if e["ev"] == "case":
            dcov.add((e["ref"][8:], e["len"]))
    events += [e for e in ov if e["ev"] == "decode"]
    with concurrent.futures.ThreadPoolExecutor(max_workers=8) as ex:
        for j, rc, out, tail in ex.map(child, jobs):
            evs = lib.read_ndjson(out) if os.path.exists(out) else []
            cases = [e for e in evs if e["ev"] == "case"]
            for e in cases:
                if e["ref"].startswith("decoder:"):
                    dcov.add((e["ref"][8:], e["len"]))
                else:
                    fcov.add((e["ref"], e["len"], e["ack"], e["no"]))
                v.case((e["ref"], e["len"], e["ack"], e["no"], e["meta"]))
            if rc is None:
                raise lib.Inconclusive("child %s timed out" % (j,))
            if rc != 0 and not any(e["ev"] == "done" for e in evs):
                last = cases[-1] if cases else None
                reason = [l for l in tail.split("\n") if l.startswith("panic:") or "fatal error" in l]
                if rc == 3 or not reason:
                    evs.append(dict(ev="crash", mode=j[0], reason="driver stuck / exited %s" % rc, last=last, stack=[]))
                else:
                    evs.append(dict(ev="crash", mode=j[0], reason=reason[0][:300], last=last, stack=[l.strip() for l in tail.split("\n") if lib.REPO_MARK in l][:4]))
            events += [dict(e, group="%s%s" % j[:2]) for e in evs if e["ev"] in ("probe", "stop", "decode", "crash")]
    v.cov["frame_edges_in_spec"] = len(fedges); v.cov["frame_edges_executed"] = len(fedges & fcov)
    v.cov["decoder_edges_in_spec"] = len(dedges); v.cov["decoder_edges_executed"] = len(dedges & dcov)
    v.cov["decoder_edges_not_executed"] = sorted(map(list, dedges - dcov))[:20]
    tr = os.path.join(sd, "trace.ndjson")
    lib.write_ndjson(tr, events or [dict(ev="none")])
    r = lib.tlc("Trace_HopHostile", "Trace_HopHostile.cfg", files={"trace.ndjson": "@" + tr}, workers=1, timeout=900)
    v.add_tlc("Trace_HopHostile", r)
    if not r.ok:
        raise lib.Inconclusive("trace not consumed: %s\n%s" % (r.kind, r.out[-1500:]))
    v.cov["traces_validated_against_impl"] += len(jobs)
    if diffs and not v.viol:
        raise lib.Inconclusive("session model and code differ on %d tube-open sequence(s), e.g. %s: the model says phase %s, the fence tube saw %s" % (len(diffs), json.dumps(diffs[0][0]["seq"]), diffs[0][0]["phase"], diffs[0][1]))
    v.cov["rule"] = "one case = one hostile frame injected (class x flag byte) or one byte string fed to a decoder; all are non-trivial (peer-controlled input)"
    for e in events[:2] + [e for e in events if e["ev"] == "decode"][:2]:
        v.sample(e)
    for m in re.finditer(r'<<"MISMATCH", (\d+)>>', r.out):
        e = events[int(m.group(1)) - 1]
        if e["ev"] == "crash":
            last = e.get("last") or {}
            where = (e["stack"] or ["?"])[0].split(" ")[0].split(lib.REPO_MARK)[-1]
            sig = "crash in %s after %s | %s | %s" % (e["mode"], "%s len=%s ack=%s no=%s" % (last.get("ref"), last.get("len"), last.get("ack"), last.get("no")), e["reason"][:100], where)
        elif e["ev"] == "probe":
            sig = "witness tube broken after hostile frames %s: %s" % (e["after"], e["witness"][:80])
        elif e["ev"] == "session":
            sq = opens[e["i"]]["seq"]
            sig = "after the tube-open sequence %s the server no longer admits a connection" % json.dumps(sq, sort_keys=True)
        elif e["ev"] == "stop":
            sig = "muxer Stop did not return within 8 s after hostile frames (%s)" % e["group"]
        else:
            sig = "decoder %s class %s (%d bytes): outcome %s, %d bytes allocated" % (e["decoder"], e["class"], e["bytes"], e["outcome"][:60], e["alloc"])
        v.violation(sig, "hostile authenticated peer against a real muxer / decoder, judged by Trace_HopHostile", e)
