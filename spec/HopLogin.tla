------------------------------ MODULE HopLogin ------------------------------
(* User login on a Hop server (hopserver.checkAuthorization, AuthorizeKey,                   *)
(* AuthorizeKeyAuthGrant, AddAuthGrant; core.ParseAuthorizedKeys).                           *)
(*                                                                                           *)
(* A user's authorized-keys file is a record [st, lines]: st = "missing", "dir" (present but  *)
(* unreadable as a file) or "file" with a sequence of lines; a line is [c |-> class, k |-> key]:                           *)
(*    key      a well-formed entry for key k          blank    whitespace only               *)
(*    comment  "# ..." text                            garbage  arbitrary text                *)
(*    trunc    entry for k with its base64 cut short  prefix   entry for k with a wrong prefix *)
(*    spaced   a well-formed entry for k surrounded by blanks/tabs                           *)
(* Grants live in a map user -> key -> count; the transport key set mirrors the granted keys *)
(*                                                                                           *)
(* Allowed(u,k) is the property of C05 (what may be granted at most).  Login is the model of *)
(* the code's decision; the design-level invariant is Login-granted => Allowed.  The code's  *)
(* parser rejects the whole file on the first line it cannot parse, which is stricter than   *)
(* the property needs; the binding therefore judges the real result by Allowed only.         *)
EXTENDS Integers, Sequences, FiniteSets, TLC, Json

CONSTANTS Users, Keys, Files1,      \* candidate files of the first user (set of file values)
          MaxHist,                  \* history length bound
          Enabled                   \* authorization grants enabled?

U1 == CHOOSE u \in Users : TRUE
NoKey == "-"
L(c, k) == [c |-> c, k |-> k]

F(st, lines) == [st |-> st, lines |-> lines]        \* st: "missing" | "dir" | "file"
IsSeq(f) == f.st = "file"
Listed(f, k) == IsSeq(f) /\ \E i \in 1..Len(f.lines) : f.lines[i].c \in {"key", "spaced"} /\ f.lines[i].k = k
Parses(f) == IsSeq(f) /\ \A i \in 1..Len(f.lines) : f.lines[i].c \in {"key", "blank", "spaced"}

VARIABLES file,      \* [Users -> file]
          grants,    \* [Users -> [Keys -> 0..]] unconsumed grants
          keyset,    \* transport-level key set (keys added by grants)
          hist,      \* operations applied so far (for replay into the code)
          last       \* result of the last operation: [ok, via]
vars == <<file, grants, keyset, hist, last>>

(* The property: what a login may rest on.                                                   *)
Allowed(u, k) == Listed(file[u], k) \/ (Enabled /\ grants[u][k] > 0)

(* The code's decision.                                                                      *)
FileOK(u, k) == Parses(file[u]) /\ Listed(file[u], k)

Init == /\ file \in [Users -> Files1]
        /\ \A u \in Users \ {U1} : file[u] = F("missing", <<>>)
        /\ grants = [u \in Users |-> [k \in Keys |-> 0]]
        /\ keyset = {}
        /\ hist = <<>> /\ last = [ok |-> FALSE, via |-> "init"]

AddGrant(u, k) ==
    /\ hist' = Append(hist, [op |-> "grant", u |-> u, k |-> k])
    /\ IF Enabled
       THEN /\ grants' = [grants EXCEPT ![u][k] = @ + 1]
            /\ keyset' = keyset \cup {k}
            /\ last' = [ok |-> TRUE, via |-> "grant"]
       ELSE /\ UNCHANGED <<grants, keyset>>
            /\ last' = [ok |-> FALSE, via |-> "disabled"]
    /\ UNCHANGED file

Login(u, k) ==
    /\ hist' = Append(hist, [op |-> "login", u |-> u, k |-> k])
    /\ UNCHANGED file
    /\ IF FileOK(u, k)
       THEN last' = [ok |-> TRUE, via |-> "file"] /\ UNCHANGED <<grants, keyset>>
       ELSE IF Enabled /\ grants[u][k] > 0
            THEN /\ last' = [ok |-> TRUE, via |-> "grant"]
                 /\ grants' = [grants EXCEPT ![u][k] = 0]       \* all grants for (u,k) move into the session
                 /\ keyset' = keyset \ {k}
            ELSE last' = [ok |-> FALSE, via |-> "none"] /\ UNCHANGED <<grants, keyset>>

Next == /\ Len(hist) < MaxHist
        /\ \E u \in Users, k \in Keys : AddGrant(u, k) \/ Login(u, k)
Spec == Init /\ [][Next]_vars

-----------------------------------------------------------------------------
(* C05 at design level, as an action property: a login that succeeds was allowed in the      *)
(* state it was decided in.                                                                  *)
LoginOnlyIfAllowed ==
    [][\A u \in Users, k \in Keys :
         (Login(u, k) /\ last'.ok) => Allowed(u, k)]_vars

(* A file that is missing, unreadable, empty or does not parse never widens access:          *)
(* with such a file and no grant nobody logs in.                                             *)
FailClosed ==
    [][\A u \in Users, k \in Keys :
         (Login(u, k) /\ ~Parses(file[u]) /\ grants[u][k] = 0) => ~last'.ok]_vars

GrantsConsumed ==
    [][\A u \in Users, k \in Keys :
         (Login(u, k) /\ last'.ok /\ last'.via = "grant") => grants'[u][k] = 0]_vars

(* Emission for replay: every state with a non-empty history.                                *)
Emit == hist # <<>> =>
          PrintT(<<"BEH", ToJson([file |-> file[U1], hist |-> hist, ok |-> last.ok, via |-> last.via,
                                  allowedBefore |-> "n/a",
                                  grants |-> grants, keyset |-> keyset])>>)
=============================================================================
