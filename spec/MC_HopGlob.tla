----------------------------- MODULE MC_HopGlob -----------------------------
EXTENDS HopGlob
-----------------------------------------------------------------------------
(* Design-stage model: every (pattern, input) pair is an initial state.                      *)
CONSTANTS MaxP, MaxS
VARIABLES p, s
Sigma == {"a", "b"}
MInit == p \in SeqsUpTo(Sigma \cup {STAR}, MaxP) /\ s \in SeqsUpTo(Sigma, MaxS)
MNext == UNCHANGED <<p, s>>
MSpec == MInit /\ [][MNext]_<<p, s>>
MatchIsDecl == Match(p, s) = Decl(p, s)
(* sanity lemmas that a wrong Match would violate *)
StarAlone == (p = <<STAR>>) => Match(p, s)
NoStarIsEquality == (\A i \in 1..Len(p) : p[i] # STAR) => (Match(p, s) <=> p = s)
=============================================================================
