----------------------------- MODULE MC_Cyclist -----------------------------
(* Design check for the second sentence of C13: two duplex objects in the same state stay in     *)
(* the same state when one encrypts and the other decrypts the resulting ciphertext.              *)
(* The 200-byte state is abstracted to the history of steps that produced it (f uninterpreted     *)
(* and injective: a state IS its history); a key-stream block is identified with the state it     *)
(* is extracted from; plaintext blocks are symbols.  DecryptAbsorbs = "plaintext" is the mode;    *)
(* "ciphertext" is the classic slip and must be found.                                            *)
EXTENDS Cyclist, FiniteSets
CONSTANTS Lens, MaxCalls, DecryptAbsorbs
VARIABLES ha, hb, pa, pb, moda, n, nextP
vars == <<ha, hb, pa, pb, moda, n, nextP>>

ApplyStep(h, st, data, mode) == IF st.k = "up" THEN <<"f", h, Effective(st, mode)>> ELSE <<"d", h, data, st.n, Effective(st, mode)>>
RECURSIVE Run(_, _, _)
Run(h, steps, mode) == IF steps = <<>> THEN h ELSE Run(ApplyStep(h, Head(steps), <<"same">>, mode), Tail(steps), mode)

(* encrypt on A, decrypt on B, block by block *)
RECURSIVE CryptPair(_, _, _, _, _)
CryptPair(a, b, lens, cu, p) ==
    IF lens = <<>> THEN <<a, b>>
    ELSE LET a1 == <<"f", a, cu>>                       \* Up on A
             b1 == <<"f", b, cu>>                       \* Up on B
             c  == <<"xor", <<"p", p>>, a1>>                     \* ciphertext block: plaintext p under A's key stream
             pB == IF c[3] = b1 THEN c[2] ELSE <<"junk", c, b1>>     \* B removes ITS key stream
             a2 == <<"d", a1, <<"p", p>>, Head(lens), 0>>
             b2 == <<"d", b1, IF DecryptAbsorbs = "plaintext" THEN pB ELSE c, Head(lens), 0>>
         IN CryptPair(a2, b2, Tail(lens), 0, p + 1)

Init == ha = <<"zero">> /\ hb = <<"zero">> /\ pa = "up" /\ pb = "up" /\ moda \in {"hash", "keyed"} /\ n = 0 /\ nextP = 1
Call(op, len) ==
    /\ n < MaxCalls /\ n' = n + 1 /\ UNCHANGED moda
    /\ LET call == [op |-> op, a |-> len, b |-> 0, c |-> 0] IN
       /\ Allowed(call, moda)
       /\ IF op = "Encrypt"
          THEN LET r == CryptPair(ha, hb, SplitLens(len, Rate), 128, nextP) IN
               ha' = r[1] /\ hb' = r[2] /\ pa' = "down" /\ pb' = "down" /\ nextP' = nextP + 4
          ELSE /\ ha' = Run(ha, Steps(call, moda, pa), moda) /\ hb' = Run(hb, Steps(call, moda, pb), moda)
               /\ pa' = PhaseAfterCall(call, moda, pa) /\ pb' = PhaseAfterCall(call, moda, pb) /\ UNCHANGED nextP
Next == \E op \in {"Absorb", "Encrypt", "Squeeze", "SqueezeKey", "Ratchet"}, len \in Lens : Call(op, len)
Spec == Init /\ [][Next]_vars
InSync == ha = hb /\ pa = pb
=============================================================================
