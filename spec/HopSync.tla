------------------------------- MODULE HopSync -------------------------------
(* common/sync.go: Deadline and DeadlineChan at the granularity of the code's atomic steps     *)
(* (mutex acquisitions, atomic loads / CAS, channel operations, Deadline methods - each of     *)
(* which runs under Deadline.m and is therefore one step).                                     *)
(*                                                                                             *)
(* `ch` is the identity of the current Deadline.ch object, chClosed the set of closed ones; a  *)
(* caller that captured an object (Done()) keeps waiting on THAT object.  `timer` / `cb` model  *)
(* time.AfterFunc: the timer fires (a callback goroutine is started) and the callback runs      *)
(* later, under Deadline.m; Stop only prevents a firing that has not happened yet.              *)
(*                                                                                             *)
(* Every thread performs up to MaxCalls calls, each chosen from Ops: TLC explores every         *)
(* program and every interleaving at once.                                                      *)
(*                                                                                             *)
(* Variant = "pinned" is the code as found (commit e61f26d):                                    *)
(*    Close:        lock m; if closed -> EOF; closed := TRUE; Cancel(EOF); unlock               *)
(*    SetDeadline:  if closed -> EOF; Deadline.SetDeadline                                      *)
(* TLC finds two ways in which calls never return after Close was called: Send blocks on a      *)
(* full queue HOLDING m so Close waits behind the call it should release; SetDeadline passes    *)
(* its closed test, Close cancels, SetDeadline replaces the cancelled channel by a fresh one    *)
(* and a Recv / Send that captures the fresh one waits forever.                                 *)
(* Variant = "fixed" is the repaired code:                                                      *)
(*    Close:        first := CAS(closed); if first -> Cancel(EOF); lock m; unlock                *)
(*    SetDeadline:  if closed -> EOF; Deadline.SetDeadline; if closed -> Cancel(EOF), EOF       *)
EXTENDS Integers, Sequences, FiniteSets, TLC
CONSTANTS Threads, MaxCalls, Cap, Ops, Variant, MaxItems

Args(o) == IF o = "SetDL" THEN {"past", "future", "zero"} ELSE {"-"}

(* --algorithm HopSync
variables closed = FALSE, mu = "", C = <<>>, ch = 0, chClosed = {}, derr = "none",
          timer = "off", cb = 0, nextItem = 1,
          sentOK = <<>>, taken = <<>>, closeCalled = FALSE, closeRet = {};

define
  Release == chClosed \cup {ch}
end define;

macro cancel(e) begin derr := e; chClosed := chClosed \cup {ch}; end macro;

process T \in Threads
variables calls = 0, op = "none", arg = "-", ec = -1, res = "none", item = 0, first = FALSE;
begin
Pick: while calls < MaxCalls do
        with o \in Ops, a \in Args(o) do
          await o = "Send" => nextItem <= MaxItems;
          op := o; arg := a;
          if o = "Close" then closeCalled := TRUE; end if;
          if o = "Send" then item := nextItem; nextItem := nextItem + 1; else item := 0; end if;
        end with;
        calls := calls + 1; res := "none"; ec := -1;
Disp:   if op = "Recv" then
R1:       if C # <<>> then                                  \* non-blocking take: buffered data first
            item := Head(C); C := Tail(C); taken := Append(taken, item); res := "item";
            goto Ret;
          end if;
R2:       if closed then res := "eof"; goto Ret; end if;
R3:       ec := ch;                                          \* deadline.Done()
R4:       if ec \in chClosed then goto R6; end if;
R5:       either await ec \in chClosed;
          or     await C # <<>>;
                 item := Head(C); C := Tail(C); taken := Append(taken, item); res := "item";
                 goto Ret;
          end either;
R6:       res := derr;                                       \* deadline.Err()
        elsif op = "Send" then
S1:       await mu = ""; mu := self;
S2:       if closed then res := "eof"; goto SU; end if;
S3:       ec := ch;
S4:       if ec \in chClosed then goto S6; end if;
S5:       either await ec \in chClosed;
          or     await Len(C) < Cap;
                 C := Append(C, item); sentOK := Append(sentOK, item); res := "ok";
                 goto SU;
          end either;
S6:       res := derr;
SU:       mu := "";
        elsif op = "SetDL" then
D1:       if closed then res := "eof"; goto Ret; end if;
D2:       timer := IF arg = "future" THEN "armed" ELSE "off";   \* Deadline.SetDeadline, one step under Deadline.m:
          with fresh = IF ch \in chClosed THEN ch + 1 ELSE ch do  \* stop the timer, replace a cancelled channel
            ch := fresh;                                          \* ("unexpire"), then expire at once / arm / nothing
            if arg = "past" then derr := "timeout"; chClosed := chClosed \cup {fresh}; end if;
          end with;
          res := "ok";
D3:       if Variant = "fixed" /\ closed then
            cancel("eof"); res := "eof";
          end if;
        elsif op = "Cancel" then
X1:       if closed then res := "eof"; goto Ret; end if;
X2:       cancel("cancel"); res := "ok";
        elsif op = "Close" then
          if Variant = "pinned" then
K1:         await mu = ""; mu := self;
K2:         if closed then res := "eof"; goto KU; end if;
K3:         closed := TRUE;
K4:         cancel("eof"); res := "ok";
KU:         mu := "";
          else
F1:         first := ~closed; closed := TRUE;                \* CompareAndSwap(false, true)
F2:         if first then cancel("eof"); end if;
F3:         await mu = ""; mu := self;                       \* barrier: in-flight Sends have left
F4:         mu := ""; res := IF first THEN "ok" ELSE "eof";
          end if;
        end if;
Ret:    if op = "Close" then closeRet := closeRet \cup {<<self, calls>>}; end if;
      end while;
end process;

process Timer = "timer"
begin
W: while TRUE do
     either await timer = "armed"; timer := "off"; cb := cb + 1;       \* fires: callback goroutine started
     or     await cb > 0; cb := cb - 1; cancel("timeout");               \* Deadline.timeout() under Deadline.m
     end either;
   end while;
end process;
end algorithm; *)
\* BEGIN TRANSLATION
VARIABLES pc, closed, mu, C, ch, chClosed, derr, timer, cb, nextItem, sentOK, 
          taken, closeCalled, closeRet

(* define statement *)
Release == chClosed \cup {ch}

VARIABLES calls, op, arg, ec, res, item, first

vars == << pc, closed, mu, C, ch, chClosed, derr, timer, cb, nextItem, sentOK, 
           taken, closeCalled, closeRet, calls, op, arg, ec, res, item, first
        >>

ProcSet == (Threads) \cup {"timer"}

Init == (* Global variables *)
        /\ closed = FALSE
        /\ mu = ""
        /\ C = <<>>
        /\ ch = 0
        /\ chClosed = {}
        /\ derr = "none"
        /\ timer = "off"
        /\ cb = 0
        /\ nextItem = 1
        /\ sentOK = <<>>
        /\ taken = <<>>
        /\ closeCalled = FALSE
        /\ closeRet = {}
        (* Process T *)
        /\ calls = [self \in Threads |-> 0]
        /\ op = [self \in Threads |-> "none"]
        /\ arg = [self \in Threads |-> "-"]
        /\ ec = [self \in Threads |-> -1]
        /\ res = [self \in Threads |-> "none"]
        /\ item = [self \in Threads |-> 0]
        /\ first = [self \in Threads |-> FALSE]
        /\ pc = [self \in ProcSet |-> CASE self \in Threads -> "Pick"
                                        [] self = "timer" -> "W"]

Pick(self) == /\ pc[self] = "Pick"
              /\ IF calls[self] < MaxCalls
                    THEN /\ \E o \in Ops:
                              \E a \in Args(o):
                                /\ o = "Send" => nextItem <= MaxItems
                                /\ op' = [op EXCEPT ![self] = o]
                                /\ arg' = [arg EXCEPT ![self] = a]
                                /\ IF o = "Close"
                                      THEN /\ closeCalled' = TRUE
                                      ELSE /\ TRUE
                                           /\ UNCHANGED closeCalled
                                /\ IF o = "Send"
                                      THEN /\ item' = [item EXCEPT ![self] = nextItem]
                                           /\ nextItem' = nextItem + 1
                                      ELSE /\ item' = [item EXCEPT ![self] = 0]
                                           /\ UNCHANGED nextItem
                         /\ calls' = [calls EXCEPT ![self] = calls[self] + 1]
                         /\ res' = [res EXCEPT ![self] = "none"]
                         /\ ec' = [ec EXCEPT ![self] = -1]
                         /\ pc' = [pc EXCEPT ![self] = "Disp"]
                    ELSE /\ pc' = [pc EXCEPT ![self] = "Done"]
                         /\ UNCHANGED << nextItem, closeCalled, calls, op, arg, 
                                         ec, res, item >>
              /\ UNCHANGED << closed, mu, C, ch, chClosed, derr, timer, cb, 
                              sentOK, taken, closeRet, first >>

Disp(self) == /\ pc[self] = "Disp"
              /\ IF op[self] = "Recv"
                    THEN /\ pc' = [pc EXCEPT ![self] = "R1"]
                    ELSE /\ IF op[self] = "Send"
                               THEN /\ pc' = [pc EXCEPT ![self] = "S1"]
                               ELSE /\ IF op[self] = "SetDL"
                                          THEN /\ pc' = [pc EXCEPT ![self] = "D1"]
                                          ELSE /\ IF op[self] = "Cancel"
                                                     THEN /\ pc' = [pc EXCEPT ![self] = "X1"]
                                                     ELSE /\ IF op[self] = "Close"
                                                                THEN /\ IF Variant = "pinned"
                                                                           THEN /\ pc' = [pc EXCEPT ![self] = "K1"]
                                                                           ELSE /\ pc' = [pc EXCEPT ![self] = "F1"]
                                                                ELSE /\ pc' = [pc EXCEPT ![self] = "Ret"]
              /\ UNCHANGED << closed, mu, C, ch, chClosed, derr, timer, cb, 
                              nextItem, sentOK, taken, closeCalled, closeRet, 
                              calls, op, arg, ec, res, item, first >>

R1(self) == /\ pc[self] = "R1"
            /\ IF C # <<>>
                  THEN /\ item' = [item EXCEPT ![self] = Head(C)]
                       /\ C' = Tail(C)
                       /\ taken' = Append(taken, item'[self])
                       /\ res' = [res EXCEPT ![self] = "item"]
                       /\ pc' = [pc EXCEPT ![self] = "Ret"]
                  ELSE /\ pc' = [pc EXCEPT ![self] = "R2"]
                       /\ UNCHANGED << C, taken, res, item >>
            /\ UNCHANGED << closed, mu, ch, chClosed, derr, timer, cb, 
                            nextItem, sentOK, closeCalled, closeRet, calls, op, 
                            arg, ec, first >>

R2(self) == /\ pc[self] = "R2"
            /\ IF closed
                  THEN /\ res' = [res EXCEPT ![self] = "eof"]
                       /\ pc' = [pc EXCEPT ![self] = "Ret"]
                  ELSE /\ pc' = [pc EXCEPT ![self] = "R3"]
                       /\ res' = res
            /\ UNCHANGED << closed, mu, C, ch, chClosed, derr, timer, cb, 
                            nextItem, sentOK, taken, closeCalled, closeRet, 
                            calls, op, arg, ec, item, first >>

R3(self) == /\ pc[self] = "R3"
            /\ ec' = [ec EXCEPT ![self] = ch]
            /\ pc' = [pc EXCEPT ![self] = "R4"]
            /\ UNCHANGED << closed, mu, C, ch, chClosed, derr, timer, cb, 
                            nextItem, sentOK, taken, closeCalled, closeRet, 
                            calls, op, arg, res, item, first >>

R4(self) == /\ pc[self] = "R4"
            /\ IF ec[self] \in chClosed
                  THEN /\ pc' = [pc EXCEPT ![self] = "R6"]
                  ELSE /\ pc' = [pc EXCEPT ![self] = "R5"]
            /\ UNCHANGED << closed, mu, C, ch, chClosed, derr, timer, cb, 
                            nextItem, sentOK, taken, closeCalled, closeRet, 
                            calls, op, arg, ec, res, item, first >>

R5(self) == /\ pc[self] = "R5"
            /\ \/ /\ ec[self] \in chClosed
                  /\ pc' = [pc EXCEPT ![self] = "R6"]
                  /\ UNCHANGED <<C, taken, res, item>>
               \/ /\ C # <<>>
                  /\ item' = [item EXCEPT ![self] = Head(C)]
                  /\ C' = Tail(C)
                  /\ taken' = Append(taken, item'[self])
                  /\ res' = [res EXCEPT ![self] = "item"]
                  /\ pc' = [pc EXCEPT ![self] = "Ret"]
            /\ UNCHANGED << closed, mu, ch, chClosed, derr, timer, cb, 
                            nextItem, sentOK, closeCalled, closeRet, calls, op, 
                            arg, ec, first >>

R6(self) == /\ pc[self] = "R6"
            /\ res' = [res EXCEPT ![self] = derr]
            /\ pc' = [pc EXCEPT ![self] = "Ret"]
            /\ UNCHANGED << closed, mu, C, ch, chClosed, derr, timer, cb, 
                            nextItem, sentOK, taken, closeCalled, closeRet, 
                            calls, op, arg, ec, item, first >>

S1(self) == /\ pc[self] = "S1"
            /\ mu = ""
            /\ mu' = self
            /\ pc' = [pc EXCEPT ![self] = "S2"]
            /\ UNCHANGED << closed, C, ch, chClosed, derr, timer, cb, nextItem, 
                            sentOK, taken, closeCalled, closeRet, calls, op, 
                            arg, ec, res, item, first >>

S2(self) == /\ pc[self] = "S2"
            /\ IF closed
                  THEN /\ res' = [res EXCEPT ![self] = "eof"]
                       /\ pc' = [pc EXCEPT ![self] = "SU"]
                  ELSE /\ pc' = [pc EXCEPT ![self] = "S3"]
                       /\ res' = res
            /\ UNCHANGED << closed, mu, C, ch, chClosed, derr, timer, cb, 
                            nextItem, sentOK, taken, closeCalled, closeRet, 
                            calls, op, arg, ec, item, first >>

S3(self) == /\ pc[self] = "S3"
            /\ ec' = [ec EXCEPT ![self] = ch]
            /\ pc' = [pc EXCEPT ![self] = "S4"]
            /\ UNCHANGED << closed, mu, C, ch, chClosed, derr, timer, cb, 
                            nextItem, sentOK, taken, closeCalled, closeRet, 
                            calls, op, arg, res, item, first >>

S4(self) == /\ pc[self] = "S4"
            /\ IF ec[self] \in chClosed
                  THEN /\ pc' = [pc EXCEPT ![self] = "S6"]
                  ELSE /\ pc' = [pc EXCEPT ![self] = "S5"]
            /\ UNCHANGED << closed, mu, C, ch, chClosed, derr, timer, cb, 
                            nextItem, sentOK, taken, closeCalled, closeRet, 
                            calls, op, arg, ec, res, item, first >>

S5(self) == /\ pc[self] = "S5"
            /\ \/ /\ ec[self] \in chClosed
                  /\ pc' = [pc EXCEPT ![self] = "S6"]
                  /\ UNCHANGED <<C, sentOK, res>>
               \/ /\ Len(C) < Cap
                  /\ C' = Append(C, item[self])
                  /\ sentOK' = Append(sentOK, item[self])
                  /\ res' = [res EXCEPT ![self] = "ok"]
                  /\ pc' = [pc EXCEPT ![self] = "SU"]
            /\ UNCHANGED << closed, mu, ch, chClosed, derr, timer, cb, 
                            nextItem, taken, closeCalled, closeRet, calls, op, 
                            arg, ec, item, first >>

S6(self) == /\ pc[self] = "S6"
            /\ res' = [res EXCEPT ![self] = derr]
            /\ pc' = [pc EXCEPT ![self] = "SU"]
            /\ UNCHANGED << closed, mu, C, ch, chClosed, derr, timer, cb, 
                            nextItem, sentOK, taken, closeCalled, closeRet, 
                            calls, op, arg, ec, item, first >>

SU(self) == /\ pc[self] = "SU"
            /\ mu' = ""
            /\ pc' = [pc EXCEPT ![self] = "Ret"]
            /\ UNCHANGED << closed, C, ch, chClosed, derr, timer, cb, nextItem, 
                            sentOK, taken, closeCalled, closeRet, calls, op, 
                            arg, ec, res, item, first >>

D1(self) == /\ pc[self] = "D1"
            /\ IF closed
                  THEN /\ res' = [res EXCEPT ![self] = "eof"]
                       /\ pc' = [pc EXCEPT ![self] = "Ret"]
                  ELSE /\ pc' = [pc EXCEPT ![self] = "D2"]
                       /\ res' = res
            /\ UNCHANGED << closed, mu, C, ch, chClosed, derr, timer, cb, 
                            nextItem, sentOK, taken, closeCalled, closeRet, 
                            calls, op, arg, ec, item, first >>

D2(self) == /\ pc[self] = "D2"
            /\ timer' = (IF arg[self] = "future" THEN "armed" ELSE "off")
            /\ LET fresh == IF ch \in chClosed THEN ch + 1 ELSE ch IN
                 /\ ch' = fresh
                 /\ IF arg[self] = "past"
                       THEN /\ derr' = "timeout"
                            /\ chClosed' = (chClosed \cup {fresh})
                       ELSE /\ TRUE
                            /\ UNCHANGED << chClosed, derr >>
            /\ res' = [res EXCEPT ![self] = "ok"]
            /\ pc' = [pc EXCEPT ![self] = "D3"]
            /\ UNCHANGED << closed, mu, C, cb, nextItem, sentOK, taken, 
                            closeCalled, closeRet, calls, op, arg, ec, item, 
                            first >>

D3(self) == /\ pc[self] = "D3"
            /\ IF Variant = "fixed" /\ closed
                  THEN /\ derr' = "eof"
                       /\ chClosed' = (chClosed \cup {ch})
                       /\ res' = [res EXCEPT ![self] = "eof"]
                  ELSE /\ TRUE
                       /\ UNCHANGED << chClosed, derr, res >>
            /\ pc' = [pc EXCEPT ![self] = "Ret"]
            /\ UNCHANGED << closed, mu, C, ch, timer, cb, nextItem, sentOK, 
                            taken, closeCalled, closeRet, calls, op, arg, ec, 
                            item, first >>

X1(self) == /\ pc[self] = "X1"
            /\ IF closed
                  THEN /\ res' = [res EXCEPT ![self] = "eof"]
                       /\ pc' = [pc EXCEPT ![self] = "Ret"]
                  ELSE /\ pc' = [pc EXCEPT ![self] = "X2"]
                       /\ res' = res
            /\ UNCHANGED << closed, mu, C, ch, chClosed, derr, timer, cb, 
                            nextItem, sentOK, taken, closeCalled, closeRet, 
                            calls, op, arg, ec, item, first >>

X2(self) == /\ pc[self] = "X2"
            /\ derr' = "cancel"
            /\ chClosed' = (chClosed \cup {ch})
            /\ res' = [res EXCEPT ![self] = "ok"]
            /\ pc' = [pc EXCEPT ![self] = "Ret"]
            /\ UNCHANGED << closed, mu, C, ch, timer, cb, nextItem, sentOK, 
                            taken, closeCalled, closeRet, calls, op, arg, ec, 
                            item, first >>

K1(self) == /\ pc[self] = "K1"
            /\ mu = ""
            /\ mu' = self
            /\ pc' = [pc EXCEPT ![self] = "K2"]
            /\ UNCHANGED << closed, C, ch, chClosed, derr, timer, cb, nextItem, 
                            sentOK, taken, closeCalled, closeRet, calls, op, 
                            arg, ec, res, item, first >>

K2(self) == /\ pc[self] = "K2"
            /\ IF closed
                  THEN /\ res' = [res EXCEPT ![self] = "eof"]
                       /\ pc' = [pc EXCEPT ![self] = "KU"]
                  ELSE /\ pc' = [pc EXCEPT ![self] = "K3"]
                       /\ res' = res
            /\ UNCHANGED << closed, mu, C, ch, chClosed, derr, timer, cb, 
                            nextItem, sentOK, taken, closeCalled, closeRet, 
                            calls, op, arg, ec, item, first >>

K3(self) == /\ pc[self] = "K3"
            /\ closed' = TRUE
            /\ pc' = [pc EXCEPT ![self] = "K4"]
            /\ UNCHANGED << mu, C, ch, chClosed, derr, timer, cb, nextItem, 
                            sentOK, taken, closeCalled, closeRet, calls, op, 
                            arg, ec, res, item, first >>

K4(self) == /\ pc[self] = "K4"
            /\ derr' = "eof"
            /\ chClosed' = (chClosed \cup {ch})
            /\ res' = [res EXCEPT ![self] = "ok"]
            /\ pc' = [pc EXCEPT ![self] = "KU"]
            /\ UNCHANGED << closed, mu, C, ch, timer, cb, nextItem, sentOK, 
                            taken, closeCalled, closeRet, calls, op, arg, ec, 
                            item, first >>

KU(self) == /\ pc[self] = "KU"
            /\ mu' = ""
            /\ pc' = [pc EXCEPT ![self] = "Ret"]
            /\ UNCHANGED << closed, C, ch, chClosed, derr, timer, cb, nextItem, 
                            sentOK, taken, closeCalled, closeRet, calls, op, 
                            arg, ec, res, item, first >>

F1(self) == /\ pc[self] = "F1"
            /\ first' = [first EXCEPT ![self] = ~closed]
            /\ closed' = TRUE
            /\ pc' = [pc EXCEPT ![self] = "F2"]
            /\ UNCHANGED << mu, C, ch, chClosed, derr, timer, cb, nextItem, 
                            sentOK, taken, closeCalled, closeRet, calls, op, 
                            arg, ec, res, item >>

F2(self) == /\ pc[self] = "F2"
            /\ IF first[self]
                  THEN /\ derr' = "eof"
                       /\ chClosed' = (chClosed \cup {ch})
                  ELSE /\ TRUE
                       /\ UNCHANGED << chClosed, derr >>
            /\ pc' = [pc EXCEPT ![self] = "F3"]
            /\ UNCHANGED << closed, mu, C, ch, timer, cb, nextItem, sentOK, 
                            taken, closeCalled, closeRet, calls, op, arg, ec, 
                            res, item, first >>

F3(self) == /\ pc[self] = "F3"
            /\ mu = ""
            /\ mu' = self
            /\ pc' = [pc EXCEPT ![self] = "F4"]
            /\ UNCHANGED << closed, C, ch, chClosed, derr, timer, cb, nextItem, 
                            sentOK, taken, closeCalled, closeRet, calls, op, 
                            arg, ec, res, item, first >>

F4(self) == /\ pc[self] = "F4"
            /\ mu' = ""
            /\ res' = [res EXCEPT ![self] = IF first[self] THEN "ok" ELSE "eof"]
            /\ pc' = [pc EXCEPT ![self] = "Ret"]
            /\ UNCHANGED << closed, C, ch, chClosed, derr, timer, cb, nextItem, 
                            sentOK, taken, closeCalled, closeRet, calls, op, 
                            arg, ec, item, first >>

Ret(self) == /\ pc[self] = "Ret"
             /\ IF op[self] = "Close"
                   THEN /\ closeRet' = (closeRet \cup {<<self, calls[self]>>})
                   ELSE /\ TRUE
                        /\ UNCHANGED closeRet
             /\ pc' = [pc EXCEPT ![self] = "Pick"]
             /\ UNCHANGED << closed, mu, C, ch, chClosed, derr, timer, cb, 
                             nextItem, sentOK, taken, closeCalled, calls, op, 
                             arg, ec, res, item, first >>

T(self) == Pick(self) \/ Disp(self) \/ R1(self) \/ R2(self) \/ R3(self)
              \/ R4(self) \/ R5(self) \/ R6(self) \/ S1(self) \/ S2(self)
              \/ S3(self) \/ S4(self) \/ S5(self) \/ S6(self) \/ SU(self)
              \/ D1(self) \/ D2(self) \/ D3(self) \/ X1(self) \/ X2(self)
              \/ K1(self) \/ K2(self) \/ K3(self) \/ K4(self) \/ KU(self)
              \/ F1(self) \/ F2(self) \/ F3(self) \/ F4(self) \/ Ret(self)

W == /\ pc["timer"] = "W"
     /\ \/ /\ timer = "armed"
           /\ timer' = "off"
           /\ cb' = cb + 1
           /\ UNCHANGED <<chClosed, derr>>
        \/ /\ cb > 0
           /\ cb' = cb - 1
           /\ derr' = "timeout"
           /\ chClosed' = (chClosed \cup {ch})
           /\ timer' = timer
     /\ pc' = [pc EXCEPT !["timer"] = "W"]
     /\ UNCHANGED << closed, mu, C, ch, nextItem, sentOK, taken, closeCalled, 
                     closeRet, calls, op, arg, ec, res, item, first >>

Timer == W

Next == Timer
           \/ (\E self \in Threads: T(self))

Spec == Init /\ [][Next]_vars

\* END TRANSLATION

-----------------------------------------------------------------------------
AllDone == \A t \in Threads : pc[t] = "Done"
ThreadEnabled == \E t \in Threads : ENABLED T(t)
TimerEnabled == timer = "armed" \/ cb > 0
(* C17 "every call returns": once Close has been called nothing may stay blocked for ever - Close *)
(* itself returns and releases the others.  A state in which no thread and no timer can move,     *)
(* some call is unfinished and Close was called, is a lost wake-up / lock-up.                     *)
NoStuckAfterClose == ~(closeCalled /\ ~AllDone /\ ~ThreadEnabled /\ ~TimerEnabled)
(* items come out in the order they went in, each at most once *)
IsPrefixOf(a, b) == Len(a) <= Len(b) /\ \A i \in 1..Len(a) : a[i] = b[i]
FIFOOnce == IsPrefixOf(taken, sentOK) /\ Len(taken) + Len(C) = Len(sentOK)
            /\ \A i \in 1..Len(C) : C[i] = sentOK[Len(taken) + i]
(* data queued before close is returned before end-of-stream: a Recv that starts when the queue   *)
(* is non-empty cannot end with EOF (R1 takes first) - by construction of R1; checked on the code  *)
(* by the trace spec.  The closed flag never resets.                                               *)
ClosedStable == [][closed => closed']_closed
(* after close, results: the first Close reports ok and later ones eof (the queue's convention)    *)
TypeOK == /\ mu \in Threads \cup {""} /\ Len(C) <= Cap /\ cb \in 0..8
          /\ timer \in {"off", "armed"} /\ derr \in {"none", "timeout", "eof", "cancel"}
=============================================================================
