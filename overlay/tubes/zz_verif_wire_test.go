package tubes

// Verification driver (added with `go test -overlay`, never part of the repository): round trips of the
// tube frame codecs at boundary data lengths and all flag combinations.

import (
	"bytes"
	"encoding/json"
	"os"
	"reflect"
	"testing"
)

func vfEmit(f *os.File, m map[string]interface{}) {
	b, _ := json.Marshal(m)
	f.Write(append(b, '\n'))
}

func vfGuard(fn func()) (res string) {
	defer func() {
		if r := recover(); r != nil {
			res = "panic"
		}
	}()
	fn()
	return "ok"
}

func TestVerifWireFrames(t *testing.T) {
	out := os.Getenv("VT_OUT")
	if out == "" {
		t.Skip("VT_OUT not set")
	}
	f, err := os.Create(out)
	if err != nil {
		t.Fatal(err)
	}
	defer f.Close()
	yn := func(b bool) string {
		if b {
			return "yes"
		}
		return "no"
	}
	for _, n := range []int{0, 1, 2, 255, 256, 32767, 32768, 65534, 65535} {
		data := bytes.Repeat([]byte{byte(n)}, n)
		for meta := 0; meta < 64; meta++ {
			fr := &frame{tubeID: byte(meta * 3), flags: metaToFlags(byte(meta)), dataLength: uint16(n), data: data, ackNo: uint32(0xfffffff0 + meta), frameNo: uint32(meta * 1000003)}
			var got *frame
			var b []byte
			e := vfGuard(func() { b = fr.toBytes() })
			d := vfGuard(func() { got, _ = fromBytes(b) })
			same := d == "ok" && got.tubeID == fr.tubeID && got.flags == fr.flags && got.dataLength == fr.dataLength && bytes.Equal(got.data, fr.data) && got.ackNo == fr.ackNo && got.frameNo == fr.frameNo
			vfEmit(f, map[string]interface{}{"ev": "rt", "codec": "frame", "lens": map[string]int{"data": n}, "enumok": "yes", "enc": e, "dec": d, "same": yn(same), "bytes": len(b)})
			if meta%8 == 0 {
				in := &initiateFrame{tubeID: byte(meta), tubeType: TubeType(meta * 4), flags: metaToFlags(byte(meta)), dataLength: uint16(n), data: data, frameNo: uint32(meta + 7)}
				var gi *initiateFrame
				e := vfGuard(func() { b = in.toBytes() })
				d := vfGuard(func() { gi = fromInitiateBytes(b) })
				same := d == "ok" && reflect.DeepEqual(&initiateFrame{tubeID: gi.tubeID, tubeType: gi.tubeType, flags: gi.flags, dataLength: gi.dataLength, data: append([]byte(nil), gi.data...), frameNo: gi.frameNo},
					&initiateFrame{tubeID: in.tubeID, tubeType: in.tubeType, flags: in.flags, dataLength: in.dataLength, data: append([]byte(nil), in.data...), frameNo: in.frameNo})
				vfEmit(f, map[string]interface{}{"ev": "rt", "codec": "frame", "lens": map[string]int{"data": n}, "enumok": "yes", "enc": e, "dec": d, "same": yn(same), "bytes": len(b)})
			}
		}
	}
}
