# C19 — server is stateless before a valid cookie and silent in hidden mode (DESIGN.md §3 C19)
import json, os, re, random
import lib
from props import hs_common as H

def run(v, tier, replay):
    thorough = tier == "thorough"
    v.assumptions += ["table sizes are read through the verif-tag view VerifTables; cookie-key rotation is triggered through the verif-tag step VerifRotateCookieKey (the 2-minute ticker cannot be waited for)",
                      "hidden-mode staleness uses real time (7.1 s sleeps, run in parallel)"]
    lib.go_build("c19"); lib.go_build("hsreplay")     # fail fast on build problems
    nun = 0
    fams = ["A", "C"] + (["B", "Ch"] if thorough else ["Ch"])
    for fam in fams:
        behs = H.tlc_family(v, fam)
        # behaviours that exercise the clauses: re-addressing, rotation, replays, splices, ticks, tampered cookies/keys
        keep = [b for b in behs if any(s["mv"] in ("readdr", "replay", "splice") or s["hop"] in ("rotate", "tick") or s["f"] in ("cookie", "ekem", "skemct", "ts")
                                       for s in b["hist"]) or all(s["mv"] == "ok" for s in b["hist"])]
        cap = 10**9 if thorough else 2500
        if len(keep) > cap:
            random.Random(lib.seed()).shuffle(keep); keep = keep[:cap]
        res = H.replay(v, keep, "c19" + fam)
        for b, r in zip(keep, res):
            v.case((H.scen_str(b), H.hist_str(b)), nontrivial=any(s["mv"] != "ok" for s in b["hist"]))
            if "err" in r:
                nun += 1
                if nun <= 5: lib.log("UNEXPLAINED %s | %s | %s" % (H.scen_str(b), H.hist_str(b), r["err"]))
                continue
            prev_t, prev_mt = {}, {}
            for k, (st, ob) in enumerate(zip(b["hist"], r["steps"])):
                if st["s"] == 0 or st["hop"] == "start":
                    continue
                s = b["dial"][st["s"] - 1]
                pre = H.hist_str(dict(hist=b["hist"][:k + 1]))
                hidden = b["scfg"][s]["hidden"]
                if st["hop"] == "CH" and ob["tables"] != prev_t.get(s, 0):
                    v.violation("server kept state for a client hello | %s | %s" % (H.scen_str(b), pre), "tables went from %d to %d entries at a ClientHello step" % (prev_t.get(s, 0), ob["tables"]), dict(behaviour=b, real=r))
                elif st["hop"] in ("CA",) and ob["tables"] - prev_t.get(s, 0) > st["ns"] - prev_mt.get(s, 0):
                    v.violation("server allocated handshake state on a client acknowledgement whose cookie the specification rejects | %s | %s" % (H.scen_str(b), pre),
                                "cookie not minted under the current key for this source address and client key", dict(behaviour=b, real=r))
                elif hidden and ob["senttot"] > st["sent"]:
                    v.violation("hidden-mode server answered a datagram that is not a fresh well-formed hidden request | %s | %s" % (H.scen_str(b), pre),
                                "server emitted %d datagram(s), the specification %d" % (ob["senttot"], st["sent"]), dict(behaviour=b, real=r))
                elif ob["tables"] != st["ns"] or ob["senttot"] != st["sent"]:
                    nun += 1
                    if nun <= 5: lib.log("UNEXPLAINED %s | %s | tables model=%d real=%d sent model=%d real=%d" % (H.scen_str(b), pre, st["ns"], ob["tables"], st["sent"], ob["senttot"]))
                    break
                prev_t[s], prev_mt[s] = ob["tables"], st["ns"]
        v.count("behaviours_replayed_into_impl", len(keep))
        v.cov["traces_validated_against_impl"] += len(keep)
        v.sample(dict(kind="TLC behaviour replayed, tables/outputs compared per step", scenario=H.scen_str(keep[0]), steps=H.hist_str(keep[0])))
    # mass hellos and hidden-server probing: recorded from the real server, judged by TLC
    binp = lib.go_build("c19")
    sd = lib.scratch("vf-c19-")
    tr = os.path.join(sd, "trace.ndjson")
    rc, so, se = lib.run([binp, tr, str(lib.seed()), "100000" if thorough else "2000"], timeout=3000)
    if rc != 0:
        raise lib.Inconclusive("c19 driver failed: " + (so + se)[-3000:])
    events = lib.read_ndjson(tr)
    # acknowledgements around cookies sealed under keys the server never generated (white-box forger: overlay driver
    # in package transport, real server on UDP loopback); same event kind, same predicate
    fo = os.path.join(sd, "forged.ndjson")
    orc, oso, ose = lib.overlay_test("transport", "^TestVerifForgedCookies$", env_extra={"VT_OUT": fo}, timeout=600)
    fev = lib.read_ndjson(fo) if os.path.exists(fo) else []
    if orc != 0 or not any(e["ev"] == "summary" for e in fev):
        raise lib.Inconclusive("overlay driver transport (forged cookies) failed: %s" % (oso + ose)[-2000:])
    events += [e for e in fev if e["ev"] == "cookie"]
    lib.write_ndjson(tr, events)
    r = lib.tlc("Trace_HopHandshake19", "Trace_HopHandshake19.cfg", files={"trace.ndjson": "@" + tr}, workers=1, timeout=900)
    v.add_tlc("Trace_HopHandshake19 (mass hellos, hidden-server probes)", r)
    if not r.ok:
        raise lib.Inconclusive("trace not consumed: %s\n%s" % (r.kind, r.out[-1500:]))
    v.cov["traces_validated_against_impl"] += 1
    v.cov["probe_events"] = len(events)
    for e in events:
        v.case(("p", json.dumps(e, sort_keys=True)))
    v.sample(events[0]); v.sample(events[-1])
    for m in re.finditer(r'<<"MISMATCH", (\d+)>>', r.out):
        e = events[int(m.group(1)) - 1]
        v.violation("probe %s" % json.dumps(e, sort_keys=True), "recorded from a real server over the simulated wire; judged by Trace_HopHandshake19", e)
    if nun and not v.viol:
        raise lib.Inconclusive("%d behaviours differ between model and code in ways no property clause explains" % nun)
