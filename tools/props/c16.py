# C16 — tube and muxer shutdown always terminates and is clean (DESIGN.md §3 C16)
import json, os, re, concurrent.futures
import lib

def run(v, tier, replay):
    thorough = tier == "thorough"
    v.assumptions += ["programs: two or three threads drawn from 8 thread kinds over {write, read, close, wait, stop} on both ends x 6 loss classes (none, first FIN lost, 20%, dead after 60 ms, dead from the start, first acknowledgements lost) x muxer data timeout {0, 2 s}; schedules perturbed at the verif yield points by seed; built with the race detector",
                      "bounds: close 3 s, stop 8 s (two 1 s fallbacks plus slack), WaitForClose 12 s; the post-close clause is judged once WaitForClose has returned",
                      "every muxer is stopped at the end of its program; goroutines of the tubes package are then counted (3 s grace)"]
    binp = lib.go_build("c16", race=True)
    r = lib.tlc("TubeClose", "TubeClose.cfg", timeout=600)
    lib.tlc_must_pass(r, "TubeClose"); v.add_tlc("TubeClose.cfg (queue-close discipline and termination, PlusCal)", r)
    r = lib.tlc("TubeClose", "TubeClose_bad.cfg", timeout=300)
    v.add_tlc("TubeClose_bad.cfg (queues closed before producers are fenced: must panic)", r)
    if r.kind != "invariant":
        raise lib.Inconclusive("self-test: the mis-ordered close variant is not detected by the model (%s)" % r.kind)
    r = lib.tlc("HopTubes", "MC_HopTubes_fin.cfg", timeout=900)
    v.add_tlc("MC_HopTubes_fin.cfg (FIN state machine: no dead state)", r)
    v.cov["design_finwait_orphan"] = r.violated
    if thorough:
        r = lib.tlc("HopTubesLive", "HopTubesLive.cfg", timeout=2400)
        lib.tlc_must_pass(r, "HopTubesLive"); v.add_tlc("HopTubesLive.cfg (fair network, linger outlasts the losses: both ends reach closed)", r)
        r = lib.tlc("HopTubesLive", "HopTubesLive_early.cfg", timeout=2400)
        v.add_tlc("HopTubesLive_early.cfg (linger timer may fire before the FIN got through: the finWait2 orphan even on a fair network)", r)
        v.cov["design_early_linger_orphan"] = r.kind
    sd = lib.scratch("vf-c16-")
    rc, so, se = lib.run([binp, "count"], timeout=60)
    total = int(so.strip())
    step = 60
    seeds = [lib.seed() + 1000 * k for k in range(4 if thorough else 1)]
    jobs = [(s, a, min(a + step, total)) for s in seeds for a in range(0, total, step)]
    def child(j):
        s, a, b = j
        out = os.path.join(sd, "p-%d-%d.ndjson" % (s, a))
        rc, so, se = lib.run([binp, out, str(s), str(a), str(b)], timeout=900, env=dict(os.environ, GORACE="halt_on_error=1"))
        return j, rc, out, (so + se)[-5000:]
    events = []
    progs = {}
    with concurrent.futures.ThreadPoolExecutor(max_workers=4) as ex:
        for j, rc, out, tail in ex.map(child, jobs):
            evs = lib.read_ndjson(out) if os.path.exists(out) else []
            for e in evs:
                if e["ev"] == "prog":
                    progs[(j[0], e["p"])] = e
            if rc is None:
                raise lib.Inconclusive("child %s timed out" % (j,))
            if rc != 0 and not any(e["ev"] == "done" for e in evs):
                race = "WARNING: DATA RACE" in tail
                if race and lib.REPO_MARK not in tail:
                    raise lib.Inconclusive("data race inside the driver itself:\n" + tail[-1500:])
                reason = ("data race: " + " | ".join([l.strip() for l in tail.split("\n") if lib.REPO_MARK in l][:3])) if race else ([l for l in tail.split("\n") if l.startswith("panic:") or "fatal error" in l] or ["exit %s" % rc])[0]
                evs.append(dict(ev="crash", reason=reason[:400], stack=[l.strip() for l in tail.split("\n") if lib.REPO_MARK in l][:4], job=list(j)))
            events += [dict(e, seed=j[0]) for e in evs if e["ev"] in ("call", "leak", "crash")]
    tr = os.path.join(sd, "trace.ndjson")
    lib.write_ndjson(tr, events or [dict(ev="none")])
    r = lib.tlc("Trace_HopShutdown", "Trace_HopShutdown.cfg", files={"trace.ndjson": "@" + tr}, workers=1, timeout=900)
    v.add_tlc("Trace_HopShutdown", r)
    if not r.ok:
        raise lib.Inconclusive("trace not consumed: %s\n%s" % (r.kind, r.out[-1500:]))
    v.cov["traces_validated_against_impl"] += len(progs)
    v.cov["programs_run"] = len(progs); v.cov["calls_recorded"] = sum(1 for e in events if e["ev"] == "call")
    for k, p in progs.items():
        v.case((p["a"], p["b"], p["a2"], p["loss"], p["tmo"], k[0]))
    for lst in (list(progs.values()), [e for e in events if e["ev"] == "call"], [e for e in events if e["ev"] == "leak"]):
        if lst:
            v.sample(lst[0])
    seen = set()
    for m in re.finditer(r'<<"MISMATCH", (\d+)>>', r.out):
        e = events[int(m.group(1)) - 1]
        if e["ev"] == "crash":
            sig = "crash: %s | %s" % (e["reason"][:160], (e["stack"] or ["?"])[0].split(" ")[0].split(lib.REPO_MARK)[-1])
        elif e["ev"] == "leak":
            sig = "goroutine leak: %d goroutines of the tubes package alive after every muxer was stopped, e.g. %s" % (e["goroutines"], e["sample"][:80])
        else:
            p = progs.get((e["seed"], e["p"]), {})
            ctx = "A=[%s]%s B=[%s] loss=%s timeout=%sms" % (p.get("a"), "+[" + p["a2"] + "]" if p.get("a2") else "", p.get("b"), e["loss"], e["tmo"])
            if e["op"] == "wait" and e["ret"] == "no":
                sig = "WaitForClose pending after 12 s in state %s (%s; own muxer stopped: %s; peer muxer stopped: %s; data timeout %s ms) | %s" % (e.get("state"), "network loses frames: " + e["loss"] if e["loss"] != "none" else "faithful network", e.get("ownstop"), e.get("peerstop"), e["tmo"], ctx)
            elif e["op"] in ("stop", "finalstop") and e["ret"] == "yes" and e.get("tclosed") == "no":
                sig = "Stop returned to a caller on end %s before the shutdown had completed (transport still open) | %s" % (e["end"], ctx)
            elif e["op"] == "postclose":
                sig = "after a completed local close (%s tube): write fails=%s, reads end with end-of-stream=%s, buffered data returned first=%s (peer wrote %s, read %s) | %s" % (e.get("kind"), e["wfail"], e["reof"], e.get("dataok"), e.get("peerwrote"), e.get("got"), ctx)
            else:
                sig = "%s on end %s: returned=%s after %s ms (%s; %s) | %s" % (e["op"], e["end"], e["ret"], e["ms"], e["res"],
                      "initiation of this end's tube completed" if e["end"] == "B" or e.get("ainit") == "yes" else "the answer to this end's tube request was never delivered", ctx)
        key = re.sub(r" \| .*", "", sig)
        if key in seen:
            continue
        seen.add(key)
        v.violation(sig, "concurrent program on a real tube pair (race detector build, perturbed schedule), judged by Trace_HopShutdown", e)
