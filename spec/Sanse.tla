-------------------------------- MODULE Sanse --------------------------------
(* Kravatte (Achouffe) and the session AEAD Kravatte-SANSE, byte level and executable by TLC.     *)
(*                                                                                               *)
(* Kravatte is the Farfalle construction (Bertoni, Daemen, Hoffert, Peeters, Van Assche, Van      *)
(* Keer: "Farfalle: parallel permutation-based cryptography", sections 2, 7) with                 *)
(* p_b = p_c = p_d = p_e = Keccak-p[1600, 6] and the rolling functions roll_c, roll_e below:       *)
(*   mask derivation   k = p_b(K || 1 || 0..0)                                                      *)
(*   compression       for every string of the sequence, for every 200-byte block m_i of          *)
(*                     string || 1 || 0..0 :  x = x + p_c(m_i + k_i), k_(i+1) = roll_c(k_i);         *)
(*                     one more roll_c after each string                                          *)
(*   expansion         y = p_d(x);  z_j = p_e(y_j) + k',  y_(j+1) = roll_e(y_j)                    *)
(*                     (k' is the rolled mask after compression)                                   *)
(* SANSE (section 6 of the same paper) over a session history:                                     *)
(*   wrap(A, P):  if |A| > 0 or |P| = 0:  history <- A || 0 || e . history                         *)
(*                if |P| > 0:  T = F(P || 01 || e . history), C = P + F(T || 11 || e . history),   *)
(*                             history <- P || 01 || e . history                                   *)
(*                else         T = F(history)                                                      *)
(*                e <- e + 1                                                                       *)
(* All strings here are whole bytes (the AEAD interface), so "|| bits || e || padding 1" is one    *)
(* final byte.  A 64-bit lane is four 16-bit limbs (see KeccakP.tla).                              *)
EXTENDS KeccakP

P6(A) == Rounds(A, 18, 23)

Bytes2Lanes(b) == [j \in 1..25 |-> [m \in 1..4 |-> b[8 * (j - 1) + 2 * m - 1] + 256 * b[8 * (j - 1) + 2 * m]]]
Lanes2Bytes(A) == [i \in 1..200 |-> LET j == ((i - 1) \div 8) + 1  r == (i - 1) % 8  limb == A[j][(r \div 2) + 1]
                                    IN IF r % 2 = 0 THEN limb % 256 ELSE limb \div 256]
PadBlock(b) == [i \in 1..200 |-> IF i <= Len(b) THEN b[i] ELSE 0]
XorState(A, B) == [j \in 1..25 |-> XorL(A[j], B[j])]
ZeroState == [j \in 1..25 |-> <<0, 0, 0, 0>>]

(* shift of a lane towards the least significant bit *)
ShrL(a, s) == [i \in 1..4 |-> (a[i] \div Pow2(s)) + (IF i < 4 THEN (a[i + 1] % Pow2(s)) * Pow2(16 - s) ELSE 0)]
(* roll_c on lanes 20..24, roll_e on lanes 15..24 (0-based) *)
RollC(A) == LET x0 == A[21]  x1 == A[22] IN
            [j \in 1..25 |-> IF j < 21 THEN A[j] ELSE IF j < 25 THEN A[j + 1]
                             ELSE XorL(XorL(RotL(x0, 7), x1), ShrL(x1, 3))]
RollE(A) == LET t == A[16]  x0 == A[17]  x1 == A[18] IN
            [j \in 1..25 |-> IF j < 16 THEN A[j] ELSE IF j < 25 THEN A[j + 1]
                             ELSE XorL(XorL(RotL(t, 7), RotL(x0, 18)), AndL(x1, ShrL(x0, 1)))]

Mask(key) == P6(Bytes2Lanes(PadBlock(key \o <<1>>)))

(* compression of one string (already ending with its final byte that carries the padding bit) *)
NBlocks(n) == (n + 199) \div 200
Block(s, i) == SubSeq(s, 200 * (i - 1) + 1, IF 200 * i < Len(s) THEN 200 * i ELSE Len(s))
Compress(st, s) ==
    LET r == FoldLeft(LAMBDA acc, i : [x |-> XorState(acc.x, P6(XorState(acc.kr, Bytes2Lanes(PadBlock(Block(s, i)))))), kr |-> RollC(acc.kr)],
                      [x |-> st.x, kr |-> st.kr], [i \in 1..NBlocks(Len(s)) |-> i])
    IN [x |-> r.x, kr |-> RollC(r.kr), e |-> st.e]
Expand(st, n) ==
    IF n = 0 THEN <<>>
    ELSE LET r == FoldLeft(LAMBDA acc, j : [y |-> RollE(acc.y), out |-> acc.out \o Lanes2Bytes(XorState(P6(acc.y), st.kr))],
                           [y |-> P6(st.x), out |-> <<>>], [j \in 1..NBlocks(n) |-> j])
         IN SubSeq(r.out, 1, n)

Str(data, ap, alen, e) == data \o <<ap + e * Pow2(alen) + Pow2(alen + 1)>>
XorBytes(a, b) == [i \in 1..Len(a) |-> a[i] ^^ b[i]]
NewSession(key) == LET k == Mask(key) IN [x |-> ZeroState, kr |-> k, e |-> 0]
Flip(st) == [st EXCEPT !.e = 1 - @]

Seal(st, A, P) ==
    LET s1 == IF Len(A) > 0 \/ Len(P) = 0 THEN Compress(st, Str(A, 0, 1, st.e)) ELSE st IN
    IF Len(P) > 0
    THEN LET sP == Compress(s1, Str(P, 2, 2, st.e))
             T  == Expand(sP, 32)
             sT == Compress(s1, Str(T, 3, 2, st.e))
             C  == XorBytes(P, Expand(sT, Len(P)))
         IN [st |-> Flip(sP), out |-> C \o T]
    ELSE [st |-> Flip(s1), out |-> Expand(s1, 32)]

Open(st, A, CT) ==
    LET n == Len(CT) - 32
        C == SubSeq(CT, 1, n)
        T == SubSeq(CT, n + 1, Len(CT))
        s1 == IF Len(A) > 0 \/ n = 0 THEN Compress(st, Str(A, 0, 1, st.e)) ELSE st IN
    IF n > 0
    THEN LET sT == Compress(s1, Str(T, 3, 2, st.e))
             P  == XorBytes(C, Expand(sT, n))
             sP == Compress(s1, Str(P, 2, 2, st.e))
         IN [st |-> Flip(sP), ok |-> Expand(sP, 32) = T, out |-> P]
    ELSE [st |-> Flip(s1), ok |-> Expand(s1, 32) = T, out |-> <<>>]
=============================================================================
