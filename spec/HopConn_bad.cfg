SPECIFICATION Spec
CONSTANTS
  Handshakers = {h1, h2}
  Closers = {c1, c2}
  Readers = {r1}
  WaitHS = FALSE
INVARIANTS SameResult NothingLeft
PROPERTY Termination
CHECK_DEADLOCK FALSE
