// c05 replays login/grant histories (emitted by TLC from HopLogin.tla) on a real hopserver.HopServer
// with an in-memory file system, through AddAuthGrant / AuthorizeKey / AuthorizeKeyAuthGrant composed as
// hopSession.checkAuthorization composes them.
//
//	c05 <behaviours.jsonl> <out.jsonl> <enabled:0|1> <seed>
package main

import (
	"bufio"
	"encoding/json"
	"io"
	"os"
	"strconv"
	"testing/fstest"
	"time"

	"github.com/sirupsen/logrus"

	"hop.computer/hop/authgrants"
	"hop.computer/hop/authkeys"
	"hop.computer/hop/certs"
	"hop.computer/hop/config"
	"hop.computer/hop/hopserver"
	"hop.computer/hop/keys"
	"hop.computer/hop/pkg/thunks"
	"verif/harness/rec"
)

type lineT struct {
	C string `json:"c"`
	K string `json:"k"`
}
type fileT struct {
	St    string  `json:"st"`
	Lines []lineT `json:"lines"`
}
type opT struct {
	Op string `json:"op"`
	U  string `json:"u"`
	K  string `json:"k"`
}
type beh struct {
	File fileT `json:"file"`
	Hist []opT `json:"hist"`
	Ok   bool  `json:"ok"`
	Via  string `json:"via"`
}

var keyOf = map[string]*keys.X25519KeyPair{}

func key(name string) keys.DHPublicKey {
	if k, ok := keyOf[name]; ok {
		return k.Public
	}
	k := keys.GenerateNewX25519KeyPair()
	keyOf[name] = k
	return k.Public
}

func render(l lineT, variant int) string {
	pk := key(l.K)
	e := pk.String()
	switch l.C {
	case "key":
		return e
	case "spaced":
		return []string{"  " + e + " ", "\t" + e + "\t ", " " + e}[variant%3]
	case "blank":
		return []string{"", "   ", "\t"}[variant%3]
	case "comment":
		// a commented-out key is not a listed key: the key that is commented out is k1, the one the histories log in with
		k1 := key("k1")
		ck := k1.String()
		return []string{"# a comment", "#" + ck, "// " + ck, "# " + ck, "#\t" + ck + " old laptop"}[variant%5]
	case "garbage":
		return []string{"not a key", "hop-dh-v1-", "hop-dh-v1-!!!!", "REVOKED " + func() string { k := key("k1"); return k.String() }()}[variant%4]
	case "trunc":
		return []string{e[:len(e)-5], e[:len(e)-1], e[:len(e)-4]}[variant%3]
	case "prefix":
		return []string{"ssh-ed25519 " + e[len(keys.DHPublicKeyPrefix):], "hop-dh-v2-" + e[len(keys.DHPublicKeyPrefix):], "x" + e}[variant%3]
	}
	panic("unknown line class " + l.C)
}

func mkfs(f fileT, variant int) fstest.MapFS {
	fs := fstest.MapFS{}
	p := "home/u1/.hop/authorized_keys"
	switch f.St {
	case "missing":
		if variant%2 == 1 { // the directory exists, the file does not
			fs["home/u1/.hop/other"] = &fstest.MapFile{Data: []byte("x")}
		}
	case "dir":
		k1 := key("k1")
		fs[p+"/inner"] = &fstest.MapFile{Data: []byte(k1.String())}
	default:
		var data []byte
		for i, l := range f.Lines {
			data = append(data, render(l, variant+i)...)
			if i < len(f.Lines)-1 || variant%2 == 0 { // last line with or without newline
				data = append(data, '\n')
			}
		}
		fs[p] = &fstest.MapFile{Data: data, Mode: 0600}
	}
	return fs
}

func leafFor(pk keys.DHPublicKey) *certs.Certificate {
	c, err := certs.SelfSignLeaf(&certs.Identity{PublicKey: pk})
	if err != nil {
		panic(err)
	}
	return c
}

// conc: g grants for (u,k), then n simultaneous logins; logs the number of successes per batch.
func conc(out string, rounds int, seed int) {
	w := rec.Must(out)
	defer w.Close()
	ks := authkeys.NewSyncAuthKeySet()
	srv, err := hopserver.NewHopServerExt(nil, &config.ServerConfig{EnableAuthgrants: true}, ks)
	if err != nil {
		panic(err)
	}
	srv.SetFSystem(fstest.MapFS{})
	for r := 0; r < rounds; r++ {
		u := []string{"u1", "u2"}[r%2]
		kp := keys.GenerateNewX25519KeyPair()
		g := []int{1, 1, 2, 0, 1, 3}[(r+seed)%6]
		n := []int{2, 4, 3, 4, 8, 4}[(r/6+seed)%6]
		for i := 0; i < g; i++ {
			in := &authgrants.Intent{GrantType: authgrants.Shell, StartTime: time.Now(), ExpTime: time.Now().Add(time.Hour),
				TargetUsername: u, DelegateCert: *leafFor(kp.Public)}
			if err := srv.AddAuthGrant(in); err != nil {
				panic(err)
			}
		}
		start := make(chan struct{})
		res := make(chan bool, n)
		for i := 0; i < n; i++ {
			go func() {
				<-start
				ok := false
				if err := srv.AuthorizeKey(u, kp.Public); err == nil {
					ok = true
				} else if _, err := srv.AuthorizeKeyAuthGrant(u, kp.Public); err == nil {
					ok = true
				}
				res <- ok
			}()
		}
		close(start)
		okc := 0
		for i := 0; i < n; i++ {
			if <-res {
				okc++
			}
		}
		w.Ev("batch", "u", u, "g", g, "n", n, "ok", okc)
	}
}

func main() {
	logrus.SetOutput(io.Discard)
	thunks.SetUpTest()
	if os.Args[1] == "conc" {
		rounds, _ := strconv.Atoi(os.Args[3])
		seed, _ := strconv.Atoi(os.Args[4])
		conc(os.Args[2], rounds, seed)
		return
	}
	in, out := os.Args[1], os.Args[2]
	enabled := os.Args[3] == "1"
	seed, _ := strconv.Atoi(os.Args[4])
	f, err := os.Open(in)
	if err != nil {
		panic(err)
	}
	defer f.Close()
	w := rec.Must(out)
	defer w.Close()
	sc := bufio.NewScanner(f)
	sc.Buffer(make([]byte, 1<<20), 1<<20)
	idx := 0
	for sc.Scan() {
		var b beh
		if err := json.Unmarshal(sc.Bytes(), &b); err != nil {
			panic(err)
		}
		variant := seed + idx
		ks := authkeys.NewSyncAuthKeySet()
		srv, err := hopserver.NewHopServerExt(nil, &config.ServerConfig{EnableAuthgrants: enabled}, ks)
		if err != nil {
			panic(err)
		}
		srv.SetFSystem(mkfs(b.File, variant))
		var ok bool
		via := "none"
		for _, op := range b.Hist {
			pk := key(op.K)
			switch op.Op {
			case "grant":
				in := &authgrants.Intent{GrantType: authgrants.Shell, StartTime: time.Now(), ExpTime: time.Now().Add(time.Hour),
					TargetUsername: op.U, DelegateCert: *leafFor(pk)}
				err := srv.AddAuthGrant(in)
				ok, via = err == nil, "grant"
			case "login":
				// hopSession.checkAuthorization: AuthorizeKey, then (if enabled) AuthorizeKeyAuthGrant
				ok, via = false, "none"
				if err := srv.AuthorizeKey(op.U, pk); err == nil {
					ok, via = true, "file"
				} else if enabled {
					if _, err := srv.AuthorizeKeyAuthGrant(op.U, pk); err == nil {
						ok, via = true, "grant"
					}
				}
			}
		}
		var inset []string
		for _, k := range []string{"k1", "k2", "k3"} {
			if ks.VerifyLeaf(leafFor(key(k)), certs.VerifyOptions{}) == nil {
				inset = append(inset, k)
			}
		}
		w.Ev("res", "i", idx, "ok", ok, "via", via, "keyset", inset)
		idx++
	}
}
