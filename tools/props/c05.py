# C05 — login only by a listed key or a live grant, failing closed (DESIGN.md §3 C05)
import json, os, re
import lib

def lines(f):
    return "%s%s" % (f["st"], "[" + ",".join("%s:%s" % (l["c"], l["k"]) for l in f["lines"]) + "]" if f["st"] == "file" else "")

def allowed(b):
    """Property oracle recomputed from the TLC-emitted state is NOT done here: TLC emits ok/via of its model and
    the design-stage run proves model-ok => Allowed.  The real result is judged one-directionally:
    real ok  =>  (file lists the key)  or  (grants enabled and an unconsumed grant for exactly (u,k))."""

def run(v, tier, replay):
    thorough = tier == "thorough"
    v.assumptions += ["users {u1,u2} (u2 has no file), keys {k1,k2,k3}; files of <= 2 lines exhaustively over 8 line kinds with histories <= 2, 13 curated files with histories <= 3 (thorough: 4)",
                      "login is driven as hopSession.checkAuthorization composes AuthorizeKey and AuthorizeKeyAuthGrant; the end-to-end path through a real session is covered by C07's session driver",
                      "a refusal is never a violation (one-directional property)"]
    runs = [("MC_HopLogin_A.cfg", True), ("MC_HopLogin_B4.cfg" if thorough else "MC_HopLogin_B.cfg", True), ("MC_HopLogin_Boff.cfg", False)]
    binp = lib.go_build("c05")
    sd = lib.scratch("vf-c05-")
    total = 0
    for cfg, enabled in runs:
        r = lib.tlc("MC_HopLogin", cfg, timeout=3000, workers=8)
        lib.tlc_must_pass(r, cfg)
        v.add_tlc(cfg, r)
        behs = [json.loads(m.group(1).replace('\\"', '"')) for m in re.finditer(r'^<<"BEH", "(.*)">>$', r.out, re.M)]
        if len(behs) < r.distinct - 100:
            raise lib.Inconclusive("emitted %d behaviours for %d states" % (len(behs), r.distinct))
        bf = os.path.join(sd, cfg + ".jsonl")
        with open(bf, "w") as fh:
            for b in behs:
                fh.write(json.dumps(b) + "\n")
        of = os.path.join(sd, cfg + ".out")
        rc, so, se = lib.run([binp, bf, of, "1" if enabled else "0", str(lib.seed())], timeout=3000)
        if rc != 0:
            raise lib.Inconclusive("c05 driver failed: " + (so + se)[-2000:])
        res = lib.read_ndjson(of)
        if len(res) != len(behs):
            raise lib.Inconclusive("driver returned %d results for %d behaviours" % (len(res), len(behs)))
        stricter = 0
        for b, rr in zip(behs, res):
            total += 1
            op = b["hist"][-1]
            v.case((cfg, lines(b["file"]), json.dumps(b["hist"])), nontrivial=op["op"] == "login")
            if op["op"] != "login":
                continue
            # property layer (one-directional): a real success must be Allowed.  The model's success is proved
            # Allowed by TLC, and the model is deterministic, so "real ok and model refuses" is exactly
            # "real ok in a state where the property does not allow it" for every state in which the model
            # refuses because of the property (no listing and no grant); the remaining case (file lists the key
            # but does not parse) is allowed by the property and accepted here.
            listed = b["file"]["st"] == "file" and any(l["c"] in ("key", "spaced") and l["k"] == op["k"] for l in b["file"]["lines"]) and op["u"] == "u1"
            if rr["ok"] and not b["ok"] and not listed:
                hist = " ".join("%s(%s,%s)" % (o["op"], o["u"], o["k"]) for o in b["hist"])
                v.violation("login granted without listing or grant: file=%s enabled=%s history=%s" % (lines(b["file"]), enabled, hist),
                            "real server authorised user %s with key %s via %s; the user's authorized-keys file is %s and no unconsumed grant for exactly that user and key exists"
                            % (op["u"], op["k"], rr["via"], lines(b["file"])), dict(behaviour=b, real=rr, grants_enabled=enabled))
            elif rr["ok"] != b["ok"]:
                stricter += 1
            elif rr["ok"] and sorted(rr["keyset"] or []) != sorted(b["keyset"]):
                # consumed grants must disappear from the transport key set (explanation layer)
                v.count("keyset_deviations")
        v.count("real_stricter_or_looser_within_property", stricter)
        v.sample(dict(kind="TLC behaviour replayed on real HopServer", file=lines(behs[len(behs) // 3]["file"]), hist=behs[len(behs) // 3]["hist"],
                      model=dict(ok=behs[len(behs) // 3]["ok"], via=behs[len(behs) // 3]["via"]), real=res[len(behs) // 3]))
    v.cov["behaviours_replayed_into_impl"] = total
    v.cov["traces_validated_against_impl"] += total
    v.cov["exhaustive"] = True

    # concurrent redemption: recorded from the real server, judged by TLC (Trace_HopLogin)
    tr = os.path.join(sd, "conc.ndjson")
    rounds = 120000 if thorough else 30000
    rc, so, se = lib.run([binp, "conc", tr, str(rounds), str(lib.seed())], timeout=900)
    if rc != 0:
        raise lib.Inconclusive("c05 conc driver failed: " + (so + se)[-2000:])
    events = lib.read_ndjson(tr)
    r = lib.tlc("Trace_HopLogin", "Trace_HopLogin.cfg", files={"trace.ndjson": "@" + tr}, workers=1, timeout=1800)
    v.add_tlc("Trace_HopLogin (concurrent redemption batches)", r)
    if not r.ok:
        raise lib.Inconclusive("trace not consumed by Trace_HopLogin: kind=%s\n%s" % (r.kind, r.out[-2000:]))
    v.cov["concurrent_batches"] = len(events)
    v.cov["traces_validated_against_impl"] += 1
    v.sample(events[0])
    for e in events[:2000]:
        v.case(("batch", e["g"], e["n"], e["ok"]))
    for m in re.finditer(r'<<"MISMATCH", (\d+)>>', r.out):
        e = events[int(m.group(1)) - 1]
        if e["ok"] > (1 if e["g"] > 0 else 0):
            v.violation("concurrent logins: %d of %d simultaneous logins succeeded on %d unconsumed grant(s) (one login takes all grants of its user and key)" % (e["ok"], e["n"], e["g"]),
                        "real HopServer, goroutines released together; no sequential order of Login actions explains it", e)
            break
        else:
            v.count("concurrent_batches_with_fewer_successes_than_sequential")
    # 4. the real session path (hopSession.start -> checkAuthorization) with the grant switch flipped on a running
    #    server: histories of HopGrants.tla with Toggle, replayed by the hopserver overlay driver; C05's clause is
    #    judged here (admitted => grants enabled and a grant stored for that user and key)
    import importlib.util, concurrent.futures
    sp = importlib.util.spec_from_file_location("c07", os.path.join(os.path.dirname(os.path.abspath(__file__)), "c07.py"))
    c07 = importlib.util.module_from_spec(sp); sp.loader.exec_module(c07)
    r, hs = c07.histories(3000 if thorough else 700, lib.seed() + 5, c07.CODE, toggles=2)
    v.add_tlc("MC_HopGrants simulation with the grant switch flipped (history generation for the real session path)", r)
    hs = [h for h in hs if any(o["op"] == "connect" for o in h["hist"])]
    if len(hs) < 100:
        raise lib.Inconclusive("too few session histories: %d" % len(hs))
    for i, h in enumerate(hs):
        h["id"] = i
    sd2 = lib.scratch("vf-c05s-")
    NP = 4
    def child(i):
        inp = os.path.join(sd2, "h-%d.ndjson" % i); out = os.path.join(sd2, "o-%d.ndjson" % i)
        lib.write_ndjson(inp, hs[i::NP])
        rc, so, se = lib.overlay_test("hopserver", "^TestVerifGrantsReplay$", env_extra={"VT_IN": inp, "VT_OUT": out}, timeout=1500, only=["zz_verif_grants_test.go"])
        return i, rc, out, (so + se)[-3000:]
    with concurrent.futures.ThreadPoolExecutor(max_workers=NP) as ex:
        for i, rc, out, tail in ex.map(child, range(NP)):
            evs = lib.read_ndjson(out) if os.path.exists(out) else []
            if rc != 0 or not any(e.get("done") for e in evs):
                raise lib.Inconclusive("overlay driver %d failed: rc=%s\n%s" % (i, rc, tail))
            for e in evs:
                if "results" not in e:
                    continue
                h = hs[e["id"]]["hist"]
                v.count("session_path_histories")
                v.case(("session", c07.desc(h)), nontrivial=True)
                for sig in c07.judge(h, e["results"]):
                    if "admitted" in sig:
                        v.violation(sig, "history replayed through the real session loop (hopSession.start / checkAuthorization)", dict(history=h, observed=e))
                if all(o.get("admitted") == r_.get("admitted") for o, r_ in zip(h, e["results"]) if o["op"] == "connect"):
                    v.count("traces_validated_against_impl")
