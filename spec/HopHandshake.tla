---------------------------- MODULE HopHandshake ----------------------------
(* The two post-quantum Hop handshakes (transport/handshake_pq.go, client.go, server.go):    *)
(*   discoverable  CH -> SH -> CA -> SA -> CL     (pqNN_XX with a stateless cookie)          *)
(*   hidden        HR -> HP                        (pqIK, server static KEM key known)        *)
(* with symbolic cryptography and a structured network adversary.                            *)
(*                                                                                           *)
(* Symbolic model.  A duplex is the SEQUENCE of terms absorbed so far (its transcript); a    *)
(* MAC or tag squeezed from it is the transcript itself; something encrypted under a         *)
(* transcript is readable exactly under an equal transcript.  Every term is a tuple of       *)
(* strings, every field value is either a sequence of terms (shape T) or an encryption       *)
(* record [k |-> transcript, p |-> term] (shape E), so that TLC can compare any two values   *)
(* of one field.  DH(a,b) is the unordered pair of the two private-key names; only a role    *)
(* holding one of them ever writes it.  KEM: ct(owner,r) decapsulates to ss(owner,r) under   *)
(* the owner's key and to garbage otherwise.                                                 *)
(*                                                                                           *)
(* Roles.  Session i has a client with a configuration (certificate presented, private key   *)
(* HELD, policy for the server's certificate, expected name) dialling one server instance    *)
(* (certificate presented, key HELD, policy for client certificates).  Honest and            *)
(* adversarial role instances run the same code and differ only in configuration: an         *)
(* impostor presents a victim's certificate and holds another key.                           *)
(*                                                                                           *)
(* Network adversary.  Each message travels one "hop"; the adversary picks for every hop one *)
(* move: ok, drop, dup, tamper one field, truncate, splice (substitute the same-hop message  *)
(* of the other session), readdr (deliver from another source address); between hops it may  *)
(* rotate the server's cookie key or let time pass (hidden-mode timestamp).  The number of   *)
(* moves other than ok is bounded by MaxMoves.                                               *)
(*                                                                                           *)
(* Each step is recorded in `hist` so that a behaviour can be replayed on the real endpoints *)
(* over the simulated wire, with the outcome variables as oracle.                            *)
EXTENDS Integers, Sequences, FiniteSets, TLC

CONSTANTS
    Sess,          \* set of session numbers, e.g. {1} or {1, 2}
    ModeSet,       \* handshake modes a session may use, subset of {"disc", "hid"}
    CCfgSet,       \* client configurations a session may use
    DialSet,       \* server ids a session may dial
    SCfg,          \* [server id -> server configuration]
    Cert,          \* [certificate id -> [key, cls, name]]
    MaxMoves,      \* adversary budget
    Sync,          \* TRUE: sessions advance hop by hop in a canonical order (no interleaving choice)
    EnforceSAMac   \* TRUE: the client rejects a wrong final MAC in ServerAuth (the code after repair)

Servers == DOMAIN SCfg

(* client configuration: [cert, key, pol, name, skem]  (skem: id of the server whose KEM key is configured) *)
(* server configuration: [cert, key, pol, auth, kem, hidden]  (auth: authorised key names; kem: "none" or key name) *)

-----------------------------------------------------------------------------
(* Terms *)
GT == << <<"G">> >>                         \* garbage of shape T
GE == [k |-> GT, p |-> <<"G">>]             \* garbage of shape E
P(x)        == <<"proto", x>>
Hd(x)       == <<"hdr", x>>
KemPk(o)    == <<"kpk", o>>
KemCt(o, r) == <<"kct", o, r>>
KemSS(o, r) == <<"kss", o, r>>
DhPub(k)    == <<"dhp", k>>
Sid(n)      == <<"sid", n>>
CertT(c)    == <<"cert", c>>
Sni(n)      == <<"sni", n>>
Ts(t)       == <<"ts", t>>
RK          == <<"rekey">>
S(i)        == ToString(i)

(* DH(a,b) is unordered: canonical form by position in KeyOrder *)
KeyOrder == <<"G", "k0", "k1", "k2", "k3", "k4", "k5", "k6", "k7", "k8", "k9",
              "ec1", "ec2", "es1", "es2", "es3", "es4", "es5", "es6">>
Pos(k) == CHOOSE n \in 1..Len(KeyOrder) : KeyOrder[n] = k
Pair(a, b) == IF Pos(a) <= Pos(b) THEN <<"dh", a, b>> ELSE <<"dh", b, a>>

PubKeyOf(f) == IF Len(f) = 1 /\ Len(f[1]) = 2 /\ f[1][1] = "dhp" THEN f[1][2] ELSE "G"
DHx(priv, pubfield) == Pair(priv, PubKeyOf(pubfield))
KemOwnerOf(f) == IF Len(f) = 1 /\ Len(f[1]) = 2 /\ f[1][1] = "kpk" THEN f[1][2] ELSE "G"
Decaps(owner, f) == IF Len(f) = 1 /\ Len(f[1]) = 3 /\ f[1][1] = "kct" /\ f[1][2] = owner
                    THEN KemSS(owner, f[1][3]) ELSE KemSS("G", "G")
Enc(t, x) == [k |-> t, p |-> x]
Dec(t, e) == IF e.k = t THEN e.p ELSE <<"G">>
IsCert(x) == Len(x) = 2 /\ x[1] = "cert" /\ x[2] \in DOMAIN Cert

-----------------------------------------------------------------------------
(* Certificate policy (certs.Store.VerifyLeaf, authkeys.VerifyLeaf, certificateParserAndVerifier) *)
StoreOK(c, name) == Cert[c].cls = "valid" /\ (name = "none" \/ Cert[c].name = name)
AuthOK(c, name, auth) == /\ Cert[c].cls # "wrongtype"
                         /\ (name = "none" \/ Cert[c].name = name)
                         /\ Cert[c].key \in auth
ChainVerifies(c, name, pol, auth) ==
    CASE pol = "skip"     -> TRUE
      [] pol = "store"    -> StoreOK(c, name)
      [] pol = "authkeys" -> AuthOK(c, name, auth)
      [] pol = "both"     -> AuthOK(c, name, auth) \/ StoreOK(c, name)

-----------------------------------------------------------------------------
VARIABLES
    Mode,    \* [Sess -> mode]                  chosen initially, constant afterwards
    CCfg,    \* [Sess -> client configuration]  chosen initially, constant afterwards
    Dial,    \* [Sess -> server id]             chosen initially, constant afterwards
    cl,      \* [Sess -> client state]
    sv,      \* [Servers -> server state]
    out,     \* [Sess -> [hop -> message or NoMsg]]   message waiting to travel that hop
    old,     \* [Sess -> [hop -> message or NoMsg]]   last message that travelled that hop (for replays)
    clock,   \* ticks (hidden-mode timestamp freshness: fresh iff same tick)
    moves,   \* adversary moves used
    ctr,     \* fresh-name counter (server ephemerals, session ids, KEM randomness)
    hist     \* steps taken (for replay)
scen == <<Mode, CCfg, Dial>>
vars == <<Mode, CCfg, Dial, cl, sv, out, old, clock, moves, ctr, hist>>

Hops == {"CH", "SH", "CA", "SA", "CL", "HR", "HP"}
ToServer(h) == h \in {"CH", "CA", "CL", "HR"}
NoMsg == [type |-> "none"]
Addr(i) == "a" \o S(i)

ClientInit(i) == [st |-> "idle", t |-> <<>>, cookie |-> GT, sid |-> GT, keys |-> <<>>, saw |-> "none",
                  alt |-> FALSE, from |-> "none"]
ServerInit == [hs |-> {}, sess |-> {}, acc |-> <<>>, epoch |-> 0, sent |-> 0]

Init == /\ Mode \in [Sess -> ModeSet] /\ CCfg \in [Sess -> CCfgSet] /\ Dial \in [Sess -> DialSet]
        /\ \A i \in Sess : (Mode[i] = "hid") => SCfg[Dial[i]].kem # "none"
        /\ cl = [i \in Sess |-> ClientInit(i)]
        /\ sv = [s \in Servers |-> ServerInit]
        /\ out = [i \in Sess |-> [h \in Hops |-> NoMsg]]
        /\ old = [i \in Sess |-> [h \in Hops |-> NoMsg]]
        /\ clock = 0 /\ moves = 0 /\ ctr = 0 /\ hist = <<>>

(* message constructors: every message carries ghost fields org (producing role instance),   *)
(* alt (changed in flight), src (source address it is delivered from) and                    *)
(* hs (the handshake - identified by its initiating client - that the message belongs to).    *)
Msg(type, org, hs, fields) == [type |-> type, org |-> org, hs |-> hs, alt |-> FALSE, trunc |-> FALSE, src |-> "-"] @@ fields

-----------------------------------------------------------------------------
(* Client actions *)
T0(mode) == << P(IF mode = "disc" THEN "pqXX" ELSE "pqIK") >>

ClientStart(i) ==
    /\ cl[i].st = "idle"
    /\ IF Mode[i] = "disc"
       THEN LET t1 == T0("disc") \o <<Hd("CH")>> \o <<KemPk("kc" \o S(i))>>
            IN  /\ cl' = [cl EXCEPT ![i].st = "wSH", ![i].t = t1]
                /\ out' = [out EXCEPT ![i]["CH"] = Msg("CH", "c" \o S(i), "c" \o S(i),
                               [hdr |-> <<Hd("CH")>>, ekem |-> <<KemPk("kc" \o S(i))>>, mac |-> t1])]
                /\ ctr' = ctr
       ELSE LET c  == CCfg[i]
                r  == "r" \o S(ctr + 1)
                t2 == <<RK>> \o T0("hid") \o <<Hd("HR")>> \o <<Hd("len")>> \o <<KemPk("kc" \o S(i))>>
                t3 == t2 \o <<KemSS(SCfg[c.skem].kem, r)>>
                t4 == t3 \o <<CertT(c.cert)>>
                t5 == t4 \o <<Ts(S(clock))>>
            IN  /\ cl' = [cl EXCEPT ![i].st = "wHP", ![i].t = t5]
                /\ out' = [out EXCEPT ![i]["HR"] = Msg("HR", "c" \o S(i), "c" \o S(i),
                               [hdr |-> <<Hd("HR")>>, len |-> <<Hd("len")>>, ekem |-> <<KemPk("kc" \o S(i))>>, skemct |-> <<KemCt(SCfg[c.skem].kem, r)>>,
                                certs |-> Enc(t3, CertT(c.cert)), tag |-> t4, ts |-> Enc(t4, Ts(S(clock))), mac |-> t5])]
                /\ ctr' = ctr + 1
    /\ hist' = Append(hist, [s |-> i, hop |-> "start", mv |-> "ok", f |-> "-", alt |-> FALSE, ns |-> 0, sent |-> 0])
    /\ UNCHANGED <<scen, sv, old, clock, moves>>

Fail(i, m) == cl' = [cl EXCEPT ![i].st = "fail", ![i].alt = @ \/ m.alt]

CliSH(i, m, ob) ==
    LET k  == Decaps("kc" \o S(i), m.kemct)
        t2 == cl[i].t \o m.hdr \o <<k>> \o m.cookie
        ok == m.type = "SH" /\ ~m.trunc /\ m.hdr = <<Hd("SH")>> /\ m.mac = t2
        c  == CCfg[i]
        t4 == <<RK>> \o t2 \o <<Hd("CA")>> \o <<DhPub("ec" \o S(i))>> \o <<KemPk("kc" \o S(i))>> \o m.cookie
        t5 == t4 \o <<Sni(c.name)>>
    IN IF ok
       THEN /\ cl' = [cl EXCEPT ![i].st = "wSA", ![i].t = t5, ![i].cookie = m.cookie, ![i].alt = @ \/ m.alt]
            /\ out' = [ob EXCEPT ![i]["CA"] = Msg("CA", "c" \o S(i), "c" \o S(i),
                          [hdr |-> <<Hd("CA")>>, e |-> <<DhPub("ec" \o S(i))>>, ekem |-> <<KemPk("kc" \o S(i))>>,
                           cookie |-> m.cookie, sni |-> Enc(t4, Sni(c.name)), mac |-> t5])]
       ELSE Fail(i, m) /\ out' = ob

CliSA(i, m, ob) ==
    LET c    == CCfg[i]
        ec   == "ec" \o S(i)
        t6   == cl[i].t \o m.hdr \o m.len \o m.sid \o m.e \o <<DHx(ec, m.e)>>
        cert == Dec(t6, m.certs)
        t7   == t6 \o <<cert>>
        tagOK == m.type = "SA" /\ ~m.trunc /\ m.hdr = <<Hd("SA")>> /\ m.tag = t7
        certOK == IsCert(cert) /\ ChainVerifies(cert[2], c.name, c.pol, {})
        t8   == t7 \o <<Pair(ec, IF IsCert(cert) THEN Cert[cert[2]].key ELSE "G")>>
        macOK == (~EnforceSAMac) \/ m.mac = t8
        t9   == t8 \o <<Hd("CL")>> \o <<Hd("len")>> \o m.sid
        t10  == t9 \o <<CertT(c.cert)>>
        t11  == t10 \o <<DHx(c.key, m.e)>>
    IN IF tagOK /\ certOK /\ macOK
       THEN /\ cl' = [cl EXCEPT ![i].st = "done", ![i].t = t11, ![i].keys = t11, ![i].sid = m.sid,
                                 ![i].saw = cert[2], ![i].alt = @ \/ m.alt, ![i].from = m.org]
            /\ out' = [ob EXCEPT ![i]["CL"] = Msg("CL", "c" \o S(i), "c" \o S(i),
                          [hdr |-> <<Hd("CL")>>, len |-> <<Hd("len")>>, sid |-> m.sid, certs |-> Enc(t9, CertT(c.cert)), tag |-> t10, mac |-> t11])]
       ELSE Fail(i, m) /\ out' = ob

CliHP(i, m, ob) ==
    LET c    == CCfg[i]
        k2   == Decaps("kc" \o S(i), m.ekemct)
        t7   == cl[i].t \o m.hdr \o m.len \o m.sid \o <<k2>>
        cert == Dec(t7, m.certs)
        t8   == t7 \o <<cert>>
        tagOK == m.type = "HP" /\ ~m.trunc /\ m.hdr = <<Hd("HP")>> /\ m.tag = t8
        certOK == IsCert(cert) /\ ChainVerifies(cert[2], c.name, c.pol, {})
        t9   == t8 \o <<Pair(c.key, IF IsCert(cert) THEN Cert[cert[2]].key ELSE "G")>>
        macOK == m.mac = t9
    IN IF tagOK /\ certOK /\ macOK
       THEN cl' = [cl EXCEPT ![i].st = "done", ![i].t = t9, ![i].keys = t9, ![i].sid = m.sid,
                              ![i].saw = cert[2], ![i].alt = @ \/ m.alt, ![i].from = m.org] /\ out' = ob
       ELSE Fail(i, m) /\ out' = ob

-----------------------------------------------------------------------------
(* Server actions.  i is the session whose path the datagram travels (determines where the   *)
(* reply goes in the model); m.src is the source address the server sees.                    *)
SrvCH(s, i, m, ob) ==
    LET o  == KemOwnerOf(m.ekem)
        t1 == T0("disc") \o m.hdr \o m.ekem
        ok == m.type = "CH" /\ ~m.trunc /\ m.hdr = <<Hd("CH")>> /\ m.mac = t1 /\ ~SCfg[s].hidden
        r  == "r" \o S(ctr + 1)
        k  == KemSS(o, r)
        ck == << <<"ck", "e" \o S(sv[s].epoch), m.src, o>>, k >>
        t2 == t1 \o <<Hd("SH")>> \o <<k>> \o ck
    IN IF ok
       THEN /\ out' = [ob EXCEPT ![i]["SH"] = Msg("SH", s, m.hs, [hdr |-> <<Hd("SH")>>, kemct |-> <<KemCt(o, r)>>, cookie |-> ck, mac |-> t2])]
            /\ ctr' = ctr + 1
            /\ sv' = [sv EXCEPT ![s].sent = @ + 1]                      \* stateless apart from the output counter
       ELSE out' = ob /\ UNCHANGED <<ctr, sv>>

SrvCA(s, i, m, ob) ==
    LET o    == KemOwnerOf(m.ekem)
        ckOK == /\ Len(m.cookie) = 2 /\ Len(m.cookie[1]) = 4
                /\ m.cookie[1] = <<"ck", "e" \o S(sv[s].epoch), m.src, o>>      \* current key, same address, same client key
        k    == IF ckOK THEN m.cookie[2] ELSE <<"G">>
        t2   == T0("disc") \o <<Hd("CH")>> \o m.ekem \o <<Hd("SH")>> \o <<k>> \o m.cookie
        t4   == <<RK>> \o t2 \o m.hdr \o m.e \o m.ekem \o m.cookie
        name == Dec(t4, m.sni)
        t5   == t4 \o <<name>>
        ok   == m.type = "CA" /\ ~m.trunc /\ ~SCfg[s].hidden /\ m.hdr = <<Hd("CA")>> /\ ckOK /\ m.mac = t5
        fresh == ~\E h \in sv[s].hs : h.addr = m.src
        n    == ctr + 1
        es   == "es" \o S(n)
        sc   == SCfg[s]
        sidv == IF fresh THEN Sid(S(n)) ELSE Sid("zero")
        t6   == t5 \o <<Hd("SA")>> \o <<Hd("len")>> \o <<sidv>> \o <<DhPub(es)>> \o <<DHx(es, m.e)>>
        t7   == t6 \o <<CertT(sc.cert)>>
        t8   == t7 \o <<DHx(sc.key, m.e)>>                                \* the key the server HOLDS
    IN IF ok
       THEN /\ sv' = [sv EXCEPT ![s].hs = IF fresh THEN @ \cup {[addr |-> m.src, t |-> t8, sid |-> S(n), es |-> es, alt |-> m.alt]} ELSE @,
                                ![s].sess = IF fresh THEN @ \cup {[sid |-> S(n), st |-> "pending", keys |-> <<>>, cert |-> "none", from |-> "none", alt |-> FALSE, hidden |-> FALSE]} ELSE @,
                                ![s].sent = @ + 1]
            /\ out' = [ob EXCEPT ![i]["SA"] = Msg("SA", s, m.hs, [hdr |-> <<Hd("SA")>>, len |-> <<Hd("len")>>, sid |-> <<sidv>>, e |-> <<DhPub(es)>>,
                                                             certs |-> Enc(t6, CertT(sc.cert)), tag |-> t7, mac |-> t8])]
            /\ ctr' = n
       ELSE out' = ob /\ UNCHANGED <<ctr, sv>>

SrvCL(s, i, m, ob) ==
    IF (~\E h \in sv[s].hs : h.addr = m.src) \/ SCfg[s].hidden \/ m.type # "CL" \/ m.trunc \/ m.hdr # <<Hd("CL")>>
    THEN out' = ob /\ UNCHANGED <<ctr, sv>>
    ELSE
    LET h    == CHOOSE x \in sv[s].hs : x.addr = m.src
        sc   == SCfg[s]
        t9   == h.t \o m.hdr \o m.len \o m.sid
        cert == Dec(t9, m.certs)
        t10  == t9 \o <<cert>>
        certOK == IsCert(cert) /\ ChainVerifies(cert[2], "none", sc.pol, sc.auth)
        t11  == t10 \o <<Pair(h.es, IF IsCert(cert) THEN Cert[cert[2]].key ELSE "G")>>
        ok   == m.tag = t10 /\ certOK /\ m.mac = t11
    IN IF ok /\ m.sid = <<Sid(h.sid)>>
       THEN /\ sv' = [sv EXCEPT ![s].hs = @ \ {h},
                                ![s].sess = (@ \ {x \in @ : x.sid = h.sid}) \cup
                                            {[sid |-> h.sid, st |-> "est", keys |-> t11, cert |-> cert[2], from |-> m.org, alt |-> h.alt \/ m.alt, hidden |-> FALSE]},
                                ![s].acc = Append(@, h.sid)]
            /\ out' = ob /\ UNCHANGED ctr
       ELSE \* The stored duplex absorbs the header before the session id is even compared: whatever
            \* fails from here on leaves this handshake unable to complete (a later genuine
            \* ClientAuth from this address no longer verifies).
            /\ sv' = [sv EXCEPT ![s].hs = (@ \ {h}) \cup {[h EXCEPT !.t = GT]}]
            /\ out' = ob /\ UNCHANGED ctr

SrvHR(s, i, m, ob) ==
    LET sc   == SCfg[s]
        o    == KemOwnerOf(m.ekem)
        k    == Decaps(sc.kem, m.skemct)
        t3   == <<RK>> \o T0("hid") \o m.hdr \o m.len \o m.ekem \o <<k>>
        cert == Dec(t3, m.certs)
        t4   == t3 \o <<cert>>
        tagOK == m.type = "HR" /\ ~m.trunc /\ m.hdr = <<Hd("HR")>> /\ sc.kem # "none" /\ m.tag = t4
        certOK == IsCert(cert) /\ ChainVerifies(cert[2], "none", sc.pol, sc.auth)
        ts   == Dec(t4, m.ts)
        t5   == t4 \o <<ts>>
        tsOK == ts = Ts(S(clock))                                         \* fresh: within the window
        ok   == tagOK /\ certOK /\ tsOK /\ m.mac = t5
        fresh == ~\E h \in sv[s].hs : h.addr = m.src
        n    == ctr + 1
        r2   == "r" \o S(n)
        t7   == t5 \o <<Hd("HP")>> \o <<Hd("len")>> \o <<Sid(S(n))>> \o <<KemSS(o, r2)>>
        t8   == t7 \o <<CertT(sc.cert)>>
        t9   == t8 \o <<Pair(sc.key, IF IsCert(cert) THEN Cert[cert[2]].key ELSE "G")>>
    IN IF ok /\ fresh
       THEN /\ sv' = [sv EXCEPT ![s].sess = @ \cup {[sid |-> S(n), st |-> "est", keys |-> t9, cert |-> cert[2], from |-> m.org, alt |-> m.alt, hidden |-> TRUE]},
                                ![s].acc = Append(@, S(n)), ![s].sent = @ + 1]
            /\ out' = [ob EXCEPT ![i]["HP"] = Msg("HP", s, m.hs, [hdr |-> <<Hd("HP")>>, len |-> <<Hd("len")>>, sid |-> <<Sid(S(n))>>, ekemct |-> <<KemCt(o, r2)>>,
                                                             certs |-> Enc(t7, CertT(sc.cert)), tag |-> t8, mac |-> t9])]
            /\ ctr' = n
       ELSE out' = ob /\ UNCHANGED <<ctr, sv>>

-----------------------------------------------------------------------------
(* Adversary moves on a hop *)
TFields(type) == CASE type = "CH" -> {"hdr", "ekem", "mac"}
                   [] type = "SH" -> {"hdr", "kemct", "cookie", "mac"}
                   [] type = "CA" -> {"hdr", "e", "ekem", "cookie", "mac"}
                   [] type = "SA" -> {"hdr", "len", "sid", "e", "tag", "mac"}
                   [] type = "CL" -> {"hdr", "len", "sid", "tag", "mac"}
                   [] type = "HR" -> {"hdr", "len", "ekem", "skemct", "tag", "mac"}
                   [] type = "HP" -> {"hdr", "len", "sid", "ekemct", "tag", "mac"}
EFields(type) == CASE type = "CA" -> {"sni"} [] type \in {"SA", "CL", "HP"} -> {"certs"}
                   [] type = "HR" -> {"certs", "ts"} [] OTHER -> {}
Fields(type) == TFields(type) \cup EFields(type)
Tampered(m, f) == [[m EXCEPT ![f] = IF f \in EFields(m.type) THEN GE ELSE GT] EXCEPT !.alt = TRUE]

(* The client reads ONE datagram per handshake stage and treats whatever arrives as the        *)
(* message it is waiting for; a datagram of another type makes the handshake fail.  After the *)
(* handshake (done / fail) handshake datagrams are not interpreted any more.                  *)
Expected(st) == CASE st = "wSH" -> "SH" [] st = "wSA" -> "SA" [] st = "wHP" -> "HP" [] OTHER -> "-"
CliRecv(i, m, ob) ==
    IF Expected(cl[i].st) = "-" THEN cl' = cl /\ out' = ob
    ELSE IF m.type # Expected(cl[i].st) THEN Fail(i, m) /\ out' = ob
    ELSE CASE m.type = "SH" -> CliSH(i, m, ob)
           [] m.type = "SA" -> CliSA(i, m, ob)
           [] m.type = "HP" -> CliHP(i, m, ob)

Receive(i, h, m, ob) ==
    LET s == Dial[i] IN
    CASE h = "CH" -> SrvCH(s, i, m, ob) /\ UNCHANGED cl
      [] h = "CA" -> SrvCA(s, i, m, ob) /\ UNCHANGED cl
      [] h = "CL" -> SrvCL(s, i, m, ob) /\ UNCHANGED cl
      [] h = "HR" -> SrvHR(s, i, m, ob) /\ UNCHANGED cl
      [] h \in {"SH", "SA", "HP"} -> CliRecv(i, m, ob) /\ UNCHANGED <<sv, ctr>>

OtherSess(i) == IF Cardinality(Sess) = 1 THEN i ELSE CHOOSE j \in Sess : j # i
WithSrc(i, h, m) == [m EXCEPT !.src = IF ToServer(h) THEN Addr(i) ELSE Dial[i]]

HopIdx(h) == CASE h = "CH" -> 1 [] h = "SH" -> 2 [] h = "CA" -> 3 [] h = "SA" -> 4 [] h = "CL" -> 5
               [] h = "HR" -> 1 [] h = "HP" -> 2
Rank(i, h) == HopIdx(h) * 10 + i
InTurn(i, h) == ~Sync \/ (/\ \A j \in Sess : cl[j].st # "idle"
                          /\ \A j \in Sess, g \in Hops : out[j][g] # NoMsg => Rank(i, h) <= Rank(j, g))
OtherMsg(i, h) == IF out[OtherSess(i)][h] # NoMsg THEN out[OtherSess(i)][h] ELSE old[OtherSess(i)][h]

Tables(x) == Cardinality(x.hs) + Cardinality(x.sess)     \* tracked handshakes + sessions of one server
(* Step(i, h, mv): the message waiting on hop h of session i travels with adversary move mv. *)
Delivered(i, h, mv, m0) ==
    CASE mv.k = "ok"     -> m0
      [] mv.k = "tamper" -> Tampered(m0, mv.f)
      [] mv.k = "trunc"  -> [m0 EXCEPT !.trunc = TRUE, !.alt = TRUE]
      [] mv.k = "readdr" -> [m0 EXCEPT !.src = "ax"]
      [] mv.k = "splice" -> \* a FIRST message (CH, HR) of another handshake is, for the server, just that other
                            \* handshake starting from this address; a server reply produced for THIS client's own
                            \* (replayed) first message belongs to this client's handshake: neither is "replaced"
                            [OtherMsg(i, h) EXCEPT !.src = m0.src,
                                  !.alt = @ \/ (h \notin {"CH", "HR"} /\ OtherMsg(i, h).hs # "c" \o S(i))]
      [] OTHER -> m0
Step(i, h, mv) ==
    /\ out[i][h] # NoMsg /\ InTurn(i, h)
    /\ (mv.k = "tamper") => mv.f \in Fields(out[i][h].type)
    /\ (mv.k = "readdr") => ToServer(h)
    /\ (mv.k = "splice") => (OtherSess(i) # i /\ OtherMsg(i, h) # NoMsg)
    /\ LET m0   == WithSrc(i, h, out[i][h])
           cost == IF mv.k = "ok" THEN 0 ELSE 1
           ob   == [out EXCEPT ![i][h] = NoMsg]
           md   == Delivered(i, h, mv, m0)
       IN /\ moves + cost <= MaxMoves
          /\ moves' = moves + cost
          /\ old' = [old EXCEPT ![i][h] = out[i][h]]
          /\ UNCHANGED <<scen, clock>>
          /\ IF mv.k = "drop" THEN out' = ob /\ UNCHANGED <<cl, sv, ctr>>
             ELSE Receive(i, h, md, ob)
          /\ hist' = Append(hist, [s |-> i, hop |-> h, mv |-> mv.k, f |-> mv.f, alt |-> mv.k # "drop" /\ md.alt,
                                   ns |-> Tables(sv'[Dial[i]]), sent |-> sv'[Dial[i]].sent])

(* Replay(i, h): a message that already travelled hop h of session i is delivered again.     *)
Replay(i, h) ==
    /\ old[i][h] # NoMsg /\ out[i][h] = NoMsg
    /\ moves + 1 <= MaxMoves /\ moves' = moves + 1
    /\ UNCHANGED <<scen, old, clock>>
    /\ Receive(i, h, WithSrc(i, h, old[i][h]), out)
    /\ hist' = Append(hist, [s |-> i, hop |-> h, mv |-> "replay", f |-> "-", alt |-> FALSE,
                             ns |-> Tables(sv'[Dial[i]]), sent |-> sv'[Dial[i]].sent])

(* Rotate(s): the server's cookie key is replaced (2-minute ticker in Serve).                *)
Rotate(s) == /\ sv[s].epoch = 0 /\ moves + 1 <= MaxMoves /\ moves' = moves + 1
             /\ \E i \in Sess : Dial[i] = s /\ Mode[i] = "disc"
             /\ sv' = [sv EXCEPT ![s].epoch = 1]
             /\ hist' = Append(hist, [s |-> 0, hop |-> "rotate", mv |-> s, f |-> "-", alt |-> FALSE, ns |-> 0, sent |-> 0])
             /\ UNCHANGED <<scen, cl, out, old, clock, ctr>>

(* Tick: more than the timestamp window passes.                                              *)
Tick == /\ clock = 0 /\ moves + 1 <= MaxMoves /\ moves' = moves + 1
        /\ \E i \in Sess : Mode[i] = "hid"
        /\ clock' = 1
        /\ hist' = Append(hist, [s |-> 0, hop |-> "tick", mv |-> "-", f |-> "-", alt |-> FALSE, ns |-> 0, sent |-> 0])
        /\ UNCHANGED <<scen, cl, sv, out, old, ctr>>

Moves == {[k |-> "ok", f |-> "-"], [k |-> "drop", f |-> "-"], [k |-> "trunc", f |-> "-"],
          [k |-> "readdr", f |-> "-"], [k |-> "splice", f |-> "-"]}
         \cup {[k |-> "tamper", f |-> f] : f \in UNION {Fields(t) : t \in Hops}}

Next == \/ \E i \in Sess : ClientStart(i)
        \/ \E i \in Sess, h \in Hops, mv \in Moves : Step(i, h, mv)
        \/ \E i \in Sess, h \in Hops : Replay(i, h)
        \/ \E s \in Servers : Rotate(s)
        \/ Tick
Spec == Init /\ [][Next]_vars

-----------------------------------------------------------------------------
(* Properties *)
Holder(org) == IF org \in Servers THEN SCfg[org].key
               ELSE CCfg[CHOOSE i \in Sess : org = "c" \o S(i)].key

(* C01, client side: success only with a certificate that verifies and a peer holding its key *)
C01Client == \A i \in Sess : cl[i].st = "done" =>
                /\ ChainVerifies(cl[i].saw, CCfg[i].name, CCfg[i].pol, {})
                /\ cl[i].from \in Servers /\ Holder(cl[i].from) = Cert[cl[i].saw].key

(* C01, server side.  Discoverable mode: a session is established (offered to Accept, able to  *)
(* deliver data) only for a client whose certificate satisfies the policy and who holds its   *)
(* key.  Hidden mode (IK pattern): the session exists after the first message, before the     *)
(* client has proved anything beyond the policy; DATA can be delivered on it only by someone  *)
(* holding its keys, i.e. a client instance that completed with equal keys - and that one     *)
(* must hold the certified key.                                                               *)
CanSendData(x) == \E i \in Sess : cl[i].st = "done" /\ cl[i].keys = x.keys
C01Server == \A s \in Servers : \A x \in sv[s].sess : x.st = "est" =>
                /\ ChainVerifies(x.cert, "none", SCfg[s].pol, SCfg[s].auth)
                /\ (~x.hidden \/ CanSendData(x)) =>
                      (x.from \notin Servers /\ Holder(x.from) = Cert[x.cert].key)
C01Accept == \A s \in Servers : \A n \in 1..Len(sv[s].acc) :
                \E x \in sv[s].sess : x.sid = sv[s].acc[n] /\ x.st = "est"

(* C02: whoever consumed a changed message did not complete *)
C02Client == \A i \in Sess : cl[i].st = "done" => ~cl[i].alt
C02Server == \A s \in Servers : \A x \in sv[s].sess : x.st = "est" => ~x.alt

(* C02: both complete => same session id and keys; sessions never share keys *)
C02Agree == \A i \in Sess : cl[i].st = "done" =>
               \A s \in Servers : \A x \in sv[s].sess :
                   (x.st = "est" /\ <<Sid(x.sid)>> = cl[i].sid /\ s = Dial[i]) => x.keys = cl[i].keys
C02Distinct == /\ \A i, j \in Sess : (i # j /\ cl[i].st = "done" /\ cl[j].st = "done") => cl[i].keys # cl[j].keys
               /\ \A s \in Servers : \A x, y \in sv[s].sess : (x.st = "est" /\ y.st = "est" /\ x.sid # y.sid) => x.keys # y.keys

(* C19: a ClientHello leaves the tables unchanged; state is allocated only for a valid cookie *)
C19Stateless == [][\A i \in Sess, mv \in Moves : Step(i, "CH", mv) =>
                      \A s \in Servers : sv'[s].hs = sv[s].hs /\ sv'[s].sess = sv[s].sess]_vars
C19HiddenSilent == [][\A s \in Servers : (SCfg[s].hidden /\ sv'[s].sent > sv[s].sent) =>
                         \E i \in Sess : \E x \in sv'[s].sess : x \notin sv[s].sess /\ x.hidden
                            /\ ChainVerifies(x.cert, "none", SCfg[s].pol, SCfg[s].auth)]_vars

TypeOK == /\ moves \in 0..MaxMoves /\ clock \in 0..1
          /\ \A i \in Sess : cl[i].st \in {"idle", "wSH", "wSA", "wHP", "done", "fail"}

=============================================================================
