----------------------------- MODULE MC_HopGrants -----------------------------
EXTENDS HopGrants, Json
G(i, t, c, s, e, u, k) == [id |-> i, type |-> t, cmd |-> c, start |-> s, exp |-> e, user |-> u, key |-> k]
\* the palette: same command twice (two uses), a prefix pair of command texts, a grant that becomes effective
\* later, one that expires early, another user with the same key, another key with the same user, port forwarding
Pal == { G(1, "cmd", "A", 0, 3, "u1", "k1"), G(2, "shell", "-", 1, 3, "u1", "k1"), G(3, "cmd", "A", 0, 1, "u1", "k1"),
         G(4, "cmd", "AB", 0, 3, "u1", "k1"), G(5, "cmd", "B", 0, 3, "u2", "k1"), G(6, "cmd", "A", 0, 3, "u1", "k2"),
         G(7, "localpf", "-", 0, 2, "u1", "k1"), G(8, "shell", "-", 0, 3, "u1", "k1"),
         G(9, "remotepf", "-", 1, 3, "u1", "k1") }
VARIABLE hist
SimInit == Init /\ hist = <<>>
Obs == [store |-> [u \in Users |-> [k \in Keys |-> Len(store'[<<u, k>>])]], keyset |-> keyset']
SimNext ==
    \/ \E g \in Palette : AddGrant(g) /\ hist' = Append(hist, [op |-> "add", g |-> g, obs |-> Obs])
    \/ Tick /\ hist' = Append(hist, [op |-> "tick", now |-> now', obs |-> Obs])
    \/ Toggle /\ hist' = Append(hist, [op |-> "toggle", enabled |-> enabled', obs |-> Obs])
    \/ \E u \in Users, k \in Keys : Connect(u, k) /\ hist' = Append(hist, [op |-> "connect", user |-> u, key |-> k, admitted |-> Admits(u, k), sid |-> Len(sess'), obs |-> Obs])
    \/ \E s \in 1..MaxSess, kd \in Kinds : Request(s, kd) /\ hist' = Append(hist, [op |-> "request", sid |-> s, kind |-> kd, started |-> started' # started, left |-> Len(sess'[s].grants), obs |-> Obs])
MCSpec == SimInit /\ [][Next /\ UNCHANGED hist]_<<vars, hist>>
SimSpec == SimInit /\ [][SimNext]_<<vars, hist>>
Emit == (nreq = MaxReq \/ Len(hist) >= 14) => PrintT(<<"BEH", ToJson(hist)>>)
Stop == nreq < MaxReq /\ Len(hist) < 14
=============================================================================
