// c12 drives real cipher.AEAD values returned by kravatte.NewSANSE and records every call with its
// inputs and outputs for validation against the executable specification Sanse.tla.
//
//	c12 <out.ndjson> <seed> <quick|thorough>
//
// Groups (each starts with a "reset" line so that the trace can be cut into independent chunks):
//
//	keys      for every key length of the tier: one sealed message (recomputed by TLC) and, for every key
//	          byte, whether changing it changes the output
//	lengths   plaintext / associated-data lengths across the 200-byte block boundaries: seal on one session,
//	          open on a second one (both recomputed by TLC), then bit flips in ciphertext, tag and associated
//	          data on fresh receivers
//	sessions  multi-message sessions on one pair of instances, with empty plaintexts, header-only messages and
//	          a forged message in the middle (after which the receiver is out of step, also in the specification)
//	alias     overlapping dst / plaintext / associated data, compared with the disjoint call on a twin session
//	random    round trips with random keys and lengths (result only)
package main

import (
	"bytes"
	"crypto/cipher"
	"math/rand"
	"os"
	"strconv"

	"hop.computer/hop/kravatte"
	"verif/harness/rec"
)

var w *rec.W
var rng *rand.Rand
var inst int

func ints(b []byte) []int {
	out := make([]int, len(b))
	for i, x := range b {
		out[i] = int(x)
	}
	return out
}

func data(n int) []byte {
	b := make([]byte, n)
	rng.Read(b)
	return b
}

func newSession(key []byte, logged bool) (cipher.AEAD, int) {
	a, err := kravatte.NewSANSE(key)
	if err != nil {
		panic(err)
	}
	inst++
	if logged {
		w.Ev("call", "op", "new", "inst", inst, "key", ints(key))
	}
	return a, inst
}

func seal(a cipher.AEAD, id int, ad, pt []byte) []byte {
	out := a.Seal(nil, nil, pt, ad)
	w.Ev("call", "op", "seal", "inst", id, "ad", ints(ad), "pt", ints(pt), "out", ints(out))
	return out
}

func open(a cipher.AEAD, id int, ad, ct []byte) ([]byte, bool) {
	out, err := a.Open(nil, nil, ct, ad)
	w.Ev("call", "op", "open", "inst", id, "ad", ints(ad), "ct", ints(ct), "ok", err == nil, "out", ints(out))
	return out, err == nil
}

func flip(b []byte, bit int) []byte {
	c := append([]byte(nil), b...)
	c[bit/8] ^= 1 << (bit % 8)
	return c
}

func main() {
	w = rec.Must(os.Args[1])
	defer w.Close()
	seed, _ := strconv.ParseInt(os.Args[2], 10, 64)
	thorough := os.Args[3] == "thorough"
	rng = rand.New(rand.NewSource(seed))

	// ---- keys ----
	klens := []int{1, 7, 8, 9, 15, 16, 17, 31, 32, 33, 100, 136, 199}
	if thorough {
		klens = nil
		for l := 1; l <= 199; l++ {
			klens = append(klens, l)
		}
	}
	for _, kl := range klens {
		w.Ev("call", "op", "reset", "group", "keys", "klen", kl)
		key := data(kl)
		ad, pt := data(5), data(20)
		a, id := newSession(key, true)
		ref := seal(a, id, ad, pt)
		for i := 0; i < kl; i++ {
			k2 := append([]byte(nil), key...)
			k2[i] ^= byte(1 + rng.Intn(255))
			b, _ := newSession(k2, false)
			out := b.Seal(nil, nil, pt, ad)
			w.Ev("call", "op", "keybyte", "klen", kl, "i", i, "differs", !bytes.Equal(out, ref))
		}
	}

	// ---- lengths ----
	plens := []int{0, 1, 199, 200, 201, 399, 400, 401}
	alens := []int{0, 1, 199, 200, 201}
	if thorough {
		plens = append(plens, 599, 600, 601, 800, 1000, 1399, 1400, 1401)
		alens = append(alens, 399, 400, 401, 600)
	}
	for _, pl := range plens {
		for _, al := range alens {
			if !thorough && (pl+al)%3 == 2 && pl > 1 && al > 1 { // quick: thin the grid
				continue
			}
			w.Ev("call", "op", "reset", "group", "lengths", "plen", pl, "alen", al)
			key := data(32)
			ad, pt := data(al), data(pl)
			s, sid := newSession(key, true)
			ct := seal(s, sid, ad, pt)
			r, rid := newSession(key, true)
			got, ok := open(r, rid, ad, ct)
			w.Ev("call", "op", "roundtrip", "ok", ok && bytes.Equal(got, pt), "plen", pl, "alen", al)
			// bit flips: region boundaries always, the rest sampled (thorough: every bit of short messages)
			var bits []int
			total := len(ct) * 8
			for _, b := range []int{0, 7, 8 * pl, 8*pl - 1, 8*pl + 127, 8*pl + 128, 8*pl + 255, total - 1, 8 * 199, 8*200 - 1, 8 * 200, 8*400 - 1, 8 * 400} {
				if b >= 0 && b < total {
					bits = append(bits, b)
				}
			}
			n := 12
			if thorough {
				n = 200
			}
			if thorough && total <= 8*233 {
				bits = nil
				for b := 0; b < total; b++ {
					bits = append(bits, b)
				}
			} else {
				for k := 0; k < n; k++ {
					bits = append(bits, rng.Intn(total))
				}
			}
			for _, b := range bits {
				f, _ := newSession(key, false)
				_, err := f.Open(nil, nil, flip(ct, b), ad)
				where := "ciphertext"
				if b >= 8*pl {
					where = "tag"
				}
				w.Ev("call", "op", "tamper", "where", where, "bit", b, "plen", pl, "alen", al, "ok", err == nil)
			}
			var abits []int
			for _, b := range []int{0, 8*al - 1, 8 * 199, 8*200 - 1, 8 * 200} {
				if b >= 0 && b < 8*al {
					abits = append(abits, b)
				}
			}
			for k := 0; k < n/2 && al > 0; k++ {
				abits = append(abits, rng.Intn(8*al))
			}
			for _, b := range abits {
				f, _ := newSession(key, false)
				_, err := f.Open(nil, nil, ct, flip(ad, b))
				w.Ev("call", "op", "tamper", "where", "ad", "bit", b, "plen", pl, "alen", al, "ok", err == nil)
			}
			// truncation and extension by one byte
			for _, v := range [][]byte{ct[:len(ct)-1], append(append([]byte(nil), ct...), 0)} {
				f, _ := newSession(key, false)
				_, err := f.Open(nil, nil, v, ad)
				w.Ev("call", "op", "tamper", "where", "length", "bit", len(v), "plen", pl, "alen", al, "ok", err == nil)
			}
		}
	}

	// ---- sessions ----
	shapes := [][][2]int{ // (plen, alen) per message; plen -1 marks a forged copy of the previous message
		{{10, 4}, {0, 6}, {25, 0}, {0, 0}, {7, 7}},
		{{0, 0}, {0, 0}, {5, 0}, {0, 3}},
		{{200, 1}, {-1, 0}, {30, 2}, {3, 3}},
		{{12, 12}, {0, 5}, {-1, 0}, {9, 0}},
		{{201, 0}, {199, 200}, {1, 1}},
	}
	nsess := 2
	if thorough {
		nsess = 8
	}
	for round := 0; round < nsess; round++ {
		for _, shape := range shapes {
			w.Ev("call", "op", "reset", "group", "sessions")
			key := data(16 + rng.Intn(17))
			s, sid := newSession(key, true)
			r, rid := newSession(key, true)
			var lastCT, lastAD []byte
			for _, m := range shape {
				if m[0] < 0 {
					// a forged message: the previous ciphertext with one bit changed is offered to the receiver
					if lastCT != nil {
						open(r, rid, lastAD, flip(lastCT, rng.Intn(len(lastCT)*8)))
					}
					continue
				}
				ad, pt := data(m[1]), data(m[0])
				ct := seal(s, sid, ad, pt)
				open(r, rid, ad, ct)
				lastCT, lastAD = ct, ad
			}
		}
	}

	// ---- aliasing ----
	w.Ev("call", "op", "reset", "group", "alias")
	for _, n := range []int{0, 1, 31, 32, 33, 199, 200, 201, 450} {
		for _, hdr := range []int{0, 1, 16, 33} {
			key := data(32)
			pt, ad := data(n), data(hdr)
			twin, _ := newSession(key, false)
			want := twin.Seal(nil, nil, pt, ad)
			// 1. dst = plaintext[:0], room for the tag
			buf := make([]byte, n, n+64)
			copy(buf, pt)
			a, _ := newSession(key, false)
			got := a.Seal(buf[:0], nil, buf, ad)
			w.Ev("call", "op", "alias", "variant", "seal dst=plaintext[:0]", "n", n, "hdr", hdr, "same_output", bytes.Equal(got, want), "rest_intact", true)
			// 2. one packet buffer: header (= associated data) followed by the plaintext, dst = the header
			pkt := make([]byte, hdr+n, hdr+n+64)
			copy(pkt, ad)
			copy(pkt[hdr:], pt)
			a, _ = newSession(key, false)
			got = a.Seal(pkt[:hdr], nil, pkt[hdr:hdr+n], pkt[:hdr])
			w.Ev("call", "op", "alias", "variant", "seal dst=packet header, plaintext follows", "n", n, "hdr", hdr,
				"same_output", len(got) == hdr+len(want) && bytes.Equal(got[hdr:], want), "rest_intact", len(got) >= hdr && bytes.Equal(got[:hdr], ad))
			// 3. open in place: dst = ciphertext[:0]
			ct := append([]byte(nil), want...)
			a, _ = newSession(key, false)
			p, err := a.Open(ct[:0], nil, ct, ad)
			w.Ev("call", "op", "alias", "variant", "open dst=ciphertext[:0]", "n", n, "hdr", hdr, "same_output", err == nil && bytes.Equal(p, pt), "rest_intact", true)
			// 4. open from a packet buffer: header then ciphertext, dst = header
			pkt = make([]byte, hdr+len(want))
			copy(pkt, ad)
			copy(pkt[hdr:], want)
			a, _ = newSession(key, false)
			p, err = a.Open(pkt[:hdr], nil, pkt[hdr:], pkt[:hdr])
			w.Ev("call", "op", "alias", "variant", "open dst=packet header, ciphertext follows", "n", n, "hdr", hdr,
				"same_output", err == nil && len(p) == hdr+n && bytes.Equal(p[hdr:], pt), "rest_intact", err == nil && bytes.Equal(p[:hdr], ad))
			// 5. the caller's plaintext and associated data are not modified by a disjoint Seal
			pt2, ad2 := append([]byte(nil), pt...), append([]byte(nil), ad...)
			a, _ = newSession(key, false)
			a.Seal(nil, nil, pt2, ad2)
			w.Ev("call", "op", "alias", "variant", "seal leaves its inputs alone", "n", n, "hdr", hdr, "same_output", true, "rest_intact", bytes.Equal(pt2, pt) && bytes.Equal(ad2, ad))
		}
	}

	// ---- random round trips ----
	w.Ev("call", "op", "reset", "group", "random")
	nr := 300
	if thorough {
		nr = 3000
	}
	for k := 0; k < nr; k++ {
		key := data(1 + rng.Intn(199))
		pt, ad := data(rng.Intn(700)), data(rng.Intn(450))
		s, _ := newSession(key, false)
		r, _ := newSession(key, false)
		ct := s.Seal(nil, nil, pt, ad)
		got, err := r.Open(nil, nil, ct, ad)
		w.Ev("call", "op", "roundtrip", "ok", err == nil && bytes.Equal(got, pt) && len(ct) == len(pt)+32, "plen", len(pt), "alen", len(ad), "klen", len(key))
	}
	w.Ev("done")
}
