// c04 materialises abstract certificate configurations (emitted by TLC from HopCerts.tla) with real
// keys, real serialisation and real signatures, and runs the real certs.Store.VerifyLeaf on them.
//
//	c04 cfgs   <configs.jsonl> <out.jsonl>     one result line per configuration
//	c04 flips  <out.ndjson>                    every single-bit flip of a verified leaf / intermediate
//	c04 issue  <out.ndjson>                    issuing functions at window boundaries + verification of the result
package main

import (
	"bufio"
	"bytes"
	"crypto/ed25519"
	"crypto/sha256"
	"encoding/json"
	"errors"
	"fmt"
	"os"
	"path/filepath"
	"time"

	"hop.computer/hop/certs"
	"hop.computer/hop/keys"
	"verif/harness/rec"
)

const t0 = int64(1_800_000_000)
const tick = int64(1000)

type cfg struct {
	Ltype  string `json:"Ltype"`
	Lnames string `json:"Lnames"`
	Lwin   [2]int `json:"Lwin"`
	Lpar   string `json:"Lpar"`
	Lsig   string `json:"Lsig"`
	I1type string `json:"I1type"`
	I1win  [2]int `json:"I1win"`
	I1par  string `json:"I1par"`
	I1sig  string `json:"I1sig"`
	I2win  [2]int `json:"I2win"`
	R1type string `json:"R1type"`
	R1win  [2]int `json:"R1win"`
	R2type string `json:"R2type"`
	SR1    bool   `json:"sR1"`
	SR2    bool   `json:"sR2"`
	SI1    bool   `json:"sI1"`
	SI2    bool   `json:"sI2"`
	Pres   string `json:"pres"`
	Name   string `json:"name"`
	Now    int    `json:"now"`
}

type line struct {
	C      cfg    `json:"c"`
	Valid  bool   `json:"valid"`
	Reason string `json:"reason"`
}

func seedFor(name string) []byte {
	h := sha256.Sum256([]byte("verif-c04-key-" + name))
	return h[:]
}

func signKey(name string) ed25519.PrivateKey { return ed25519.NewKeyFromSeed(seedFor(name)) }
func pubOf(name string) (out keys.DHPublicKey) {
	copy(out[:], signKey(name).Public().(ed25519.PublicKey))
	return
}

func typeByte(t string, variant int) certs.CertificateType {
	switch t {
	case "leaf":
		return certs.Leaf
	case "inter":
		return certs.Intermediate
	case "root":
		return certs.Root
	}
	return []certs.CertificateType{0, 4, 255}[variant%3]
}

var forgeCache = map[string]*certs.Certificate{}

// forge builds a certificate with arbitrary fields through the real serialiser, signs the
// to-be-signed bytes with the named key and parses the result with the real parser.
func forge(typ certs.CertificateType, win [2]int, names []certs.Name, pub keys.DHPublicKey, parent certs.SHA3Fingerprint, signer string) *certs.Certificate {
	key := fmt.Sprint(typ, win, names, pub, parent, signer)
	if c, ok := forgeCache[key]; ok {
		return c
	}
	c := &certs.Certificate{
		Version:   certs.Version,
		Type:      typ,
		IssuedAt:  time.Unix(t0+int64(win[0])*tick, 0),
		ExpiresAt: time.Unix(t0+int64(win[1])*tick, 0),
		IDChunk:   certs.IDChunk{Blocks: names},
		PublicKey: pub,
		Parent:    parent,
	}
	b, err := c.Marshal()
	if err != nil {
		panic(err)
	}
	sig := ed25519.Sign(signKey(signer), b[:len(b)-64])
	copy(b[len(b)-64:], sig)
	out := new(certs.Certificate)
	if _, err := out.ReadFrom(bytes.NewReader(b)); err != nil {
		panic(err)
	}
	forgeCache[key] = out
	return out
}

// The model's two labels "a" and "b" are DIFFERENT names.  They are made concrete in several flavours of
// "different": plainly different, differing in letter case only, a Unicode look-alike (Kelvin sign), byte strings
// that are not UTF-8 and differ in one byte, and b = the empty label.
var flavours = [][2]string{{"a", "b"}, {"Admin.example", "admin.example"}, {"k.example", "\u212a.example"}, {"\xff\x0a\x00\x41", "\xfe\x0a\x00\x41"}, {"a", ""}}

var flavour int

func lab(which string) string {
	if which == "a" {
		return flavours[flavour][0]
	}
	return flavours[flavour][1]
}

func rawName(l string) certs.Name { return certs.Name{Type: certs.TypeRaw, Label: []byte(l)} }
func dnsName(l string) certs.Name { return certs.Name{Type: certs.TypeDNSName, Label: []byte(l)} }

func nameSet(s string) []certs.Name {
	switch s {
	case "A":
		return []certs.Name{dnsName(lab("a"))}
	case "AB":
		return []certs.Name{dnsName(lab("b")), rawName(lab("a"))}
	}
	return nil
}

func reqName(s string) certs.Name {
	switch s {
	case "dns:a":
		return dnsName(lab("a"))
	case "dns:b":
		return dnsName(lab("b"))
	case "raw:a":
		return rawName(lab("a"))
	case "raw:b":
		return rawName(lab("b"))
	}
	return certs.Name{}
}

type world struct {
	slot  map[string]*certs.Certificate
	store certs.Store
	opts  certs.VerifyOptions
}

var viaPEM bool
var pemStores int

func build(c cfg, variant int) *world {
	w := &world{slot: map[string]*certs.Certificate{}}
	var inStore []*certs.Certificate
	var zero certs.SHA3Fingerprint
	fp := func(s string) certs.SHA3Fingerprint {
		if s == "zero" {
			if variant%2 == 1 { // a fingerprint that names nothing: all-zero or an unused hash
				return sha256.Sum256([]byte("nothing"))
			}
			return zero
		}
		return w.slot[s].Fingerprint
	}
	w.slot["R1"] = forge(typeByte(c.R1type, variant), c.R1win, nil, pubOf("R1"), zero, "R1")
	w.slot["R2"] = forge(typeByte(c.R2type, variant), [2]int{0, 6}, nil, pubOf("R2"), zero, "R2")
	w.slot["I1"] = forge(typeByte(c.I1type, variant), c.I1win, nil, pubOf("I1"), fp(c.I1par), c.I1sig)
	w.slot["I2"] = forge(certs.Intermediate, c.I2win, nil, pubOf("I2"), fp("R2"), "R2")
	w.slot["L"] = forge(typeByte(c.Ltype, variant), c.Lwin, nameSet(c.Lnames), pubOf("Lkey"), fp(c.Lpar), c.Lsig)
	for _, s := range []struct {
		in bool
		n  string
	}{{c.SR1, "R1"}, {c.SR2, "R2"}, {c.SI1, "I1"}, {c.SI2, "I2"}} {
		if s.in {
			w.store.AddCertificate(w.slot[s.n])
			inStore = append(inStore, w.slot[s.n])
		}
	}
	if viaPEM && len(inStore) > 0 {
		// the other way a trust store is built: a PEM bundle on disk, intermediates first, loaded by the repository
		var bundle []byte
		for k := len(inStore) - 1; k >= 0; k-- {
			b, err := certs.EncodeCertificateToPEM(inStore[k])
			if err != nil {
				bundle = nil
				break
			}
			bundle = append(bundle, b...)
			bundle = append(bundle, '\n')
		}
		if bundle != nil {
			path := filepath.Join(os.TempDir(), fmt.Sprintf("vf-c04-bundle-%d.pem", os.Getpid()))
			if os.WriteFile(path, bundle, 0600) == nil {
				if st, err := certs.LoadRootStoreFromPEMFile(path); err == nil {
					w.store = *st
					pemStores++
				}
				os.Remove(path)
			}
		}
	}
	if c.Pres != "none" {
		w.opts.PresentedIntermediate = w.slot[c.Pres]
	}
	w.opts.Name = reqName(c.Name)
	jitter := []time.Duration{0, 999*time.Second + 999999999, 500 * time.Second}[variant%3]
	w.opts.CurrentTime = time.Unix(t0+int64(c.Now)*tick, 0).Add(jitter)
	return w
}

func reason(err error) string {
	if err == nil {
		return "ok"
	}
	var ve certs.VerifyError
	if errors.As(err, &ve) {
		switch ve.Reason() {
		case certs.ReasonUnknownIntermediate:
			return "unknown-intermediate"
		case certs.ReasonUnknownRoot:
			return "unknown-root"
		case certs.ReasonMismatchedName:
			return "name"
		case certs.ReasonUnverifiedParent:
			return "unverified-parent"
		case certs.ReasonUnexpectedType, certs.ReasonInvalidCertificate:
			return "type"
		case certs.ReasonTimeInvalid:
			return "time"
		}
	}
	return "other"
}

func verify(w *world) (res string) {
	defer func() {
		if r := recover(); r != nil {
			res = "panic"
		}
	}()
	return reason(w.store.VerifyLeaf(w.slot["L"], w.opts))
}

func doCfgs(in, out string) {
	f, err := os.Open(in)
	if err != nil {
		panic(err)
	}
	defer f.Close()
	w := rec.Must(out)
	defer w.Close()
	sc := bufio.NewScanner(f)
	sc.Buffer(make([]byte, 1<<20), 1<<20)
	i := 0
	for sc.Scan() {
		var l line
		if err := json.Unmarshal(sc.Bytes(), &l); err != nil {
			panic(err)
		}
		got := make([]string, 3)
		for v := 0; v < 3; v++ {
			flavour = (i + v) % len(flavours)
			viaPEM = (i+v)%2 == 1
			got[v] = verify(build(l.C, v))
		}
		flavour, viaPEM = 0, false
		w.Ev("cfg", "i", i, "got", got)
		i++
	}
}

// ---- single-bit flips ---------------------------------------------------------------------

func base() cfg {
	return cfg{Ltype: "leaf", Lnames: "A", Lwin: [2]int{1, 4}, Lpar: "I1", Lsig: "I1", I1type: "inter", I1win: [2]int{1, 4},
		I1par: "R1", I1sig: "R1", I2win: [2]int{1, 4}, R1type: "root", R1win: [2]int{1, 4}, R2type: "root", SR1: true, SI1: true,
		Pres: "none", Name: "dns:a", Now: 2}
}

func raw(c *certs.Certificate) []byte {
	b, err := c.Marshal()
	if err != nil {
		panic(err)
	}
	return b
}

func doFlips(out string) {
	w := rec.Must(out)
	defer w.Close()
	wd := build(base(), 0)
	if r := verify(wd); r != "ok" {
		w.Ev("flipbase", "got", r)
		return
	}
	w.Ev("flipbase", "got", "ok")
	leaf := raw(wd.slot["L"])
	inter := raw(wd.slot["I1"])
	for bit := 0; bit < len(leaf)*8; bit++ {
		b := append([]byte(nil), leaf...)
		b[bit/8] ^= 1 << (bit % 8)
		c := new(certs.Certificate)
		res := "parse-error"
		if _, err := c.ReadFrom(bytes.NewReader(b)); err == nil {
			res = reason(wd.store.VerifyLeaf(c, wd.opts))
		}
		w.Ev("flip", "which", "leaf", "bit", bit, "len", len(leaf), "got", res)
	}
	for bit := 0; bit < len(inter)*8; bit++ {
		b := append([]byte(nil), inter...)
		b[bit/8] ^= 1 << (bit % 8)
		c := new(certs.Certificate)
		resP, resS := "parse-error", "parse-error"
		if _, err := c.ReadFrom(bytes.NewReader(b)); err == nil {
			// (a) flipped intermediate presented, store has only the root
			var st certs.Store
			st.AddCertificate(wd.slot["R1"])
			o := wd.opts
			o.PresentedIntermediate = c
			resP = reason(st.VerifyLeaf(wd.slot["L"], o))
			// (b) flipped intermediate in the store
			var st2 certs.Store
			st2.AddCertificate(wd.slot["R1"])
			st2.AddCertificate(c)
			resS = reason(st2.VerifyLeaf(wd.slot["L"], wd.opts))
		}
		w.Ev("flip", "which", "inter-presented", "bit", bit, "len", len(inter), "got", resP)
		w.Ev("flip", "which", "inter-stored", "bit", bit, "len", len(inter), "got", resS)
	}
}

// ---- issuance -----------------------------------------------------------------------------

func doIssue(out string) {
	w := rec.Must(out)
	defer w.Close()
	rootKey := keys.GenerateNewSigningKeyPair()
	root, err := certs.SelfSignRoot(certs.SigningIdentity(rootKey), rootKey)
	if err != nil {
		panic(err)
	}
	if err := root.ProvideKey((*[32]byte)(&rootKey.Private)); err != nil {
		panic(err)
	}
	interKey := keys.GenerateNewSigningKeyPair()
	inter, err := certs.IssueIntermediate(root, certs.SigningIdentity(interKey))
	if err != nil {
		panic(err)
	}
	if err := inter.ProvideKey((*[32]byte)(&interKey.Private)); err != nil {
		panic(err)
	}
	var st certs.Store
	st.AddCertificate(root)
	st.AddCertificate(inter)
	leafKey := keys.GenerateNewX25519KeyPair()
	// All instants are whole seconds relative to the parent's exact IssuedAt (which carries nanoseconds).
	p0 := inter.IssuedAt
	rel := func(t time.Time) int64 { return int64(t.Sub(p0) / time.Second) }
	abs := func(r int64) time.Time { return p0.Add(time.Duration(r) * time.Second) }
	plen := rel(inter.ExpiresAt)
	ats := []int64{-1, 0, 1, plen / 2, plen - 1, plen, plen + 1}
	durs := []int64{-1, 0, 1, 3600, plen, 2 * plen}
	// round trip through serialisation too: what a peer would receive
	for _, at := range ats {
		for _, dur := range durs {
			leaf, err := certs.IssueLeafAt(inter, certs.LeafIdentity(leafKey, certs.DNSName("h")), abs(at), time.Duration(dur)*time.Second)
			if err != nil {
				w.Ev("issue", "pw", []int64{0, plen}, "at", at, "dur", dur, "err", "yes", "w", []int64{})
				continue
			}
			w1, w2 := rel(leaf.IssuedAt), rel(leaf.ExpiresAt)
			w.Ev("issue", "pw", []int64{0, plen}, "at", at, "dur", dur, "err", "no", "w", []int64{w1, w2})
			parsed := new(certs.Certificate)
			if _, err := parsed.ReadFrom(bytes.NewReader(raw(leaf))); err != nil {
				w.Ev("vissued", "w", []int64{w1, w2}, "t", w1, "form", "reparse", "ok", "parse-error")
				continue
			}
			for _, t := range []int64{w1 - 1, w1, (w1 + w2) / 2, w2 - 1, w2, w2 + 1} {
				for form, lc := range map[string]*certs.Certificate{"issued": leaf, "reparsed": parsed} {
					err := st.VerifyLeaf(lc, certs.VerifyOptions{Name: certs.DNSName("h"), CurrentTime: abs(t)})
					ok := "yes"
					if err != nil {
						ok = "no"
					}
					w.Ev("vissued", "w", []int64{w1, w2}, "t", t, "form", form, "ok", ok)
				}
			}
		}
	}
	// Names: whatever identity the issuing functions accept, the certificate a peer RECEIVES (serialised, parsed
	// again) verifies for exactly the names the issuer was asked to certify - labels at and beyond the size a
	// block can carry, several names, labels whose content looks like further blocks.
	fill := func(n int, c byte) []byte { return bytes.Repeat([]byte{c}, n) }
	blocks := func(k int) []byte { // k bytes, then 256 bytes laid out as two well-formed blocks
		b := fill(k, 'A')
		b = append(b, 17, byte(certs.TypeDNSName), 14)
		b = append(b, "victim.example"...)
		b = append(b, 239, byte(certs.TypeRaw), 236)
		return append(b, fill(236, 'z')...)
	}
	var sets [][]certs.Name
	for _, n := range []int{0, 1, 100, 251, 252, 253, 254, 255, 256, 257, 300, 509, 510, 600} {
		sets = append(sets, []certs.Name{{Type: certs.TypeDNSName, Label: fill(n, 'h')}}, []certs.Name{{Type: certs.TypeRaw, Label: fill(n, 'r')}},
			[]certs.Name{certs.DNSName("first.example"), {Type: certs.TypeRaw, Label: fill(n, 'q')}})
	}
	for _, k := range []int{0, 1, 5, 40} {
		sets = append(sets, []certs.Name{{Type: certs.TypeRaw, Label: blocks(k)}}, []certs.Name{certs.DNSName("first.example"), {Type: certs.TypeRaw, Label: blocks(k)}})
	}
	sets = append(sets, []certs.Name{certs.DNSName("a.example"), certs.DNSName("b.example"), certs.RawStringName("c")},
		[]certs.Name{{Type: certs.TypeRaw, Label: fill(252, 'x')}, {Type: certs.TypeDNSName, Label: fill(251, 'y')}},
		[]certs.Name{{Type: certs.TypeRaw, Label: fill(252, 'x')}, {Type: certs.TypeDNSName, Label: fill(252, 'y')}})
	probes := []certs.Name{certs.DNSName("victim.example"), certs.RawStringName("victim.example"), certs.DNSName("first.example"), certs.DNSName("a.example"),
		certs.RawStringName("c"), {Type: certs.TypeRaw, Label: fill(236, 'z')}, {Type: certs.TypeRaw, Label: fill(5, 'A')}, certs.DNSName("")}
	for si, names := range sets {
		lens := []int{}
		for _, n := range names {
			lens = append(lens, len(n.Label))
		}
		id := certs.LeafIdentity(leafKey, names...)
		leaf, err := certs.IssueLeaf(inter, id)
		if err != nil {
			w.Ev("vname", "set", si, "lens", lens, "issued", "no", "reparse", "na", "certified", "na", "ok", "na", "probe", "")
			continue
		}
		parsed := new(certs.Certificate)
		b, merr := leaf.Marshal()
		if merr == nil {
			_, merr = parsed.ReadFrom(bytes.NewReader(b))
		}
		if merr != nil {
			w.Ev("vname", "set", si, "lens", lens, "issued", "yes", "reparse", "error", "certified", "na", "ok", "na", "probe", merr.Error())
			continue
		}
		for _, pn := range append(append([]certs.Name{}, names...), probes...) {
			certified := "no"
			for _, n := range names {
				if n.Type == pn.Type && bytes.Equal(n.Label, pn.Label) {
					certified = "yes"
				}
			}
			ok := "yes"
			if err := st.VerifyLeaf(parsed, certs.VerifyOptions{Name: pn, CurrentTime: leaf.IssuedAt.Add(time.Minute)}); err != nil {
				ok = "no"
			}
			show := string(pn.Label)
			if len(show) > 24 {
				show = fmt.Sprintf("%q... (%d bytes)", show[:24], len(show))
			}
			w.Ev("vname", "set", si, "lens", lens, "issued", "yes", "reparse", "ok", "certified", certified, "ok", ok, "probe", fmt.Sprintf("%d:%s", pn.Type, show))
		}
	}
}

func main() {
	switch os.Args[1] {
	case "cfgs":
		doCfgs(os.Args[2], os.Args[3])
	case "flips":
		doFlips(os.Args[2])
	case "issue":
		doIssue(os.Args[2])
	}
}
