#!/usr/bin/env python3
"""tools/sweep.py [--suite] [--checks own|ID,ID,...] [--only NAME,...] [--jobs N]
Re-validates the seeded changes under /verif/seeded against the CURRENT /repo HEAD without touching /repo:
every change is applied to a scratch worktree (outside /repo and /verif, removed afterwards), optionally the
repository's suite is run there in a private network namespace, and the checks run with VERIF_REPO pointing at
the worktree and evidence / replays redirected to scratch.  Writes /verif/seeded/SWEEP.json."""
import json, os, subprocess, sys, glob, shutil, tempfile, concurrent.futures, time
V = os.path.dirname(os.path.dirname(os.path.abspath(__file__)))
args = sys.argv[1:]
suite = "--suite" in args
def opt(name, default):
    return args[args.index(name) + 1] if name in args else default
checks_opt = opt("--checks", "own"); only = opt("--only", ""); jobs = int(opt("--jobs", "2"))
names = sorted(os.path.basename(os.path.dirname(p)) for p in glob.glob(os.path.join(V, "seeded", "*", "patch.diff")))
if only:
    names = [n for n in names if n in only.split(",")]
env = dict(os.environ, GOFLAGS="-mod=mod", GOPROXY="off")
def one(name):
    wt = tempfile.mkdtemp(prefix="vf-sweep-", dir="/tmp")
    os.rmdir(wt)
    res = dict(name=name)
    try:
        subprocess.run(["git", "-C", "/repo", "worktree", "add", "-q", "--detach", wt, "HEAD"], check=True, capture_output=True)
        patch = os.path.join(V, "seeded", name, "patch.diff")
        p = subprocess.run(["git", "apply", patch], cwd=wt, capture_output=True, text=True)
        if p.returncode != 0:
            p = subprocess.run("patch -p1 -F3 --no-backup-if-mismatch < %s" % patch, shell=True, cwd=wt, capture_output=True, text=True)
            res["applied"] = "with fuzz" if p.returncode == 0 else "NO"
        else:
            res["applied"] = "clean"
        if res["applied"] == "NO":
            return res
        b = subprocess.run(["go", "build", "./..."], cwd=wt, env=env, capture_output=True, text=True)
        res["build"] = b.returncode == 0
        if not res["build"]:
            return res
        if suite:
            s = subprocess.run(["unshare", "-n", "sh", "-c", "ip link set lo up && go test -vet=off -count=1 -timeout 25m ./... 2>&1"], cwd=wt, env=env, capture_output=True, text=True)
            fails = [l for l in s.stdout.split("\n") if l.startswith("FAIL") or l.startswith("--- FAIL")]
            res["suite"] = "pass" if s.returncode == 0 else "FAIL: " + "; ".join(fails[:4])
        ids = [name.split("-")[0]] if checks_opt == "own" else checks_opt.split(",")
        try:
            extra = json.load(open(os.path.join(V, "seeded", name, "meta.json"))).get("also_checks", [])
            ids += [c for c in extra if c not in ids and checks_opt == "own"]
        except Exception:
            pass
        sd = tempfile.mkdtemp(prefix="vf-sweep-ev-", dir="/tmp")
        res["checks"] = {}
        for cid in ids:
            t0 = time.time()
            c = subprocess.run([os.path.join(V, "tools", "check"), cid], cwd=V, capture_output=True, text=True,
                               env=dict(env, VERIF_REPO=wt, VERIF_EVIDENCE=sd, VERIF_REPLAYS=os.path.join(sd, "replays")))
            sigs = [l.strip()[11:200] for l in c.stdout.split("\n") if l.strip().startswith("signature:")]
            res["checks"][cid] = dict(exit=c.returncode, violations=c.stdout.count("\nVIOLATION ") + c.stdout.startswith("VIOLATION "), first=sigs[:2], wall=round(time.time() - t0))
        shutil.rmtree(sd, ignore_errors=True)
    finally:
        subprocess.run(["git", "-C", "/repo", "worktree", "remove", "--force", wt], capture_output=True)
        shutil.rmtree(wt, ignore_errors=True)
    return res
out = []
with concurrent.futures.ThreadPoolExecutor(max_workers=jobs) as ex:
    for r in ex.map(one, names):
        out.append(r)
        print(json.dumps(r), flush=True)
        json.dump(out, open(os.path.join(V, "seeded", "SWEEP.json" if checks_opt == "own" and not only else "SWEEP-partial.json"), "w"), indent=1)
