SPECIFICATION Spec
CONSTANTS MaxOpens = 2
          Acts = {"idle", "junk", "close"}
          SecondByType = FALSE
INVARIANTS NoCrash Emit
CHECK_DEADLOCK FALSE
