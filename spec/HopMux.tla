-------------------------------- MODULE HopMux --------------------------------
(* Tube multiplexing (tubes/muxer.go: pickTubeID, Create*Tube, receiver loop, Accept,         *)
(* reapTube).  Every tube INSTANCE gets a ghost generation number; a frame carries the ghost  *)
(* generation of the instance that wrote it, which the real frame does not - the point of the *)
(* model is to see which instance a frame is delivered to.                                    *)
(*   Create   first free id of the end's parity, under the muxer lock; sends REQ               *)
(*   RecvReq  no tube with that id: make the responder instance, offer it to Accept, send RESP; *)
(*            a tube exists: answer RESP again (retransmitted REQ)                             *)
(*   Data     an instance writes; RecvData delivers to whatever instance holds the id          *)
(*   Close / Reap  both ends close; the table entry is removed (the opener waits 4 RTT first) *)
(* The network may hold a frame for any time when Stale = TRUE (a frame of a closed instance   *)
(* arriving after its id was reused); with Stale = FALSE frames of an instance are gone when   *)
(* it is reaped - the assumption under which the reap delay is sufficient.                     *)
EXTENDS Integers, Sequences, FiniteSets, TLC

CONSTANTS MaxGen, Stale
Ends == {"A", "B"}
Peer(e) == IF e = "A" THEN "B" ELSE "A"
Ids(e) == IF e = "A" THEN {1, 3} ELSE {0, 2}

VARIABLES tubes,     \* [Ends -> set of [id, gen, opener, open]]  table entries (open: not yet closed)
          gens, offered, net, misdelivered
vars == <<tubes, gens, offered, net, misdelivered>>
Init == tubes = [e \in Ends |-> {}] /\ gens = 0 /\ offered = <<>> /\ net = {} /\ misdelivered = FALSE

Has(e, id) == \E t \in tubes[e] : t.id = id
Create(e) ==
    /\ gens < MaxGen /\ \E id \in Ids(e) : ~Has(e, id)
    /\ LET id == CHOOSE i \in Ids(e) : ~Has(e, i) /\ \A j \in Ids(e) : ~Has(e, j) => i <= j
       IN /\ tubes' = [tubes EXCEPT ![e] = @ \cup {[id |-> id, gen |-> gens + 1, opener |-> e, open |-> TRUE]}]
          /\ net' = net \cup {[to |-> Peer(e), kind |-> "req", id |-> id, gen |-> gens + 1]}
    /\ gens' = gens + 1 /\ UNCHANGED <<offered, misdelivered>>
RecvReq(f) ==
    /\ f \in net /\ f.kind = "req"
    /\ IF Has(f.to, f.id)
       THEN UNCHANGED <<tubes, offered>>
       ELSE /\ tubes' = [tubes EXCEPT ![f.to] = @ \cup {[id |-> f.id, gen |-> f.gen, opener |-> Peer(f.to), open |-> TRUE]}]
            /\ offered' = Append(offered, f.gen)
    /\ net' = IF Stale THEN net ELSE net \ {f}                 \* a retransmitted / delayed copy may still be around
    /\ UNCHANGED <<gens, misdelivered>>
Data(e, t) ==
    /\ t \in tubes[e] /\ t.open
    /\ net' = net \cup {[to |-> Peer(e), kind |-> "data", id |-> t.id, gen |-> t.gen]}
    /\ UNCHANGED <<tubes, gens, offered, misdelivered>>
RecvData(f) ==
    /\ f \in net /\ f.kind = "data"
    /\ net' = net \ {f}
    /\ misdelivered' = (misdelivered \/ \E t \in tubes[f.to] : t.id = f.id /\ t.open /\ t.gen # f.gen)
    /\ UNCHANGED <<tubes, gens, offered>>
Close(g) ==        \* both ends close instance g (an established tube: both ends know it; the FIN exchange is in HopTubes.tla)
    /\ \A e \in Ends : \E t \in tubes[e] : t.gen = g /\ t.open
    /\ tubes' = [e \in Ends |-> {IF t.gen = g THEN [t EXCEPT !.open = FALSE] ELSE t : t \in tubes[e]}]
    /\ UNCHANGED <<gens, offered, net, misdelivered>>
Reap(e, t) ==
    /\ t \in tubes[e] /\ ~t.open
    /\ tubes' = [tubes EXCEPT ![e] = @ \ {t}]
    /\ net' = IF Stale THEN net ELSE {f \in net : f.gen # t.gen}
    /\ UNCHANGED <<gens, offered, misdelivered>>
Next == \/ \E e \in Ends : Create(e)
        \/ \E f \in net : RecvReq(f) \/ RecvData(f)
        \/ \E e \in Ends : \E t \in tubes[e] : Data(e, t) \/ Reap(e, t)
        \/ \E g \in 1..MaxGen : Close(g)
Spec == Init /\ [][Next]_vars

DistinctIds == \A e \in Ends : \A s, t \in tubes[e] : (s.id = t.id) => s = t
OfferedOnce == \A i, j \in 1..Len(offered) : i # j => offered[i] # offered[j]
Isolation == ~misdelivered
=============================================================================
