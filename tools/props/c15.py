# C15 — a session's peer address moves only on authentic, fresh packets (DESIGN.md §3 C15)
import lib
from props import tr_common as T

def run(v, tier, replay):
    thorough = tier == "thorough"
    v.assumptions += ["one session, addresses {client home, client roamed, server, third party}; packets <= 3/6, steps <= 5/14",
                      "mutations: one region per delivery (type, reserved, session id, counter, body, tag, truncation), forged packets with the session's public header",
                      "the peer address is read from the session state (verif build) and, for writes, from the destination seen on the wire"]
    T.design(v, thorough)
    behs = T.behaviours(v, 6000 if thorough else 1200)
    res, err = T.replay(behs)
    if res is None:
        raise lib.Inconclusive("trreplay failed: " + err)
    nun = T.judge(v, "C15", behs, res)
    if nun and not v.viol:
        raise lib.Inconclusive("%d behaviours differ between model and code in ways no property clause explains" % nun)
