---------------------------- MODULE Trace_HopConn ----------------------------
(* Trace validation for the connection part of C17: calls recorded from concurrent scenarios on   *)
(* real transport clients, servers and handles (c17conn).  Every event is judged on its own:       *)
(*   every call returns (ret = yes) within the driver's bound                                      *)
(*   close       reports the result of closing the socket (want) to every caller; closeset /       *)
(*               close-again: all callers, also later ones, got the same                           *)
(*   postread    after Close, reads hand out exactly what was queued before and then end-of-stream  *)
(*   postaccept  after Close, Accept hands out what was queued and then end-of-stream               *)
(*   postwrite / posthandshake after Close fail; blocked calls are released with the expected       *)
(*               kind of error (want: end-of-stream by close, timeout by deadline)                  *)
(*   read-after-close  end-of-stream is final: a locally closed handle / client keeps reporting it  *)
(*               although the peer goes on sending                                                  *)
(*   leak        no goroutine of the transport package is left after everything was closed          *)
(* The design-level counterpart is HopConn.tla (SameResult, NothingLeft, Termination).              *)
EXTENDS Integers, Sequences, TLC, Json
Trace == ndJsonDeserialize("trace.ndjson")
VARIABLES l, bad
Ev == Trace[l]
Wanted(e) == \/ e.res = e.want
             \/ e.want = "timeout|eof" /\ e.res \in {"timeout", "eof"}
             \/ e.want = "ok|eof" /\ e.res \in {"ok", "eof"}
Good(e) ==
    CASE e.ev = "call" ->
           /\ e.ret = "yes"
           /\ CASE e.op = "close" -> e.res = e.want
                [] e.op \in {"closeset", "close-again"} -> e.same = "yes"
                [] e.op \in {"postread", "postaccept"} -> e.res = "eof" /\ e.got = e.queued
                [] e.op \in {"postwrite", "posthandshake"} -> e.res # "ok"
                \* a silent peer, no Close: every call ends by itself (ret = yes above) with an error
                [] e.op \in {"silent-handshake", "silent-write", "silent-read"} -> e.res # "ok"
                [] e.op = "isclosed" -> e.res = "yes"
                [] e.op = "accept-blocked" -> e.res = "eof"
                [] e.op = "serve-returns" -> e.res = "ok"
                [] e.op = "serve-again" -> e.res # "ok"
                [] e.op \in {"read-blocked", "writes", "read-after-deadline-reset", "read-after-close"} -> IF "want" \in DOMAIN e THEN Wanted(e) ELSE e.res = "eof"
                [] e.op = "hclose" -> e.res = "ok"
                [] e.op = "setup" -> FALSE
                [] OTHER -> TRUE
      [] e.ev = "leak"  -> e.goroutines = 0
      [] e.ev = "crash" -> FALSE
      [] e.ev = "stuck" -> FALSE
      [] OTHER -> TRUE
TInit == l = 1 /\ bad = 0
TNext == /\ l <= Len(Trace) /\ l' = l + 1
         /\ IF Good(Ev) THEN bad' = bad ELSE bad' = bad + 1 /\ PrintT(<<"MISMATCH", l>>)
TSpec == TInit /\ [][TNext]_<<l, bad>>
HW == TLCSet(1, l)
Accepted == TLCGet(1) = Len(Trace) + 1
=============================================================================
