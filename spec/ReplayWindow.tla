--------------------------- MODULE ReplayWindow ---------------------------
(* Receive-side replay filter of the Hop transport (transport/replay.go).                    *)
(*                                                                                           *)
(* Two descriptions of the same object, side by side:                                       *)
(*   - the SET specification, which is the property text of C14: a counter is accepted iff   *)
(*     it was not accepted before and is not more than W below the highest accepted one;     *)
(*   - the RING implementation model: NumBlocks blocks of BlockSize bits and the counter wt, *)
(*     with Check and Mark transcribed statement by statement from the Go code.              *)
(* The invariant Equiv says that both give the same verdict for every counter in every       *)
(* reachable state, Refines is the refinement mapping.                                       *)
EXTENDS Integers, FiniteSets, TLC

CONSTANTS NumBlocks,   \* ring size in blocks   (code: 8)
          BlockSize,   \* bits per block        (code: 64)
          MaxSeq,      \* counters explored: 0..MaxSeq
          ClearCap     \* cap of the clearing loop (code: NumBlocks); a constant so that
                       \* the sensitivity of Equiv can be demonstrated (ClearCap = NumBlocks-1 breaks it)

W    == (NumBlocks - 1) * BlockSize
None == -1
Min(a, b) == IF a < b THEN a ELSE b

VARIABLES accepted,  \* SET spec: counters accepted so far, pruned to the window
          top,       \* SET spec: highest accepted counter, None before the first
          blocks,    \* RING: [0..NumBlocks-1 -> SUBSET 0..BlockSize-1]
          wt         \* RING: highest marked counter (0 initially, as in the code)
vars == <<accepted, top, blocks, wt>>

-----------------------------------------------------------------------------
(* SET specification *)
SpecCheck(s) == s \notin accepted /\ (top = None \/ s + W >= top)

SpecMarkTop(s) == IF top = None \/ s > top THEN s ELSE top
SpecMarkAcc(s) == LET t == SpecMarkTop(s)
                  IN  {a \in accepted \cup {s} : a + W >= t}
  \* Pruning to the window is sound: everything below it is rejected by the second conjunct
  \* of SpecCheck whether or not it is remembered.

-----------------------------------------------------------------------------
(* RING implementation model: transport/replay.go *)
ImplCheck(s) ==
    IF s > wt THEN TRUE                      \* "Larger is always OK"
    ELSE IF s + W < wt THEN FALSE            \* "Below the bottom of the window is always bad"
    ELSE (s % BlockSize) \notin blocks[(s \div BlockSize) % NumBlocks]

ImplMarkBlocks(s) ==
    IF s + W < wt THEN blocks
    ELSE LET ub   == s \div BlockSize
             uc   == wt \div BlockSize
             diff == IF s > wt THEN Min(ub - uc, ClearCap) ELSE 0
             cleared == {(i + uc + 1) % NumBlocks : i \in 0..(diff - 1)}
             b1   == [i \in 0..(NumBlocks - 1) |-> IF i \in cleared THEN {} ELSE blocks[i]]
         IN  [b1 EXCEPT ![ub % NumBlocks] = @ \cup {s % BlockSize}]
ImplMarkWt(s) == IF s + W < wt THEN wt ELSE IF s > wt THEN s ELSE wt

-----------------------------------------------------------------------------
Init == /\ accepted = {} /\ top = None
        /\ blocks = [i \in 0..(NumBlocks - 1) |-> {}] /\ wt = 0

(* The transport calls Check, then authenticates, then Mark: one packet = Recv.              *)
Recv(s) == /\ SpecCheck(s)
           /\ accepted' = SpecMarkAcc(s) /\ top' = SpecMarkTop(s)
           /\ blocks' = ImplMarkBlocks(s) /\ wt' = ImplMarkWt(s)

(* A packet that passes Check but fails authentication leaves the filter untouched; a packet *)
(* rejected by Check is not marked: both are stuttering steps.  Mark on its own (API misuse  *)
(* that the type allows) is also explored: marking any counter, fresh or not.                *)
MarkOnly(s) == /\ accepted' = (IF top # None /\ s + W < top THEN accepted ELSE SpecMarkAcc(s))
               /\ top' = (IF top # None /\ s + W < top THEN top ELSE SpecMarkTop(s))
               /\ blocks' = ImplMarkBlocks(s) /\ wt' = ImplMarkWt(s)

Next == \E s \in 0..MaxSeq : Recv(s) \/ MarkOnly(s)
Spec == Init /\ [][Next]_vars

-----------------------------------------------------------------------------
(* Properties *)
TypeOK == /\ accepted \subseteq 0..MaxSeq /\ top \in {None} \cup 0..MaxSeq
          /\ wt \in 0..MaxSeq
          /\ \A i \in 0..(NumBlocks-1) : blocks[i] \subseteq 0..(BlockSize-1)

Equiv == \A s \in 0..MaxSeq : ImplCheck(s) = SpecCheck(s)          \* C14, both directions

Refines == /\ (top = None => wt = 0 /\ \A i \in 0..(NumBlocks-1) : blocks[i] = {})
           /\ (top # None => wt = top)
           /\ \A s \in 0..MaxSeq : (s + W >= wt /\ s <= wt) =>
                 ((s \in accepted) <=> ((s % BlockSize) \in blocks[(s \div BlockSize) % NumBlocks]))

NoDuplicate == [][\A s \in 0..MaxSeq : s \in accepted => ~ENABLED Recv(s)]_vars
=============================================================================
