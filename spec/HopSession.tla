------------------------------ MODULE HopSession ------------------------------
(* The accept loop of a server session (hopserver/session.go start) after the peer was authorized, as a state    *)
(* machine over the tubes the peer opens.  One action per iteration of the loop:                                  *)
(*   loop   --Open(exec, rel)-->  await2      the loop itself waits for the tube that follows                     *)
(*   await2 --Open(any,  rel)-->  loop        both tubes are handed to the execution handler (the second tube's   *)
(*                                            TYPE is not looked at by the code as found)                         *)
(*   await2 --Open(any, unrel)--> closed      the session shuts its muxer down                                    *)
(*   loop   --Open(t, r)-->       loop        dispatch by (type, reliability) to a handler goroutine, or the tube *)
(*                                            is closed at once when no handler exists for it                     *)
(* Before the loop the session authorizes the peer (checkAuthorization): the FIRST tube must be a reliable         *)
(* user-authorization tube carrying a user name the server admits the peer's key for; anything else ends the     *)
(* session's life before it began (phase rejected: the loop never runs).  A behaviour starts either in `auth`    *)
(* (the peer is hostile from its first tube) or in `loop` (it authorized properly first).                        *)
(* Handlers run beside the loop and never block it.  `crashed` is the state a failed type assertion would lead to *)
(* (SecondByType = TRUE models a loop that identifies the second execution tube by its type byte only).           *)
(* TLC checks NoCrash and emits every behaviour with the phase reached; the driver opens the same tubes against   *)
(* a real session on a real HopServer and compares: process alive, server still admits connections (C11), and     *)
(* whether the loop is still accepting tubes afterwards (conformance of the model).                               *)
EXTENDS Integers, Sequences, TLC, Json
CONSTANTS MaxOpens, Acts, SecondByType
Types == {1, 2, 3, 4, 5, 6, 7, 200}      \* exec, authgrant, principal proxy, userauth, pf control, pf data, winsize, unknown
Rels  == {"rel", "unrel"}
Handler(t, r) == CASE r = "rel" /\ t = 2 -> "authgrant"
                   [] r = "rel" /\ t = 5 -> "pfcontrol"
                   [] t = 6              -> "pfdata"       \* reliable or unreliable
                   [] r = "rel" /\ t = 7 -> "winsize"
                   [] OTHER              -> "none"         \* the loop closes the tube
VARIABLES phase, started, refused, hist, pre
vars == <<phase, started, refused, hist, pre>>
Init == phase \in {"auth", "loop"} /\ started = <<>> /\ refused = 0 /\ hist = <<>> /\ pre = (phase = "auth")
Open(t, r, a) ==
    /\ Len(hist) < MaxOpens /\ phase \in {"loop", "await2"}
    /\ hist' = Append(hist, [t |-> t, r |-> r, a |-> a]) /\ UNCHANGED pre
    /\ IF phase = "loop"
       THEN IF t = 1 /\ r = "rel"
            THEN phase' = "await2" /\ UNCHANGED <<started, refused>>
            ELSE /\ phase' = "loop"
                 /\ IF Handler(t, r) = "none" THEN refused' = refused + 1 /\ UNCHANGED started
                    ELSE started' = Append(started, Handler(t, r)) /\ UNCHANGED refused
       ELSE \* await2: the tube right behind the first execution tube
            IF SecondByType
            THEN IF t # 1 THEN phase' = "closed" /\ UNCHANGED <<started, refused>>
                 ELSE IF r = "rel" THEN phase' = "loop" /\ started' = Append(started, "exec") /\ UNCHANGED refused
                      ELSE phase' = "crashed" /\ UNCHANGED <<started, refused>>
            ELSE IF r = "rel" THEN phase' = "loop" /\ started' = Append(started, "exec") /\ UNCHANGED refused
                 ELSE phase' = "closed" /\ UNCHANGED <<started, refused>>
\* the first tube of a peer that did not authorize: a reliable user-authorization tube is read (an idle or garbled
\* one keeps the reader waiting for the rest of the message, a closed one yields an empty name), anything else is
\* rejected at once; the hostile peer never names a user its key is admitted for
OpenPre(t, r, a) ==
    /\ Len(hist) < MaxOpens /\ phase \in {"auth", "authwait", "rejected"}
    /\ hist' = Append(hist, [t |-> t, r |-> r, a |-> a]) /\ UNCHANGED <<started, refused, pre>>
    /\ IF phase = "auth"
       THEN IF t = 4 /\ r = "rel"
            THEN phase' \in (IF a = "close" THEN {"rejected"} ELSE IF a = "idle" THEN {"authwait"} ELSE {"authwait", "rejected"})
            ELSE phase' = "rejected"
       ELSE phase' = phase           \* nobody accepts further tubes: they stay in the muxer's queue
Next == \E t \in Types, r \in Rels, a \in Acts : Open(t, r, a) \/ OpenPre(t, r, a)
Spec == Init /\ [][Next]_vars
NoCrash == phase # "crashed"
Emit == hist = <<>> \/ PrintT(<<"SESS", ToJson([seq |-> hist, phase |-> phase, pre |-> pre])>>)
=============================================================================
