SPECIFICATION Spec
CONSTANTS D = 2  DB = 0  Win = 2  MaxLoss = 1  MaxDup = 0  MaxTx = 5  DropOnMaxRTO = TRUE
INVARIANTS Prefix EOFAfterData
VIEW View
CHECK_DEADLOCK FALSE
