package codex

// Verification driver (go test -overlay): the CLIENT side decoder of the execution status message, fed by a
// hostile server over a real reliable tube pair (in-memory message connection).  Same event format as the
// decoder part of the c11 driver: outcome and bytes allocated during the call.

import (
	"encoding/json"
	"fmt"
	"io"
	"net"
	"os"
	"runtime"
	"sync"
	"testing"
	"time"

	"github.com/sirupsen/logrus"

	"hop.computer/hop/transport"
	"hop.computer/hop/tubes"
)

type vhEnd struct {
	mu     sync.Mutex
	cond   *sync.Cond
	q      [][]byte
	closed bool
	peer   *vhEnd
}

func vhPipe() (*vhEnd, *vhEnd) {
	a, b := &vhEnd{}, &vhEnd{}
	a.cond, b.cond = sync.NewCond(&a.mu), sync.NewCond(&b.mu)
	a.peer, b.peer = b, a
	return a, b
}
func (e *vhEnd) WriteMsg(b []byte) error {
	p := e.peer
	p.mu.Lock()
	if !p.closed {
		p.q = append(p.q, append([]byte(nil), b...))
		p.cond.Broadcast()
	}
	p.mu.Unlock()
	return nil
}
func (e *vhEnd) ReadMsg(b []byte) (int, error) {
	e.mu.Lock()
	defer e.mu.Unlock()
	for len(e.q) == 0 {
		if e.closed {
			return 0, net.ErrClosed
		}
		e.cond.Wait()
	}
	m := e.q[0]
	e.q = e.q[1:]
	return copy(b, m), nil
}
func (e *vhEnd) Read(b []byte) (int, error)  { return e.ReadMsg(b) }
func (e *vhEnd) Write(b []byte) (int, error) { return len(b), e.WriteMsg(b) }
func (e *vhEnd) Close() error {
	e.mu.Lock()
	e.closed = true
	e.cond.Broadcast()
	e.mu.Unlock()
	return nil
}

type vhAddr string

func (a vhAddr) Network() string                    { return "mem" }
func (a vhAddr) String() string                     { return string(a) }
func (e *vhEnd) LocalAddr() net.Addr                { return vhAddr("a") }
func (e *vhEnd) RemoteAddr() net.Addr               { return vhAddr("b") }
func (e *vhEnd) SetDeadline(t time.Time) error      { return nil }
func (e *vhEnd) SetReadDeadline(t time.Time) error  { return nil }
func (e *vhEnd) SetWriteDeadline(t time.Time) error { return nil }

var _ transport.MsgConn = &vhEnd{}

func TestVerifHostileExecStatus(t *testing.T) {
	out := os.Getenv("VT_OUT")
	if out == "" {
		t.Skip("VT_OUT not set")
	}
	logrus.SetOutput(io.Discard)
	f, err := os.Create(out)
	if err != nil {
		t.Fatal(err)
	}
	defer f.Close()
	lg := logrus.New()
	lg.SetOutput(io.Discard)
	u32 := func(v uint32) []byte { return []byte{byte(v >> 24), byte(v >> 16), byte(v >> 8), byte(v)} }
	cases := []struct {
		class string
		in    []byte
	}{
		{"empty", nil},
		{"truncated-header", []byte{2, 0}},
		{"truncated-body", append(append([]byte{2}, u32(40<<16)...), []byte("short")...)},
		{"length-gt-remaining", append([]byte{2}, u32(60000<<16)...)},
		{"length-max", append([]byte{2}, u32(0xffffffff)...)},
		{"length-max", append([]byte{2}, u32(0x08000000)...)},
		{"length-max", append([]byte{2}, u32(0x0000ffff)...)},
		{"unknown-enum", []byte{9, 0, 0, 0, 0}},
		{"valid", []byte{1}},
		{"valid", append(append([]byte{2}, u32(5<<16)...), []byte("nope!")...)},
		{"random", []byte{2, 0xde, 0xad, 0xbe, 0xef, 1, 2, 3}},
	}
	for _, c := range cases {
		a, b := vhPipe()
		cm := tubes.Client(a, &tubes.Config{Log: logrus.NewEntry(lg)})
		sm := tubes.Server(b, &tubes.Config{Log: logrus.NewEntry(lg)})
		ct, err := cm.CreateReliableTube(1)
		if err != nil {
			t.Fatal(err)
		}
		st0, err := sm.Accept()
		if err != nil {
			t.Fatal(err)
		}
		st := st0.(*tubes.Reliable)
		bb, _ := json.Marshal(map[string]any{"ev": "case", "ref": "decoder:execstatus", "len": c.class, "ack": "-", "no": "-", "meta": len(c.in)})
		f.Write(append(bb, '\n'))
		// the hostile server: its bytes, then it closes its end
		if len(c.in) > 0 {
			st.Write(c.in)
		}
		time.Sleep(5 * time.Millisecond)
		st.Close()
		runtime.GC()
		var m0, m1 runtime.MemStats
		runtime.ReadMemStats(&m0)
		outcome := "value"
		done := make(chan struct{})
		go func() {
			defer close(done)
			defer func() {
				if r := recover(); r != nil {
					outcome = "panic: " + fmt.Sprint(r)
				}
			}()
			ct.SetReadDeadline(time.Now().Add(2 * time.Second))
			if err := getStatus(ct); err != nil {
				outcome = "error"
			}
		}()
		select {
		case <-done:
		case <-time.After(6 * time.Second):
			outcome = "pending"
		}
		runtime.ReadMemStats(&m1)
		bb, _ = json.Marshal(map[string]any{"ev": "decode", "decoder": "execstatus", "class": c.class, "bytes": len(c.in), "outcome": outcome, "alloc": m1.TotalAlloc - m0.TotalAlloc})
		f.Write(append(bb, '\n'))
		go cm.Stop()
		go sm.Stop()
	}
	f.Write([]byte("{\"ev\":\"done\",\"cases\":11}\n"))
}
