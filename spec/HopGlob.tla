------------------------------ MODULE HopGlob ------------------------------
(* Pattern matching used for client host blocks (config.MatchHost) and server virtual hosts  *)
(* (hopserver.VirtualHosts.Match, reached from the unauthenticated SNI of a handshake).       *)
(*                                                                                           *)
(* Strings are sequences of one-character strings.  Decl is the property text of C20         *)
(* literally: the input is obtained from the pattern by replacing each star by some string.  *)
(* Match is the recursive characterisation used as the oracle; the ASSUME-free invariant      *)
(* MatchIsDecl (checked by TLC over all small pairs) ties the two together.                   *)
EXTENDS Integers, Sequences, FiniteSets, TLC

STAR == "*"

RECURSIVE Match(_, _)
Match(p, s) ==
    IF p = <<>> THEN s = <<>>
    ELSE IF Head(p) = STAR
         THEN Match(Tail(p), s) \/ (s # <<>> /\ Match(p, Tail(s)))
         ELSE s # <<>> /\ Head(s) = Head(p) /\ Match(Tail(p), Tail(s))

(* Declarative definition: choose the LENGTH of the string replacing each star (its content  *)
(* is then dictated by the input); the widths must add up to the input's length and every    *)
(* literal pattern character must equal the input character at its resulting position.       *)
SeqsUpTo(A, n) == UNION {[1..k -> A] : k \in 0..n}

RECURSIVE SumTo(_, _)
SumTo(w, k) == IF k = 0 THEN 0 ELSE w[k] + SumTo(w, k - 1)      \* w[1] + ... + w[k]

Decl(p, s) ==
    \E lens \in [1..Len(p) -> 0..Len(s)] :
        LET w == [i \in 1..Len(p) |-> IF p[i] = STAR THEN lens[i] ELSE 1]
        IN  /\ \A i \in 1..Len(p) : p[i] # STAR => lens[i] = 0          \* no freedom at literals
            /\ SumTo(w, Len(p)) = Len(s)
            /\ \A i \in 1..Len(p) : p[i] # STAR => s[SumTo(w, i - 1) + 1] = p[i]

(* Host blocks: the blocks applied are exactly those with some matching pattern, in order.   *)
Applies(block, h) == \E i \in 1..Len(block) : Match(block[i], h)
RECURSIVE AppliedBlocks(_, _, _)
AppliedBlocks(blocks, h, k) ==
    IF k > Len(blocks) THEN <<>>
    ELSE (IF Applies(blocks[k], h) THEN <<k>> ELSE <<>>) \o AppliedBlocks(blocks, h, k + 1)

(* Virtual hosts: index of the first matching pattern, 0 if none.                            *)
RECURSIVE FirstMatch(_, _, _)
FirstMatch(pats, n, k) ==
    IF k > Len(pats) THEN 0
    ELSE IF Match(pats[k], n) THEN k ELSE FirstMatch(pats, n, k + 1)

=============================================================================
