--------------------------- MODULE MC_HopHandshake ---------------------------
(* Model-checking instances of HopHandshake: the certificate universe, the role instances    *)
(* (honest and adversarial) and scenario families.                                           *)
EXTENDS HopHandshake, Json

C(key, cls, name) == [key |-> key, cls |-> cls, name |-> name]
CertU == [ sv  |-> C("k1", "valid", "a"),        \* the honest server's certificate (name a)
           svb |-> C("k2", "valid", "b"),        \* a VALID certificate for another name, owned by the adversary
           svr |-> C("k2", "valid", "araw"),     \* a VALID certificate carrying the right LABEL as a raw (non-DNS) name
           sx  |-> C("k2", "expired", "a"),      \* adversary's certificates for name a with one defect each
           sw  |-> C("k2", "wrongtype", "a"),
           su  |-> C("k2", "untrusted", "a"),
           ss  |-> C("k2", "selfsigned", "a"),
           cc  |-> C("k5", "selfsigned", "c"),   \* honest client, self-signed (authorised key k5)
           cv  |-> C("k6", "valid", "c"),        \* honest client with a CA-issued certificate
           cz  |-> C("k7", "selfsigned", "c"),   \* client whose key nobody authorised
           cx  |-> C("k7", "expired", "c"),
           cu  |-> C("k7", "untrusted", "c") ]

(* auth: keys authorised now; rev: keys that WERE authorised and have been removed again (the   *)
(* real key set is built by adding auth and rev and then removing rev)                          *)
SC(cert, key, pol, kem, hidden) == [cert |-> cert, key |-> key, pol |-> pol, auth |-> {"k5"}, rev |-> {}, kem |-> kem, hidden |-> hidden]
SCrev(cert, key, pol, kem, hidden) == [cert |-> cert, key |-> key, pol |-> pol, auth |-> {}, rev |-> {"k5"}, kem |-> kem, hidden |-> hidden]
(* server instances: S* honest (certificate sv, key k1) with each client policy; A* adversarial *)
SCfgU == [ Sskip  |-> SC("sv", "k1", "skip", "kS", FALSE),
           Sstore |-> SC("sv", "k1", "store", "kS", FALSE),
           Sauth  |-> SC("sv", "k1", "authkeys", "kS", FALSE),
           Sboth  |-> SC("sv", "k1", "both", "kS", FALSE),
           Hskip  |-> SC("sv", "k1", "skip", "kS", TRUE),      \* hidden-only server
           Hauth  |-> SC("sv", "k1", "authkeys", "kS", TRUE),
           Srev   |-> SCrev("sv", "k1", "authkeys", "kS", FALSE),  \* the client's key was authorised and then removed
           Sbrev  |-> SCrev("sv", "k1", "both", "kS", FALSE),
           Hrev   |-> SCrev("sv", "k1", "authkeys", "kS", TRUE),
           Araw   |-> SC("svr", "k2", "skip", "kA", FALSE),    \* right label, wrong name type
           Aimp   |-> SC("sv", "k9", "skip", "kA", FALSE),     \* impostor: victim's certificate, another key
           Aname  |-> SC("svb", "k2", "skip", "kA", FALSE),    \* valid certificate, wrong name
           Aexp   |-> SC("sx", "k2", "skip", "kA", FALSE),
           Atype  |-> SC("sw", "k2", "skip", "kA", FALSE),
           Aroot  |-> SC("su", "k2", "skip", "kA", FALSE),
           Aself  |-> SC("ss", "k2", "skip", "kA", FALSE) ]

CC(cert, key, pol, name, skem) == [cert |-> cert, key |-> key, pol |-> pol, name |-> name, skem |-> skem]
(* Family A: one honest client (each policy) against every server instance *)
CliA == {CC("cc", "k5", pol, "a", sk) : pol \in {"store", "skip"}, sk \in {"Sskip", "Aimp"}}
SrvA == DOMAIN SCfgU
(* Family B: every kind of client against the honest server under each client policy *)
CliB == {CC("cc", "k5", "store", "a", "Sskip"), CC("cv", "k6", "store", "a", "Sskip"), CC("cz", "k7", "store", "a", "Sskip"),
         CC("cx", "k7", "store", "a", "Sskip"), CC("cu", "k7", "store", "a", "Sskip"),
         CC("cc", "k8", "store", "a", "Sskip"),      \* impostor client: authorised certificate, another key
         CC("cv", "k8", "store", "a", "Sskip")}
SrvB == {"Sskip", "Sstore", "Sauth", "Sboth", "Hskip", "Hauth", "Srev", "Sbrev", "Hrev"}
(* Family C: two concurrent honest sessions with one server (splicing, replays, re-addressing) *)
CliC == {CC("cc", "k5", "store", "a", "Sauth"), CC("cv", "k6", "store", "a", "Sauth")}
SrvC == {"Sauth"}
SrvCh == {"Hauth"}

(* Emission of maximal behaviours for replay on the real endpoints.                          *)
Terminal == /\ \A i \in Sess : cl[i].st # "idle"
            /\ \A i \in Sess, h \in Hops : out[i][h] = NoMsg
Used == {Dial[i] : i \in Sess}
SrvOK(i) == LET sc == SCfg[Dial[i]] IN
            ChainVerifies(sc.cert, CCfg[i].name, CCfg[i].pol, {}) /\ sc.key = Cert[sc.cert].key
CliPol(i) == LET sc == SCfg[Dial[i]] IN ChainVerifies(CCfg[i].cert, "none", sc.pol, sc.auth)
CliKey(i) == CCfg[i].key = Cert[CCfg[i].cert].key
CliOK(i) == CliPol(i) /\ CliKey(i)
Agree(i) == \E x \in sv[Dial[i]].sess : x.st = "est" /\ <<Sid(x.sid)>> = cl[i].sid /\ x.keys = cl[i].keys
EmitBeh == Terminal =>
    PrintT(<<"BEH", ToJson([
        mode |-> Mode, ccfg |-> CCfg, dial |-> Dial, hist |-> hist,
        scfg |-> [s \in Used \cup {CCfg[i].skem : i \in Sess} |-> [cert |-> SCfg[s].cert, key |-> SCfg[s].key, pol |-> SCfg[s].pol, kem |-> SCfg[s].kem,
                                   hidden |-> SCfg[s].hidden, auth |-> SCfg[s].auth, rev |-> SCfg[s].rev]],
        certs |-> Cert,
        cl   |-> [i \in Sess |-> [st |-> cl[i].st, alt |-> cl[i].alt, saw |-> cl[i].saw, srvOK |-> SrvOK(i), cliOK |-> CliOK(i), cliPol |-> CliPol(i), cliKey |-> CliKey(i),
                                   agree |-> cl[i].st = "done" /\ Agree(i)]],
        srv  |-> [s \in Used |-> [acc |-> Len(sv[s].acc), nhs |-> Cardinality(sv[s].hs), nsess |-> Cardinality(sv[s].sess),
                                   sent |-> sv[s].sent,
                                   est |-> {[cert |-> x.cert, alt |-> x.alt, from |-> x.from] : x \in {y \in sv[s].sess : y.st = "est"}}]]
      ])>>)
=============================================================================
