# C20 — glob matching is total and is glob matching (DESIGN.md §3 C20)
import os, re
import lib

def s_(chars):
    return "".join(chars)

def run(v, tier, replay):
    thorough = tier == "thorough"
    v.assumptions += ["alphabet {a,b,*} for the exhaustive part; longer patterns over {a,b,c,.,*} are seeded samples",
                      "host-block merge is observed through the CAFiles list (the one field MergeWith appends)"]
    # design stage: recursive Match equals the declarative definition of the property text, all small pairs
    r = lib.tlc("MC_HopGlob", "MC_HopGlob.cfg", timeout=900)
    lib.tlc_must_pass(r, "MC_HopGlob")
    v.add_tlc("MC_HopGlob (Match = Decl, all pairs |p|<=4 |s|<=4)", r)

    binp = lib.go_build("c20")
    sd = lib.scratch("vf-c20-")
    tr = os.path.join(sd, "trace.ndjson")
    maxp, maxs, nrand = (6, 7, 100000) if thorough else (4, 5, 3000)
    rc, so, se = lib.run([binp, tr, str(lib.seed()), str(maxp), str(maxs), str(nrand)], timeout=900)
    if rc != 0:
        raise lib.Inconclusive("c20 driver failed: " + se[-2000:])
    events = lib.read_ndjson(tr)
    # the flags layer (explicit configuration layered over a default one with a host alias): add-only overlay test
    ov = os.path.join(sd, "flags.ndjson")
    orc, oso, ose = lib.overlay_test("flags", "^TestVerifHostBlocksThroughFlags$", env_extra={"VT_OUT": ov, "VT_SEED": str(lib.seed())}, timeout=600)
    if orc != 0 or not os.path.exists(ov):
        raise lib.Inconclusive("overlay driver flags failed: %s" % (oso + ose)[-2000:])
    events += lib.read_ndjson(ov)
    lib.write_ndjson(tr, events)
    r = lib.tlc("Trace_HopGlob", "Trace_HopGlob.cfg", files={"trace.ndjson": "@" + tr}, workers=1, timeout=3000)
    v.add_tlc("Trace_HopGlob", r)
    if not r.ok:
        raise lib.Inconclusive("trace not consumed by Trace_HopGlob: kind=%s\n%s" % (r.kind, r.out[-2000:]))
    v.cov["traces_validated_against_impl"] += 1
    v.cov["trace_events"] = len(events)
    v.cov["exhaustive"] = True
    v.cov["rule"] = "every pattern over {a,b,*} up to length %d x every input over {a,b} up to length %d, plus %d seeded longer pairs, plus host-block / virtual-host lists from an 8-pattern pool; non-trivial = pattern contains a star" % (maxp, maxs, nrand)
    for e in events:
        if e["ev"] == "glob":
            v.case(("g", s_(e["p"]), s_(e["s"])), nontrivial="*" in e["p"])
        else:
            v.case((e["ev"], repr(e)), nontrivial=True)
    for e in events[:3] + [e for e in events if e["ev"] != "glob"][:2]:
        v.sample(e)
    for m in re.finditer(r'<<"MISMATCH", (\d+), "want", (.*)>>', r.out):
        e = events[int(m.group(1)) - 1]
        want = m.group(2)
        if e["ev"] == "glob":
            p, s = s_(e["p"]), s_(e["s"])
            got = "panic" if e["pan"] == "yes" else e["got"]
            sig = "glob p=%r s=%r got=%s want=%s" % (p, s, got, want.strip('"'))
            what = "glob.Glob(%r, %r) = %s, the property demands %s" % (p, s, got, want)
        elif e["ev"] == "hosts":
            blocks = [[s_(p) for p in b] for b in e["blocks"]]
            got = "panic" if e["pan"] == "yes" else e["got"]
            sig = "hosts blocks=%r h=%r got=%s want=%s" % (blocks, s_(e["h"]), got, want)
            what = "ClientConfig.MatchHost applied blocks %s for host %r with block patterns %r; the matching blocks are %s" % (got, s_(e["h"]), blocks, want)
        else:
            pats = [s_(p) for p in e["pats"]]
            got = "panic" if e["pan"] == "yes" else e["got"]
            sig = "vhost pats=%r n=%r got=%s want=%s" % (pats, s_(e["n"]), got, want)
            what = "VirtualHosts.Match chose #%s for name %r among %r; first matching pattern is #%s" % (got, s_(e["n"]), pats, want)
        v.violation(sig, what, e)
