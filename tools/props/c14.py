# C14 — replay filter: ring bitmap refines the set specification (DESIGN.md §3 C14)
import json, os, re
import lib

def run(v, tier, replay):
    thorough = tier == "thorough"
    v.assumptions += ["counters below 2^63 (property text); histories are logged relative to a per-trace base because TLC integers are 32-bit",
                      "the (8 blocks x 2 bits) model scales to the real (8 x 64) layout by a monotone in-block map"]
    # ---- design stage: ring refines set, exhaustive for three parameter triples
    cfgs = ["MC_ReplayWindow_3x4.cfg", "MC_ReplayWindow_8x2.cfg"] + (["MC_ReplayWindow_4x4.cfg"] if thorough else [])
    for cfg in cfgs:
        r = lib.tlc("ReplayWindow", cfg, timeout=1200)
        lib.tlc_must_pass(r, cfg)
        v.add_tlc(cfg, r)
    # sensitivity self-test of the design stage: a clearing loop one block short must break Equiv
    r = lib.tlc("ReplayWindow", "MC_ReplayWindow_bad.cfg", timeout=300)
    if r.violated != "Equiv":
        raise lib.Inconclusive("self-test: Equiv not violated by ClearCap = NumBlocks-1")
    v.cov["selftest_design_mutant_detected"] = True
    v.cov["exhaustive"] = True
    # ---- unbounded counters: inductive invariant discharged by Apalache (4 blocks x 4 bits, counters in all of Nat)
    import concurrent.futures
    src = open(os.path.join(lib.SPEC, "ReplayWindowInd.tla")).read()
    bad = src.replace("MODULE ReplayWindowInd", "MODULE ReplayWindowIndBad").replace("diff == IF s > wt THEN Min(ub - uc, N) ELSE 0", "diff == IF s > wt THEN Min(ub - uc, N - 1) ELSE 0")
    jobs = [("base: Init => IndInv", "ReplayWindowInd", None, "Init", "IndInv", 0, "NoError"),
            ("step: IndInv /\\ Next => IndInv'", "ReplayWindowInd", None, "IndInit", "IndInv", 1, "NoError"),
            ("IndInv => equal verdicts for an arbitrary counter", "ReplayWindowInd", None, "IndInit", "Equiv", 0, "NoError"),
            ("non-vacuity: IndInit has non-trivial states", "ReplayWindowInd", None, "IndInit", "Trivial", 0, "Error"),
            ("self-test: clearing loop one block short breaks the step", "ReplayWindowIndBad", bad, "IndInit", "IndInv", 1, "Error")]
    with concurrent.futures.ThreadPoolExecutor(max_workers=5) as ex:
        outs = list(ex.map(lambda j: lib.apalache(j[1], j[3], j[4], j[5], timeout=1500, text=j[2]), jobs))
    v.cov["apalache"] = [dict(obligation=j[0], outcome=o if not o.startswith("other") else "other") for j, o in zip(jobs, outs)]
    for j, o in zip(jobs, outs):
        if o != j[6]:
            raise lib.Inconclusive("Apalache obligation '%s': expected %s, got %s" % (j[0], j[6], o))
    v.assumptions.append("unbounded counters: inductive invariant ReplayWindowInd!IndInv (base, step, implication of equal verdicts, non-vacuity, failing variant) discharged by Apalache for the 4x4 geometry; the real 8x64 geometry is reached by TLC's three geometries plus the monotone scaling argument")

    binp = lib.go_build("c14")
    sd = lib.scratch("vf-c14-")

    # ---- binding T: histories recorded from the real SlidingWindow, judged by the set spec
    if replay:
        tr = replay
        ntr = 1
    else:
        tr = os.path.join(sd, "trace.ndjson")
        ntr, steps = (2400, 400) if thorough else (360, 300)
        rc, so, se = lib.run([binp, "trace", tr, str(lib.seed()), str(ntr), str(steps)], timeout=600)
        if rc != 0:
            raise lib.Inconclusive("c14 trace driver failed: " + se[-2000:])
    events = lib.read_ndjson(tr)
    r = lib.tlc("Trace_ReplayWindow", "Trace_ReplayWindow.cfg", files={"trace.ndjson": "@" + tr}, workers=1, timeout=1800)
    v.add_tlc("Trace_ReplayWindow", r)
    v.cov["trace_events"] = len(events)
    if r.ok:
        v.cov["traces_validated_against_impl"] += ntr
        for e in events:
            if e["ev"] == "check":
                v.case(("check", e["rel"], e["got"]), nontrivial=not e["got"] or e["rel"] > 0)
    elif r.violated == "ResultMatchesSpec":
        l = int(r.last_state.get("l", "0")) - 1          # line just consumed (1-based) = l-1
        bad = events[l - 1]
        start = max(i for i in range(l) if events[i]["ev"] == "reset")
        one = events[start:l]
        v.violation("filter verdict differs from set specification: rel=%s got=%s (trace style %s base %s)"
                    % (bad.get("rel"), bad.get("got"), events[start].get("style"), events[start].get("base")),
                    "real SlidingWindow.Check(%s+%s) returned %s after %d recorded steps; the property demands %s"
                    % (events[start].get("base"), bad.get("rel"), bad.get("got"), len(one), not bad.get("got")),
                    one)
    else:
        raise lib.Inconclusive("trace not explained by Trace_ReplayWindow: kind=%s\n%s" % (r.kind, r.out[-2000:]))
    v.sample(dict(kind="recorded history prefix (real SlidingWindow)", events=events[:12]))

    if replay:
        return
    # ---- binding R: TLC behaviours of the 8x2 model replayed on the real filter at four scalings x four bases
    nb = 3000 if thorough else 400
    r = lib.tlc("Sim_ReplayWindow", "Sim_ReplayWindow.cfg", workers=1, simulate="num=%d" % nb, depth=15,
                tlc_seed=lib.seed(), timeout=900)
    if r.kind:
        raise lib.Inconclusive("simulation failed: %s\n%s" % (r.kind, r.out[-2000:]))
    beh = re.findall(r'^<<"BEHAVIOUR", "(.*)">>$', r.out, re.M)
    if len(beh) < nb // 2:
        raise lib.Inconclusive("simulation produced %d behaviours, wanted %d" % (len(beh), nb))
    bf = os.path.join(sd, "beh.jsonl")
    with open(bf, "w") as fh:
        for b in beh:
            fh.write(b.replace('\\"', '"') + "\n")
    of = os.path.join(sd, "replay.jsonl")
    rc, so, se = lib.run([binp, "replay", bf, of], timeout=900)
    if rc != 0:
        raise lib.Inconclusive("c14 replay driver failed: " + se[-2000:])
    res = lib.read_ndjson(of)
    summ = [e for e in res if e["ev"] == "summary"][0]
    v.cov["behaviours_replayed_into_impl"] = summ["behaviours"]
    v.cov["traces_validated_against_impl"] += summ["behaviours"]
    v.cov["replay_steps"] = summ["steps"]
    v.cov["replay_probes"] = summ["probes"]
    v.cov["evaluations"] += summ["probes"]
    v.sample(dict(kind="TLC behaviour (8x2 model) replayed on the real filter", steps=[dict(s=s["s"], ok=s["ok"]) for s in json.loads(beh[0].replace('\\"', '"'))]))
    for e in res:
        if e["ev"] == "mismatch":
            v.violation("replayed behaviour: %s of model counter %s (real %s) got=%s want=%s" % (e["kind"], e["s"], e["real"], e["got"], e["want"]),
                        "TLC behaviour %d step %d scaled with in-block map %s base %s" % (e["behaviour"], e["step"], e["map"], e["base"]),
                        dict(mismatch=e, behaviour=json.loads(beh[e["behaviour"] - 1].replace('\\"', '"'))))
            break
