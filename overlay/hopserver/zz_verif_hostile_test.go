package hopserver

// Verification driver for C11 at the session layer (added with `go test -overlay`, verif tag): an AUTHENTICATED and
// AUTHORIZED peer opens tubes in orders and of kinds no regular client produces.  The sequences (tube type x
// reliable/unreliable x what the peer does with the tube) are enumerated by TLC from HopSession.tla (with the phase the model's accept loop reaches); each runs
// against a real session's start() loop on a real HopServer over an in-memory muxer pair.  A panic in any session
// goroutine kills this test binary (reported with the sequence in flight); after every sequence a fresh
// connection must still be admitted by the same server (nothing the hostile session did wedged it).
//
// Nothing is executed: thunks.LookupUser succeeds only while a session is being admitted.

import (
	"bufio"
	"encoding/binary"
	"encoding/json"
	"errors"
	"fmt"
	"io"
	"math/rand"
	"os"
	"sync"
	"sync/atomic"
	"testing"
	"testing/fstest"
	"time"

	"github.com/AstromechZA/etcpwdparse"
	"github.com/sirupsen/logrus"

	"hop.computer/hop/authgrants"
	"hop.computer/hop/authkeys"
	"hop.computer/hop/certs"
	"hop.computer/hop/common"
	"hop.computer/hop/config"
	"hop.computer/hop/core"
	"hop.computer/hop/keys"
	"hop.computer/hop/pkg/thunks"
	"hop.computer/hop/transport"
	"hop.computer/hop/tubes"
	"hop.computer/hop/userauth"
)

type vhOpen struct {
	T   int    `json:"t"`
	Rel string `json:"r"` // "rel" | "unrel"
	Act string `json:"a"` // "idle" | "junk" | "close"
}

func TestVerifHostileTubeOpens(t *testing.T) {
	in, out := os.Getenv("VT_IN"), os.Getenv("VT_OUT")
	if in == "" || out == "" {
		t.Skip("verification driver: VT_IN / VT_OUT not set")
	}
	logrus.SetLevel(logrus.PanicLevel)
	raw, err := os.ReadFile(in)
	if err != nil {
		t.Fatal(err)
	}
	var behs []struct {
		Seq   []vhOpen `json:"seq"`
		Phase string   `json:"phase"`
		Pre   bool     `json:"pre"` // the peer is hostile from its first tube: no user authorization before the sequence
	}
	if err := json.Unmarshal(raw, &behs); err != nil {
		t.Fatal(err)
	}
	fo, err := os.Create(out)
	if err != nil {
		t.Fatal(err)
	}
	defer fo.Close()
	w := bufio.NewWriter(fo)
	var wmu sync.Mutex
	emit := func(m map[string]any) {
		b, _ := json.Marshal(m)
		wmu.Lock()
		w.Write(b)
		w.WriteByte('\n')
		w.Flush()
		wmu.Unlock()
	}
	var admitting atomic.Int32
	oldLookup := thunks.LookupUser
	thunks.LookupUser = func(name string) (*etcpwdparse.EtcPasswdEntry, error) {
		if admitting.Load() > 0 && name == "vh-user" {
			e, err := etcpwdparse.ParsePasswdLine("vh-user:x:61234:61234::/home/vh-user:/bin/false")
			return &e, err
		}
		return nil, errors.New("no such user (verification)")
	}
	defer func() { thunks.LookupUser = oldLookup }()
	kp := keys.GenerateNewX25519KeyPair()
	leaf, err := certs.SelfSignLeaf(&certs.Identity{PublicKey: kp.Public, Names: []certs.Name{certs.RawStringName("vh")}})
	if err != nil {
		t.Fatal(err)
	}
	gkp := keys.GenerateNewX25519KeyPair()
	gleaf, err := certs.SelfSignLeaf(&certs.Identity{PublicKey: gkp.Public, Names: []certs.Name{certs.RawStringName("vh-delegate")}})
	if err != nil {
		t.Fatal(err)
	}
	akPath := core.AuthorizedKeysPath("/home/vh-user/" + common.UserConfigDirectory)
	lg := logrus.New()
	lg.SetOutput(io.Discard)
	scfg := &config.ServerConfig{EnableAuthgrants: true, EnableAuthorizedKeys: true}
	s, err := NewHopServerExt(nil, scfg, authkeys.NewSyncAuthKeySet())
	if err != nil {
		t.Fatal(err)
	}
	s.fsystem = fstest.MapFS{akPath[1:]: &fstest.MapFile{Data: []byte(kp.Public.String() + "\n")}}
	var nsess atomic.Uint32
	var admitMu sync.Mutex // the user database answers only during an admission; admissions are serialised
	// connect: a real session admitted through its start() loop; byGrant: admitted through authorization grants
	connect := func(byGrant, authorize bool) (*vfSession, bool) {
		a, b := vfPipe()
		vs := &vfSession{user: "vh-user"}
		vs.smux = tubes.Server(b, &tubes.Config{Log: logrus.NewEntry(lg)})
		vs.cmux = tubes.Client(a, &tubes.Config{Log: logrus.NewEntry(lg)})
		cert := leaf
		admitMu.Lock()
		defer admitMu.Unlock()
		if byGrant {
			cert = gleaf
			for _, gt := range []authgrants.GrantType{authgrants.Shell, authgrants.LocalPF, authgrants.RemotePF} {
				s.AddAuthGrant(&authgrants.Intent{GrantType: gt, StartTime: time.Now().Add(-time.Hour), ExpTime: time.Now().Add(time.Hour),
					TargetSNI: certs.DNSName("target.example"), TargetUsername: vs.user, DelegateCert: *gleaf})
			}
		}
		vs.sess = &hopSession{transportConn: transport.VerifNewHandle(cert), tubeMuxer: vs.smux, server: s,
			ID: sessID(nsess.Add(1)), pty: make(chan *os.File, 1)}
		s.sessionLock.Lock()
		s.sessions[vs.sess.ID] = vs.sess
		s.sessionLock.Unlock()
		admitting.Add(1)
		defer admitting.Add(-1)
		go vs.sess.start()
		if !authorize {
			return vs, true
		}
		ua, err := vs.cmux.CreateReliableTube(common.UserAuthTube)
		if err != nil {
			return vs, false
		}
		msg := make([]byte, 2+len(vs.user))
		binary.BigEndian.PutUint16(msg, uint16(len(vs.user)))
		copy(msg[2:], vs.user)
		ua.Write(msg)
		rb, err := vfReadTimeout(ua, 1, 3*time.Second)
		vs.ok = err == nil && rb[0] == userauth.UserAuthConf
		ua.Close()
		return vs, vs.ok
	}
	rng := rand.New(rand.NewSource(1))
	var rmu sync.Mutex
	junk := func() []byte {
		rmu.Lock()
		defer rmu.Unlock()
		b := make([]byte, 1+rng.Intn(80))
		rng.Read(b)
		return b
	}
	runSeq := func(i int, seq []vhOpen, phase string, pre bool) {
		byGrant := i%2 == 1
		emit(map[string]any{"ev": "opens", "i": i, "seq": seq, "grant": byGrant, "pre": pre})
		vs, ok := connect(byGrant, !pre)
		if !ok {
			emit(map[string]any{"ev": "session", "i": i, "admitted": "no", "alive": "yes"})
			go vs.cmux.Stop()
			go vs.smux.Stop()
			return
		}
		for _, o := range seq {
			var tb tubes.Tube
			var err error
			if o.Rel == "rel" {
				tb, err = vs.cmux.CreateReliableTube(tubes.TubeType(o.T))
			} else {
				tb, err = vs.cmux.CreateUnreliableTube(tubes.TubeType(o.T))
			}
			if err != nil {
				break
			}
			// bounded: once the session has shut its muxer a new tube's request is never answered, and calls on
			// such a tube do not return (C16's subject, not this property's)
			ad := make(chan struct{})
			go func(o vhOpen, tb tubes.Tube) {
				switch o.Act {
				case "junk":
					tb.Write(junk())
				case "close":
					tb.Close()
				}
				close(ad)
			}(o, tb)
			select {
			case <-ad:
			case <-time.After(250 * time.Millisecond):
			}
			time.Sleep(time.Millisecond)
		}
		// fence: an unknown reliable tube is closed by the session loop once it gets there (or the session is gone)
		// (calls on a tube whose request is never answered do not return - C16's subject - so the wait is bounded here)
		fence := "na"
		if f, err := vs.cmux.CreateReliableTube(tubes.TubeType(211)); err == nil {
			fd := make(chan error, 1)
			go func() { _, err := f.Read(make([]byte, 1)); fd <- err }()
			wait := 300 * time.Millisecond
			if phase == "loop" {
				wait = 5 * time.Second // the model expects the loop to close the fence: give a loaded machine time
			}
			select {
			case err := <-fd:
				fence = "error"
				if err == io.EOF {
					fence = "eof"
				}
			case <-time.After(wait):
				fence = "timeout"
			}
		}
		// the server must still admit a regular connection
		p, alive := connect(false, true)
		go func() { p.cmux.Stop(); p.smux.Stop() }()
		emit(map[string]any{"ev": "session", "i": i, "admitted": "yes", "fence": fence, "alive": map[bool]string{true: "yes", false: "no"}[alive]})
		go func() {
			vs.cmux.Stop()
			vs.smux.Stop()
		}()
	}
	var wg sync.WaitGroup
	sem := make(chan struct{}, 48)
	for i, b := range behs {
		wg.Add(1)
		sem <- struct{}{}
		go func(i int, seq []vhOpen, phase string, pre bool) {
			defer wg.Done()
			defer func() { <-sem }()
			runSeq(i, seq, phase, pre)
		}(i, b.Seq, b.Phase, b.Pre)
	}
	wg.Wait()
	emit(map[string]any{"ev": "summary", "sequences": len(behs)})
	_ = fmt.Sprint
}
