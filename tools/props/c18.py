# C18 — wire encodings round-trip; re-encoding preserves what was parsed (DESIGN.md §3 C18)
import json, os, re
import lib

def run(v, tier, replay):
    thorough = tier == "thorough"
    v.assumptions += ["a value is abstracted to the lengths of its variable fields and its enum bytes; contents are generated deterministically",
                      "4-byte length prefixes are treated as unbounded (TLC integers are 32-bit); the user-authentication request is round-tripped over a real reliable tube pair (in-memory message connection)",
                      "unexported codecs (tube frames, execution request, port-forward address packet, user-authentication request) are reached by add-only _test.go drivers injected with go test -overlay"]
    binp = lib.go_build("c18")
    r = lib.tlc("HopWire", "MC_HopWire.cfg", timeout=300)
    lib.tlc_must_pass(r, "MC_HopWire")
    v.add_tlc("MC_HopWire (format-level round trip over boundary lengths)", r)
    sd = lib.scratch("vf-c18-")
    parts = []
    p0 = os.path.join(sd, "ext.ndjson")
    rc, so, se = lib.run([binp, p0, str(lib.seed()), "1" if thorough else "0"], timeout=1800)
    if rc != 0:
        raise lib.Inconclusive("c18 driver failed: " + (so + se)[-3000:])
    parts.append(p0)
    for pkg, test in (("tubes", "TestVerifWireFrames"), ("codex", "TestVerifWireExec"), ("portforwarding", "TestVerifWirePF"), ("userauth", "TestVerifWireUserAuth")):
        out = os.path.join(sd, pkg + ".ndjson")
        rc, so, se = lib.overlay_test(pkg, "^%s$" % test, env_extra={"VT_OUT": out}, timeout=900)
        if rc != 0 or not os.path.exists(out):
            raise lib.Inconclusive("overlay driver %s failed: %s" % (pkg, (so + se)[-3000:]))
        parts.append(out)
    events = []
    for p in parts:
        events += lib.read_ndjson(p)
    tr = os.path.join(sd, "trace.ndjson")
    lib.write_ndjson(tr, events)
    r = lib.tlc("Trace_HopWire", "Trace_HopWire.cfg", files={"trace.ndjson": "@" + tr}, workers=1, timeout=1800)
    v.add_tlc("Trace_HopWire", r)
    if not r.ok:
        raise lib.Inconclusive("trace not consumed: %s\n%s" % (r.kind, r.out[-2000:]))
    v.cov["traces_validated_against_impl"] += len(parts)
    v.cov["trace_events"] = len(events)
    for e in events:
        v.case(json.dumps(e, sort_keys=True), nontrivial=True)
    for e in (events[0], events[len(events) // 2], events[-1]):
        v.sample(e)
    for m in re.finditer(r'<<"MISMATCH", (\d+)>>', r.out):
        e = events[int(m.group(1)) - 1]
        if e["ev"] == "rt":
            sig = "%s lens=%s enumok=%s: enc=%s dec=%s same=%s" % (e["codec"], json.dumps(e["lens"], sort_keys=True), e["enumok"], e["enc"], e["dec"], e["same"])
        else:
            sig = "%s: accepted bytes are not stable under decode-encode-decode (len %s)" % (e["codec"], e["len"])
        v.violation(sig, "real codec result judged by Trace_HopWire against HopWire.tla", e)
