// c06 replays scenarios enumerated by TLC from HopAuthgrant.tla on the real principal
// (authgrants.StartPrincipalInstance) connected to a real target instance (authgrants.StartTargetInstance)
// through a relay that can misbehave as the scenario says.
//
//	c06 <scenarios.ndjson> <out.ndjson>
//
// Per scenario: a sequence of requests, each with tclass / decision / setup / tbeh (see the spec).  Observed:
// every invocation of the approval callback (which request's intent, byte for byte; what it answered), every
// intent that arrived on a target connection (which request's, byte for byte; on the connection set up for which
// URL), what the target stored, every answer the delegate read per request, and whether the instance ends.
package main

import (
	"bufio"
	"bytes"
	"encoding/json"
	"errors"
	"fmt"
	"io"
	"net"
	"os"
	"sync"
	"time"

	"github.com/sirupsen/logrus"

	"hop.computer/hop/authgrants"
	"hop.computer/hop/certs"
	"hop.computer/hop/core"
	"hop.computer/hop/keys"
	"hop.computer/hop/transport"
	"verif/harness/hopkit"
	"verif/harness/rec"
	"verif/harness/simwire"
)

type choice struct {
	TClass   string `json:"tclass"`
	Decision string `json:"decision"`
	Setup    string `json:"setup"`
	TBeh     string `json:"tbeh"`
	GT       string `json:"gt"`
}

type scenario struct {
	ID int      `json:"id"`
	Sc []choice `json:"sc"`
}

var delegateCert *certs.Certificate
var targetCert *certs.Certificate

func mkIntent(k int, c choice) authgrants.Intent {
	host, user, port := "target.example", "alice", uint16(77)
	switch c.TClass {
	case "otherhost":
		host = "other.example"
	case "otheruser":
		user = "bob"
	case "otherport":
		port = 78
	}
	base := time.Unix(1_800_000_000, 0)
	i := authgrants.Intent{
		GrantType:      authgrants.Command,
		TargetPort:     port,
		StartTime:      base.Add(time.Duration(k) * time.Minute),
		ExpTime:        base.Add(time.Duration(k)*time.Minute + time.Hour),
		TargetSNI:      certs.DNSName(host),
		TargetUsername: user,
		DelegateCert:   *delegateCert,
	}
	if c.GT == "pf" {
		// a grant type the messages cannot carry: the encoder reports an error after the bytes have gone out
		i.GrantType = authgrants.LocalPF
		return i
	}
	switch k % 3 {
	case 1:
		i.AssociatedData.CommandGrantData.Cmd = fmt.Sprintf("make deploy-%d", k)
	case 2:
		i.GrantType = authgrants.Shell
	default:
		i.GrantType = authgrants.Command
		i.AssociatedData.CommandGrantData.Cmd = "make deploy-1" // same text as request 1, other times
	}
	return i
}

func enc(i authgrants.Intent) []byte {
	var b bytes.Buffer
	i.WriteTo(&b) // port-forwarding intents report an error after everything has been written
	return b.Bytes()
}

type obs struct {
	mu      sync.Mutex
	seq     int
	reqs    [][]byte
	urls    []string
	current int // request being handled (1-based)
	Cb      [][]any
	Fwd     [][]any
	Stored  []int
}

func (o *obs) which(b []byte) int {
	for k, r := range o.reqs {
		if bytes.Equal(r, b) {
			return k + 1
		}
	}
	return 0
}

func runScenario(s scenario, w *rec.W) {
	o := &obs{}
	intents := make([]authgrants.Intent, len(s.Sc))
	for k, c := range s.Sc {
		intents[k] = mkIntent(k+1, c)
		o.reqs = append(o.reqs, enc(intents[k]))
		o.urls = append(o.urls, intents[k].TargetURL().String())
	}
	dcP, dcD := net.Pipe()
	// approval callback
	ci := func(i authgrants.Intent, cert *certs.Certificate) error {
		o.mu.Lock()
		defer o.mu.Unlock()
		o.seq++
		k := o.which(enc(i))
		// a choice the model did not branch on ("-": it cannot matter where the protocol is followed) defaults to
		// the dangerous side: the principal would approve, the set-up would work, the target would confirm
		dec := "deny"
		if k > 0 {
			dec = s.Sc[k-1].Decision
			if dec == "-" {
				dec = "approve"
			}
		}
		o.Cb = append(o.Cb, []any{k, dec, o.seq, cert == targetCert, o.current})
		if dec == "approve" {
			return nil
		}
		return errors.New("principal says no")
	}
	var relays []net.Conn
	// target set-up
	su := func(u core.URL, verify authgrants.AdditionalVerifyCallback) (net.Conn, error) {
		o.mu.Lock()
		cur := o.current
		o.mu.Unlock()
		c := s.Sc[cur-1]
		switch c.Setup {
		case "dialfail":
			return nil, errors.New("dial: no route to host")
		case "ok", "postfail":
			if s.ID%3 != 0 {
				// a REAL transport handshake with a target server carries the approval, as in hopclient.setupTargetClient:
				// the verification callback is installed in the client's VerifyConfig, with and without InsecureSkipVerify
				if err := realHandshake(verify, s.ID%3 == 1); err != nil {
					return nil, fmt.Errorf("handshake failed: %w", err)
				}
			} else if err := verify(targetCert); err != nil {
				return nil, fmt.Errorf("handshake failed: %w", err)
			}
			if c.Setup == "postfail" {
				return nil, errors.New("user authorization failed")
			}
		default: // "-": would work
			if err := verify(targetCert); err != nil {
				return nil, fmt.Errorf("handshake failed: %w", err)
			}
		}
		pSide, rSide := bufPipe() // buffered, like the authorization-grant tube it stands for
		relays = append(relays, pSide, rSide)
		go relay(o, s, rSide, u.String())
		return pSide, nil
	}
	done := make(chan struct{})
	go func() {
		authgrants.StartPrincipalInstance(dcP, ci, su)
		close(done)
	}()
	// the delegate
	answers := make([][]string, len(s.Sc))
	for k := range s.Sc {
		o.mu.Lock()
		o.current = k + 1
		o.mu.Unlock()
		dcD.SetDeadline(time.Now().Add(12 * time.Second))
		if err := authgrants.WriteIntentRequest(dcD, intents[k]); err != nil && s.Sc[k].GT != "pf" {
			answers[k] = append(answers[k], "writefail:"+err.Error())
			break
		}
		gone := false
		for _, c := range s.Sc[:k] {
			gone = gone || c.GT == "pf"
		}
		for n := 0; n < 4; n++ {
			if n == 0 && gone {
				dcD.SetReadDeadline(time.Now().Add(300 * time.Millisecond)) // nobody is expected to answer any more
			} else if n == 0 {
				dcD.SetReadDeadline(time.Now().Add(12 * time.Second))
			} else {
				dcD.SetReadDeadline(time.Now().Add(15 * time.Millisecond))
			}
			var m authgrants.AgMessage
			if _, err := m.ReadFrom(dcD); err != nil {
				if n == 0 {
					answers[k] = append(answers[k], "none:"+errName(err))
				}
				break
			}
			switch m.MsgType {
			case authgrants.IntentConfirmation:
				answers[k] = append(answers[k], "confirm")
			case authgrants.IntentDenied:
				answers[k] = append(answers[k], "deny")
			default:
				answers[k] = append(answers[k], fmt.Sprintf("type%d", m.MsgType))
			}
		}
	}
	dcD.Close()
	returned := true
	select {
	case <-done:
	case <-time.After(3 * time.Second):
		returned = false
	}
	dcP.Close()
	for _, c := range relays {
		c.Close()
	}
	o.mu.Lock()
	w.Ev("replayed", "id", s.ID, "cb", o.Cb, "fwd", o.Fwd, "stored", o.Stored, "ans", answers, "returned", returned, "urls", o.urls)
	o.mu.Unlock()
}

// bufConn is one end of a BUFFERED in-memory stream (a tube buffers; net.Pipe does not): writes never block.
type bufHalf struct {
	mu     sync.Mutex
	cond   *sync.Cond
	buf    bytes.Buffer
	closed bool
}
type bufConn struct {
	r, w *bufHalf
	dl   time.Time // read deadline (guarded by r.mu)
}

type timeoutErr struct{}

func (timeoutErr) Error() string   { return "i/o timeout" }
func (timeoutErr) Timeout() bool   { return true }
func (timeoutErr) Temporary() bool { return true }

func bufPipe() (net.Conn, net.Conn) {
	a, b := &bufHalf{}, &bufHalf{}
	a.cond, b.cond = sync.NewCond(&a.mu), sync.NewCond(&b.mu)
	return &bufConn{r: a, w: b}, &bufConn{r: b, w: a}
}
func (c *bufConn) Read(p []byte) (int, error) {
	c.r.mu.Lock()
	defer c.r.mu.Unlock()
	for c.r.buf.Len() == 0 {
		if c.r.closed {
			return 0, io.EOF
		}
		if !c.dl.IsZero() && !time.Now().Before(c.dl) {
			return 0, timeoutErr{}
		}
		c.r.cond.Wait()
	}
	return c.r.buf.Read(p)
}
func (c *bufConn) Write(p []byte) (int, error) {
	c.w.mu.Lock()
	defer c.w.mu.Unlock()
	if c.w.closed {
		return 0, io.ErrClosedPipe
	}
	c.w.buf.Write(p)
	c.w.cond.Broadcast()
	return len(p), nil
}
func (c *bufConn) Close() error {
	for _, h := range []*bufHalf{c.r, c.w} {
		h.mu.Lock()
		h.closed = true
		h.cond.Broadcast()
		h.mu.Unlock()
	}
	return nil
}
func (c *bufConn) LocalAddr() net.Addr           { return nil }
func (c *bufConn) RemoteAddr() net.Addr          { return nil }
func (c *bufConn) SetDeadline(t time.Time) error { return c.SetReadDeadline(t) }
func (c *bufConn) SetReadDeadline(t time.Time) error {
	c.r.mu.Lock()
	c.dl = t
	c.r.cond.Broadcast()
	c.r.mu.Unlock()
	if !t.IsZero() {
		time.AfterFunc(time.Until(t)+time.Millisecond, func() {
			c.r.mu.Lock()
			c.r.cond.Broadcast()
			c.r.mu.Unlock()
		})
	}
	return nil
}
func (c *bufConn) SetWriteDeadline(t time.Time) error { return nil }

var pki *hopkit.PKI
var srvIdent, cliIdent *hopkit.Ident

// realHandshake runs a transport handshake client -> target server over a simulated wire with the principal's
// verification callback installed the way hopclient.setupTargetClient installs it.
func realHandshake(verify authgrants.AdditionalVerifyCallback, skipVerify bool) error {
	w := hopkit.NewWorld()
	defer w.Close()
	sa := simwire.Addr("10.0.0.1", 77)
	srv := w.NewServer(sa, hopkit.SrvOpt{Ident: srvIdent})
	pol := pki.Policy("store", "target.example")
	if skipVerify {
		pol = pki.Policy("skip", "")
	}
	pol.AddVerifyCallback = transport.AdditionalVerifyCallback(verify)
	c := w.NewClient(simwire.Addr("10.0.1.1", 1001), sa, hopkit.CliOpt{Ident: cliIdent, Verify: pol})
	return w.RunHandshake(c, srv)
}

func errName(err error) string {
	var ne net.Error
	if errors.As(err, &ne) && ne.Timeout() {
		return "timeout"
	}
	if err == io.EOF {
		return "eof"
	}
	return err.Error()
}

// relay sits between the principal and a real target instance.
func relay(o *obs, s scenario, pc net.Conn, url string) {
	tP, tT := net.Pipe() // relay <-> real target instance
	var cur choice
	var curK int
	tci := func(i authgrants.Intent, cert *certs.Certificate) error {
		if cur.TBeh == "deny" {
			return errors.New("target policy says no")
		}
		return nil
	}
	add := func(i *authgrants.Intent) error {
		if cur.TBeh == "storefail" {
			return errors.New("cannot store the grant")
		}
		o.mu.Lock()
		o.Stored = append(o.Stored, o.which(enc(*i)))
		o.mu.Unlock()
		return nil
	}
	go authgrants.StartTargetInstance(tT, delegateCert, tci, add)
	defer tP.Close()
	for {
		// the relay is transparent at byte level: it parses a COPY to learn the message boundary and what is inside
		var m authgrants.AgMessage
		var raw bytes.Buffer
		if _, err := m.ReadFrom(io.TeeReader(pc, &raw)); err != nil {
			return
		}
		o.mu.Lock()
		o.seq++
		k := 0
		if m.MsgType == authgrants.IntentCommunication {
			k = o.which(enc(m.Data.Intent))
		}
		curK = o.current
		cur = s.Sc[curK-1]
		o.Fwd = append(o.Fwd, []any{k, o.seq, url, int(m.MsgType), curK})
		o.mu.Unlock()
		switch cur.TBeh {
		case "garbage":
			pc.Write([]byte{9})
			continue
		case "close":
			pc.Close()
			return
		}
		if _, err := tP.Write(raw.Bytes()); err != nil {
			pc.Close()
			return
		}
		var a authgrants.AgMessage
		var rawA bytes.Buffer
		if _, err := a.ReadFrom(io.TeeReader(tP, &rawA)); err != nil {
			pc.Close()
			return
		}
		if cur.TBeh == "slowconfirm" {
			time.Sleep(5600 * time.Millisecond) // the answer is on its way for seconds
		}
		if _, err := pc.Write(rawA.Bytes()); err != nil {
			return
		}
	}
}

func main() {
	logrus.SetOutput(io.Discard)
	logrus.SetLevel(logrus.PanicLevel)
	kp := keys.GenerateNewX25519KeyPair()
	var err error
	delegateCert, err = certs.SelfSignLeaf(&certs.Identity{PublicKey: kp.Public, Names: []certs.Name{certs.DNSName("delegate.example")}})
	if err != nil {
		panic(err)
	}
	tk := keys.GenerateNewX25519KeyPair()
	targetCert, err = certs.SelfSignLeaf(&certs.Identity{PublicKey: tk.Public, Names: []certs.Name{certs.DNSName("target.example")}})
	if err != nil {
		panic(err)
	}
	pki = hopkit.NewPKI()
	srvIdent = pki.Issue("valid", "target.example")
	cliIdent = pki.Issue("selfsigned", "principal")
	f, err := os.Open(os.Args[1])
	if err != nil {
		panic(err)
	}
	w := rec.Must(os.Args[2])
	defer w.Close()
	sc := bufio.NewScanner(f)
	sc.Buffer(make([]byte, 1<<20), 1<<24)
	for sc.Scan() {
		var s scenario
		if err := json.Unmarshal(sc.Bytes(), &s); err != nil {
			panic(err)
		}
		runScenario(s, w)
	}
	w.Ev("done")
}
