--------------------------- MODULE MC_TubeReceiver ---------------------------
EXTENDS TubeReceiver, Json
EmitBeh == (steps = MaxSteps) => PrintT(<<"BEH", ToJson(hist)>>)
=============================================================================
