------------------------------ MODULE MC_HopTubes ------------------------------
EXTENDS HopTubes, Json
(* loss patterns that the design-level model explores, emitted as fault schedules for the real tube pair *)
EmitLoss == (loss = MaxLoss) => PrintT(<<"LOSS", ToJson(hist)>>)
=============================================================================
