SPECIFICATION Spec
CONSTANTS Lens = {0, 1, 136, 137, 273}  MaxCalls = 4  DecryptAbsorbs = "ciphertext"
INVARIANT InSync
CHECK_DEADLOCK FALSE
