# C17 — transport connections and deadline queues are safe under concurrent use (DESIGN.md §3 C17)
import json, os, re, concurrent.futures
import lib

VARIANT = "fixed"       # the variant of HopSync.tla that describes the code in /repo (the repaired one; "pinned" is the code as found)

CFG = """SPECIFICATION SimSpec
CONSTANTS
  Threads = {%s}
  MaxCalls = %d
  Cap = %d
  Ops = {%s}
  Variant = "%s"
  MaxItems = 6
INVARIANTS Emit FIFOOnce
CHECK_DEADLOCK FALSE
"""
FAMILIES = [  # name, threads, calls per thread, operations, share of the behaviours
    ("all", 3, 2, ["Recv", "Send", "SetDL", "Cancel", "Close"], 0.3),
    ("recv-setdl-close", 3, 1, ["Recv", "SetDL", "Close"], 0.25),
    ("send-setdl-close", 3, 1, ["Send", "SetDL", "Close"], 0.15),
    ("send-recv-close", 3, 2, ["Send", "Recv", "Close"], 0.2),
    ("four", 4, 1, ["Recv", "Send", "SetDL", "Close"], 0.1),
]

def close_amid_two(b):
    """a Close runs from its first step to its return while at least two other calls are in their middle (each has
    taken a step of its body already and returns only after the Close did): the three-way races of the queue"""
    h = b["hist"]
    for ct in {x["t"] for x in h if x["l"] == "Pick" and x["op"] == "Close"}:
        body = [i for i, x in enumerate(h) if x["t"] == ct and x["op"] == "Close" and x["l"] != "Pick"]
        rets = [i for i, x in enumerate(h) if x["t"] == ct and x["op"] == "Close" and x["l"] == "Ret"]
        if not body or not rets:
            continue
        c0, c1 = body[0], rets[0]
        mid = 0
        for t in {x["t"] for x in h} - {ct}:
            steps = [i for i, x in enumerate(h) if x["t"] == t and x["l"] not in ("Pick", "Ret")]
            ret = [i for i, x in enumerate(h) if x["t"] == t and x["l"] == "Ret"]
            if any(i < c0 for i in steps) and any(i > c1 for i in steps) and (not ret or ret[0] > c1):
                mid += 1
        if mid >= 2:
            return True
    return False

def behaviours(fam, num, depth, seed, variant, cap, want=None):
    name, nt, calls, ops, _ = fam
    cfg = CFG % (", ".join("t%d" % (i + 1) for i in range(nt)), calls, cap, ", ".join('"%s"' % o for o in ops), variant)
    r = lib.tlc("MC_HopSync", "Sim_gen.cfg", workers=1, simulate="num=%d" % num, depth=depth, tlc_seed=seed, timeout=900, files={"Sim_gen.cfg": cfg})
    out, seen = [], set()
    for m in re.finditer(r'<<"BEH", "(.*)">>', r.out):
        b = json.loads(m.group(1).encode().decode("unicode_escape"))
        key = json.dumps([(h["t"], h["l"], h["op"], h["arg"]) for h in b["hist"]])
        if key in seen:
            continue
        seen.add(key)
        if any(h.get("amb") for h in b["hist"]):
            continue    # a select with two ready cases: the code chooses at random, nothing to impose
        if want and not want(b):
            continue
        b["id"] = len(out)
        out.append(b)
    return r, out

def model_results(b):
    """per thread: list of (op, arg, res, item) of the calls that returned in the model"""
    res = {}
    for h in b["hist"]:
        if h["l"] == "Ret":
            res.setdefault(h["t"], []).append((h["op"], h["arg"], h["res"], h["item"] if h["op"] in ("Recv", "Send") and h["res"] in ("item", "ok") else 0))
    return res

def judge_replay(v, b, e, cap):
    """property predicates on what the real queue did (not on the model)"""
    out = []
    prog = [h for h in b["hist"] if h["l"] == "Pick"]
    ops = [(h["op"], h["arg"]) for h in prog]
    desc = " || ".join("%s:[%s]" % (t, ",".join(h["op"] + ("(" + h["arg"] + ")" if h["arg"] != "-" else "") for h in prog if h["t"] == t)) for t in sorted({h["t"] for h in prog}))
    has_close = any(o == "Close" for o, _ in ops)
    has_dl = any(o == "SetDL" and a in ("past", "future") for o, a in ops)
    has_cancel = any(o == "Cancel" for o, _ in ops)
    results = e["results"] or []
    # every call returns once Close was called (gates open, grace period over)
    if e["pending_free"] and has_close:
        out.append(("calls never return although Close was called: %s pending with all schedule points open | %s" % (",".join(sorted(x.split(":")[1] for x in e["pending_free"])), desc), "stuck"))
    sent = [r["item"] for r in results if r["op"] == "Send" and r["res"] == "ok"]
    got = [r["item"] for r in results if r["op"] == "Recv" and r["res"] == "item"]
    for r in results:
        if r["res"] == "timeout" and not has_dl:
            out.append(("%s returned a timeout although no deadline was ever set | %s" % (r["op"], desc), "res"))
        if r["res"] == "eof" and not has_close:
            out.append(("%s returned end-of-stream although Close was never called | %s" % (r["op"], desc), "res"))
        if r["res"] == "cancel" and not has_cancel:
            out.append(("%s returned the cancel error although Cancel was never called | %s" % (r["op"], desc), "res"))
        if r["res"].startswith("err:") or (r["res"] == "ok" and r["op"] == "Recv"):
            out.append(("%s returned %s | %s" % (r["op"], r["res"], desc), "res"))
        if r["op"] in ("Recv", "Send") and r["res"] in ("none", ""):
            out.append(("%s returned neither a value nor an error | %s" % (r["op"], desc), "res"))
    if len(set(got)) != len(got):
        out.append(("an item was taken twice: %s | %s" % (got, desc), "fifo"))
    if any(g not in sent and g not in [h["item"] for h in prog] for g in got):
        out.append(("Recv returned an item nobody put on the queue: %s | %s" % (got, desc), "fifo"))
    if not e["pending_free"]:
        # nothing lost: every accepted item was taken by a Recv of the program or is handed out after close,
        # before end-of-stream
        drained = e["drained"] or []
        if sorted(got + drained) != sorted(sent):
            out.append(("items accepted by Send %s, items handed out %s + after close %s | %s" % (sent, got, drained, desc), "lost"))
        if e["drain_end"] != "eof":
            out.append(("after Close and draining, Recv ends with %s instead of end-of-stream | %s" % (e["drain_end"], desc), "eof"))
    closes = [r["res"] for r in results if r["op"] == "Close"]
    if closes.count("ok") > 1 or any(c not in ("ok", "eof") for c in closes):
        out.append(("Close results %s: more than one caller was told that it closed the queue | %s" % (closes, desc), "close"))
    return out

def conn_part(v, thorough, sd):
    """transport Client / Server / Handle: HopConn.tla (design) + concurrent scenarios on the real objects"""
    r = lib.tlc("HopConn", "HopConn.cfg", timeout=600)
    lib.tlc_must_pass(r, "HopConn"); v.add_tlc("HopConn.cfg (close election, handshake publication: same result, nothing left, termination)", r)
    r = lib.tlc("HopConn", "HopConn_bad.cfg", timeout=300)
    v.add_tlc("HopConn_bad.cfg (Close does not wait for the in-flight handshake: must be found)", r)
    if r.kind != "invariant":
        raise lib.Inconclusive("self-test: the no-wait variant of HopConn is not detected (%s)" % r.kind)
    binp = lib.go_build("c17conn", race=True)
    seeds = [lib.seed() + 1000 * k for k in range(6 if thorough else 2)]
    rounds = 3 if thorough else 1
    def child(sdd):
        out = os.path.join(sd, "conn-%d.ndjson" % sdd)
        rc, so, se = lib.run([binp, out, str(sdd), str(rounds)], timeout=900, env=dict(os.environ, GORACE="halt_on_error=1"))
        return sdd, rc, out, (so + se)[-5000:]
    events = []
    with concurrent.futures.ThreadPoolExecutor(max_workers=6) as ex:
        for sdd, rc, out, tail in ex.map(child, seeds):
            evs = lib.read_ndjson(out) if os.path.exists(out) else []
            if rc is None:
                raise lib.Inconclusive("c17conn seed %s timed out" % sdd)
            if rc != 0 and not any(e["ev"] == "done" for e in evs):
                race = "WARNING: DATA RACE" in tail
                if race and lib.REPO_MARK not in tail:
                    raise lib.Inconclusive("data race inside the driver itself:\n" + tail[-1500:])
                last = [e for e in evs if e["ev"] == "scenario"][-1:] or [{}]
                reason = ("data race: " + " | ".join([l.strip().split(" ")[0] for l in tail.split("\n") if lib.REPO_MARK in l][:3])) if race else ([l for l in tail.split("\n") if l.startswith("panic:") or "fatal error" in l] or ["exit %s" % rc])[0]
                evs.append(dict(ev="crash", reason=reason[:400], scenario={k: x for k, x in last[0].items() if k != "ev"}))
            events += [dict(e, seed=sdd) for e in evs if e["ev"] in ("call", "leak", "crash", "stuck")]
            for e in evs:
                if e["ev"] == "scenario":
                    v.case(("conn", json.dumps({k: x for k, x in e.items() if k != "ev"}, sort_keys=True), sdd), nontrivial=True)
    tr = os.path.join(sd, "conn-trace.ndjson")
    lib.write_ndjson(tr, events or [dict(ev="none")])
    r = lib.tlc("Trace_HopConn", "Trace_HopConn.cfg", files={"trace.ndjson": "@" + tr}, workers=1, timeout=900)
    v.add_tlc("Trace_HopConn", r)
    if not r.ok:
        raise lib.Inconclusive("connection trace not consumed: %s\n%s" % (r.kind, r.out[-1500:]))
    v.cov["conn_calls_recorded"] = sum(1 for e in events if e["ev"] == "call")
    v.cov["traces_validated_against_impl"] += len(seeds)
    calls = [e for e in events if e["ev"] == "call"]
    if calls:
        v.sample(calls[0])
    seen = set()
    for m in re.finditer(r'<<"MISMATCH", (\d+)>>', r.out):
        e = events[int(m.group(1)) - 1]
        if e["ev"] == "crash":
            sig = "crash: %s | scenario %s" % (e["reason"][:200], e.get("scenario"))
        elif e["ev"] == "stuck":
            sig = "driver watchdog: scenarios did not finish within %s s" % e.get("after_s")
        elif e["ev"] == "leak":
            sig = "goroutine leak: %d goroutines of the transport package alive after everything was closed, e.g. %s" % (e["goroutines"], re.sub(r"0x[0-9a-f]+", "..", e["sample"])[:100])
        else:
            ctx = " ".join("%s=%s" % (k, e[k]) for k in ("at", "kind", "clients", "msgs", "closers", "sockerr", "extrahs") if k in e)
            if e["ret"] != "yes":
                sig = "%s %s never returned (pending after %s ms) | %s" % (e["obj"], e["op"], e["ms"], ctx)
            elif e["op"] in ("postread", "postaccept"):
                sig = "%s after Close: %s handed out of %s queued before the close, then %s | %s" % (e["obj"], e["got"], e["queued"], e["res"], ctx)
            elif e["op"] in ("close", "closeset", "close-again"):
                sig = "%s Close results differ between callers or from the socket's result: %s %s (socket close %s) | %s" % (e["obj"], e["op"], e["res"], "fails" if e["sockerr"] == "yes" else "succeeds", ctx)
            else:
                sig = "%s %s returned %s%s | %s" % (e["obj"], e["op"], e["res"], " (expected " + e["want"] + ")" if "want" in e else "", ctx)
        key = re.sub(r" \| .*", "", sig)
        if key in seen:
            continue
        seen.add(key)
        v.violation(sig, "concurrent scenario on real transport objects (race detector build, perturbed schedule), judged by Trace_HopConn", e)

def run(v, tier, replay):
    thorough = tier == "thorough"
    cap = 1
    v.assumptions += ["HopSync.tla models common/sync.go at the granularity of its atomic steps; every step of the code has a verif schedule point in front of it with the same label",
                      "replay: TLC-generated behaviours (program and interleaving) are imposed on the real queue step by step; queue length compared after every step, results of all calls at the end",
                      "a lock-up is reported only when the calls are still pending on the real queue 1.5 s after all schedule points were opened"]
    # 1. the design: exhaustive for all programs of 3 threads x 1 call and 2 threads x 2 calls
    for cfg in ["HopSync_3x1.cfg", "HopSync_2x2.cfg"] + (["HopSync_4x1.cfg"] if thorough else []):
        r = lib.tlc("HopSync", cfg, timeout=3000)
        lib.tlc_must_pass(r, cfg); v.add_tlc(cfg + " (fixed variant: every call returns after Close, FIFO once)", r)
    r = lib.tlc("HopSync", "HopSync_pinned.cfg", timeout=600)
    v.add_tlc("HopSync_pinned.cfg (the code as found: TLC must find the lock-up)", r)
    if r.kind != "invariant":
        raise lib.Inconclusive("self-test: the pinned variant's lock-up is not found by TLC (%s)" % r.kind)
    # 2. replay TLC behaviours of the variant that describes the code
    binp = lib.go_build("c17")
    sd = lib.scratch("vf-c17-")
    total = 24000 if thorough else 5000
    behs = []
    for fam in FAMILIES:
        r, bs = behaviours(fam, int(total * fam[4]), 90, lib.seed(), VARIANT, cap)
        v.add_tlc("MC_HopSync simulation, family %s (behaviour generation)" % fam[0], r)
        if len(bs) < 50:
            raise lib.Inconclusive("too few behaviours generated for family %s: %d\n%s" % (fam[0], len(bs), r.out[-800:]))
        for b in bs:
            b["id"] = len(behs); b["family"] = fam[0]
            behs.append(b)
        v.cov["behaviours_" + fam[0]] = len(bs)
    # directed sampling: many more simulations of the one-call programs, of which only the three-way races around a
    # Close are kept (a Close that runs entirely while two other calls are in their middle)
    fam = ("close-amid-two", 3, 1, ["Recv", "Send", "SetDL", "Close"], 0)
    r, bs = behaviours(fam, 30000 if thorough else 9000, 90, lib.seed() + 17, VARIANT, cap, want=close_amid_two)
    v.add_tlc("MC_HopSync simulation, family close-amid-two (behaviour generation, filtered)", r)
    for b in bs[:1500 if thorough else 500]:
        b["id"] = len(behs); b["family"] = fam[0]
        behs.append(b)
    v.cov["behaviours_close-amid-two"] = min(len(bs), 1500 if thorough else 500)
    NP = 12
    # counterexamples of the design property in the variant that describes the code: confirmed on the code
    for ops, r, b in directed_counterexamples(VARIANT, cap):
        v.add_tlc("HopSync %s, operations %s: NoStuckAfterClose" % (VARIANT, "/".join(ops)), r)
        if b is not None:
            b["id"] = len(behs); b["family"] = "counterexample"
            behs.append(b)
            v.count("design_counterexamples")
        elif not r.ok:
            raise lib.Inconclusive("TLC failed on the directed configuration %s: %s" % (ops, r.kind))
    chunks = [behs[i::NP] for i in range(NP)]
    def child(i):
        inp = os.path.join(sd, "beh-%d.ndjson" % i); out = os.path.join(sd, "rep-%d.ndjson" % i)
        lib.write_ndjson(inp, chunks[i])
        rc, so, se = lib.run([binp, "replay", inp, out, str(cap)], timeout=1500)
        return i, rc, out, (so + se)[-3000:]
    byid = {b["id"]: b for b in behs}
    n_div = n_ok = n_res_diff = 0
    unexplained = []
    with concurrent.futures.ThreadPoolExecutor(max_workers=NP) as ex:
        for i, rc, out, tail in ex.map(child, range(NP)):
            evs = lib.read_ndjson(out) if os.path.exists(out) else []
            if rc != 0 or not any(e["ev"] == "done" for e in evs):
                raise lib.Inconclusive("replay child %d failed: rc=%s\n%s" % (i, rc, tail))
            for e in evs:
                if e["ev"] != "replayed":
                    continue
                b = byid[e["id"]]
                v.case(("replay", json.dumps([(h["t"], h["op"], h["arg"]) for h in b["hist"] if h["l"] == "Pick"])), nontrivial=True)
                v.count("behaviours_replayed")
                v.count("steps_replayed", e["at_step"] + 1)
                for sig, kind in judge_replay(v, b, e, cap):
                    v.violation(sig, "TLC behaviour imposed on the real queue through the schedule points", dict(behaviour=b, observed=e))
                if e["status"] == "stale":
                    v.count("replay_skipped_stale_deadline")
                    continue
                if e["status"] != "ok":
                    n_div += 1
                    unexplained.append(e["detail"])
                    if os.environ.get("C17_DEBUG"):
                        with open(os.environ["C17_DEBUG"], "a") as fh:
                            fh.write(json.dumps(dict(b=b, e=e)) + "\n")
                    continue
                n_ok += 1
                # conformance: results of the calls that returned under the gates equal the model's
                mr = model_results(b)
                gr = {}
                for x in e["gated_results"] or []:
                    gr.setdefault(x["t"], []).append((x["op"], x["arg"], x["res"], x["item"] if x["res"] in ("item", "ok") and x["op"] in ("Recv", "Send") else 0))
                if mr != gr:
                    n_res_diff += 1
                    unexplained.append("results differ: model %s code %s" % (mr, gr))
                    if os.environ.get("C17_DEBUG"):
                        with open(os.environ["C17_DEBUG"], "a") as fh:
                            fh.write(json.dumps(dict(b=b, e=e)) + "\n")
                if b["stuck"] and b["closeCalled"] and not e["pending_free"]:
                    unexplained.append("the model's lock-up did not reproduce on the code: behaviour %d" % b["id"])
    v.cov["replay_conformant"] = n_ok - n_res_diff
    v.cov["replay_diverged"] = n_div
    v.cov["replay_result_differences"] = n_res_diff
    v.cov["traces_validated_against_impl"] = n_ok
    v.sample(dict(program=[(h["t"], h["op"], h["arg"]) for h in behs[0]["hist"] if h["l"] == "Pick"], steps=len(behs[0]["hist"])))
    conn_part(v, thorough, sd)
    if unexplained and not v.viol:
        raise lib.Inconclusive("%d behaviours where model and code differ without a property being violated, e.g. %s" % (len(unexplained), unexplained[:3]))
    if unexplained:
        v.cov["unexplained_examples"] = unexplained[:3]

def trace_to_behaviour(out):
    """TLC error trace of HopSync (text) -> behaviour in the replay format"""
    hist = []
    states = re.split(r"\nState (\d+): ", out)
    prev = None
    def fn(body, var):
        m = re.search(r"/\\ %s = \(([^\n]*)\)" % var, body)
        d = {}
        if m:
            for part in m.group(1).split(" @@ "):
                k, val = part.split(" :> ")
                d[k.strip().strip('"')] = val.strip().strip('"')
        return d
    for i in range(1, len(states) - 1, 2):
        body = states[i + 1]
        m = re.match(r"<(\w+)(?:\((\w+)\))? line", body)
        cur = dict(op=fn(body, "op"), arg=fn(body, "arg"), item=fn(body, "item"), res=fn(body, "res"), pc=fn(body, "pc"),
                   cb=int(re.search(r"/\\ cb = (\d+)", body).group(1)),
                   qlen=len([x for x in re.search(r"/\\ C = <<(.*?)>>", body).group(1).split(",") if x.strip()]))
        if m:
            lab, t = m.group(1), m.group(2)
            if lab in ("Timer", "W"):
                hist.append(dict(t="timer", l="fire" if cur["cb"] > prev["cb"] else "run", op="-", arg="-", item=0, res="-", qlen=cur["qlen"]))
            else:
                l = "Exit" if cur["pc"].get(t) == "Done" else lab
                hist.append(dict(t=t, l=l, op=cur["op"][t], arg=cur["arg"][t], item=int(cur["item"][t]), res=cur["res"][t], qlen=cur["qlen"]))
        prev = cur
    return dict(stuck=True, closeCalled=True, timerLive=False, blocked=prev["pc"] if prev else {}, hist=hist)

def directed_counterexamples(variant, cap):
    """counterexamples of NoStuckAfterClose for op subsets, as replayable behaviours"""
    res = []
    for ops in (["Send", "Close"], ["Recv", "SetDL", "Close"], ["Send", "SetDL", "Close"]):
        cfg = ("SPECIFICATION Spec\nCONSTANTS\n Threads = {t1, t2, t3}\n MaxCalls = 1\n Cap = %d\n Ops = {%s}\n Variant = \"%s\"\n MaxItems = 3\n"
               "INVARIANTS NoStuckAfterClose\nCHECK_DEADLOCK FALSE\n") % (cap, ", ".join('"%s"' % o for o in ops), variant)
        r = lib.tlc("HopSync", "Dir_gen.cfg", workers=1, timeout=600, files={"Dir_gen.cfg": cfg})
        if r.kind == "invariant":
            b = trace_to_behaviour(r.out)
            b["ops"] = ops
            res.append((ops, r, b))
        else:
            res.append((ops, r, None))
    return res

if __name__ == "__main__":
    import sys
    for ops, r, b in directed_counterexamples(sys.argv[1], 1):
        print(ops, r.kind, b and [(h["t"], h["l"]) for h in b["hist"]])
