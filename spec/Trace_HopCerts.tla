--------------------------- MODULE Trace_HopCerts ---------------------------
(* Trace validation for the bit-flip and issuance clauses of C04.                            *)
(*  flip    a single bit of a verified leaf / intermediate was flipped and the result was    *)
(*          verified again.  Abstractly a flipped leaf is a leaf whose signature no longer   *)
(*          matches its to-be-signed bytes (signer "X"); a flipped intermediate has another  *)
(*          fingerprint than the one the leaf names (leaf parent "zero").  ValidChain of     *)
(*          these configurations is the verdict demanded.                                    *)
(*  issue   IssueLeafAt(parent window, at, dur): error / resulting window, judged by         *)
(*          IssueWin.  vissued: the issued leaf verified at instant t, judged by half-open   *)
(*          window membership (parent and root are valid throughout, by IssuedChainsVerify). *)
EXTENDS HopCerts

Trace == ndJsonDeserialize("trace.ndjson")
VARIABLES l, bad
Ev == Trace[l]

FlipClass(which) == IF which = "leaf" THEN [Base1 EXCEPT !.Lsig = "X"]
                    ELSE IF which = "inter-presented" THEN [Base2 EXCEPT !.Lpar = "zero"]
                    ELSE [Base1 EXCEPT !.Lpar = "zero"]

Good(e) ==
    CASE e.ev = "flipbase" -> e.got = "ok" /\ ValidChain(Base1)
      [] e.ev = "flip"  -> (e.got = "ok") = ValidChain(FlipClass(e.which))
      [] e.ev = "issue" -> LET w == IssueWin(e.pw, e.at, e.dur)
                           IN  IF w = <<>> THEN e.err = "yes" ELSE e.err = "no" /\ e.w = w
      [] e.ev = "vissued" -> (e.ok = "yes") = (e.w[1] <= e.t /\ e.t < e.w[2])
      \* an identity the issuing functions accepted: the certificate as a peer receives it parses, and verifies for
      \* exactly the names the issuer was asked to certify (MatchesName: the (type, label) pair is among them)
      [] e.ev = "vname" -> e.issued = "yes" => (e.reparse = "ok" /\ (e.ok = "yes") = (e.certified = "yes"))
      [] OTHER -> FALSE

TInit == l = 1 /\ bad = 0 /\ cfg = Base1
TNext == /\ l <= Len(Trace) /\ l' = l + 1 /\ UNCHANGED cfg
         /\ IF Good(Ev) THEN bad' = bad ELSE bad' = bad + 1 /\ PrintT(<<"MISMATCH", l>>)
TSpec == TInit /\ [][TNext]_<<l, bad, cfg>>
HW == TLCSet(1, l)
Accepted == TLCGet(1) = Len(Trace) + 1
=============================================================================
