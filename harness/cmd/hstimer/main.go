// hstimer reproduces on a real transport server the behaviour TLC finds in spec/HopHsTimer.tla: the timeout
// timer of a FINISHED handshake deletes the state of a later handshake from the same address.
//
//	hstimer [timeout-ms] [control]     prints one JSON line: did the second handshake (much younger than the timeout) complete?
//
// Not one of the listed properties; an observation recorded in DESIGN.md (specification growth).
package main

import (
	"encoding/json"
	"fmt"
	"io"
	"os"
	"strconv"
	"time"

	"github.com/sirupsen/logrus"

	"verif/harness/hopkit"
	"verif/harness/simwire"
)

func main() {
	logrus.SetOutput(io.Discard)
	tmo := 600
	if len(os.Args) > 1 {
		tmo, _ = strconv.Atoi(os.Args[1])
	}
	pki := hopkit.NewPKI()
	sid, cid := pki.Issue("valid", "a.example"), pki.Issue("selfsigned", "client")
	w := hopkit.NewWorld()
	sa, ca := simwire.Addr("10.0.0.1", 77), simwire.Addr("10.0.1.1", 1001)
	s := w.NewServer(sa, hopkit.SrvOpt{Ident: sid, HSTimeout: time.Duration(tmo) * time.Millisecond})
	// handshake 1 completes at once
	t0 := time.Now()
	var err1 error = fmt.Errorf("not run (control)")
	if len(os.Args) < 3 || os.Args[2] != "control" { // control: no earlier handshake, everything else the same
		c1 := w.NewClient(ca, sa, hopkit.CliOpt{Ident: cid, Verify: pki.Policy("store", "a.example")})
		err1 = w.RunHandshake(c1, s)
		c1.T.Close()
	}
	// handshake 2 from the SAME address starts at 60 % of the timeout and is held between ClientAck and ClientAuth
	time.Sleep(time.Until(t0.Add(time.Duration(tmo) * 6 / 10 * time.Millisecond)))
	c2 := w.NewClient(ca, sa, hopkit.CliOpt{Ident: cid, Verify: pki.Policy("store", "a.example")})
	c2.Start()
	step := func() bool { // one client datagram to the server, the reply back
		c2.WaitStep()
		out := w.Net.TakeFrom(c2.EP)
		if len(out) == 0 {
			return false
		}
		s.EP.Deliver(out[0].Data, ca, hopkit.StepTimeout)
		for _, d := range w.Net.TakeFrom(s.EP) {
			c2.EP.Inject(d.Data, sa)
		}
		return true
	}
	t2 := time.Now()
	step() // ClientHello -> ServerHello
	step() // ClientAck (state created, timer 2 armed) -> ServerAuth
	// wait until timer 1 has fired (handshake 2 is then 50 % of the timeout old)
	time.Sleep(time.Until(t0.Add(time.Duration(tmo) * 11 / 10 * time.Millisecond)))
	age := time.Since(t2)
	step() // ClientAuth
	c2.WaitStep()
	done, err2 := c2.Finished()
	if !done {
		c2.Abort()
		_, err2 = c2.Finished()
	}
	offered := 0
	for k := 0; k < 3; k++ {
		if _, err := s.T.AcceptTimeout(200 * time.Millisecond); err == nil {
			offered++
		}
	}
	attempted := 2
	if err1 != nil {
		attempted = 1
	}
	b, _ := json.Marshal(map[string]any{"timeout_ms": tmo, "earlier_handshake": fmt.Sprint(err1), "held_handshake_age_ms": age.Milliseconds(),
		"held_handshake_client_result": fmt.Sprint(err2), "handshakes_attempted": attempted, "connections_offered_by_server": offered})
	fmt.Println(string(b))
	w.Close()
}
