package tubes

// Verification driver (added with `go test -overlay`): replays behaviours emitted by TLC from
// TubeReceiver.tla on the real receiver and compares the observable state after every step.

import (
	"bufio"
	"encoding/json"
	"fmt"
	"io"
	"os"
	"testing"

	"github.com/sirupsen/logrus"
)

type vfStep struct {
	N      uint64 `json:"n"`
	K      string `json:"k"`
	Res    string `json:"res"`
	Fin    bool   `json:"fin"`
	Next   uint64 `json:"next"`
	Buf    int    `json:"buf"`
	Closed bool   `json:"closed"`
}

func TestVerifReceiverReplay(t *testing.T) {
	in, out := os.Getenv("VT_IN"), os.Getenv("VT_OUT")
	if in == "" || out == "" {
		t.Skip("VT_IN/VT_OUT not set")
	}
	logrus.SetOutput(io.Discard)
	fi, err := os.Open(in)
	if err != nil {
		t.Fatal(err)
	}
	defer fi.Close()
	fo, err := os.Create(out)
	if err != nil {
		t.Fatal(err)
	}
	defer fo.Close()
	w := bufio.NewWriter(fo)
	defer w.Flush()
	sc := bufio.NewScanner(fi)
	sc.Buffer(make([]byte, 1<<20), 1<<20)
	// frame numbers are 32 bit on the wire and unwrapped to 64 bit by the receiver: every behaviour is run at
	// several bases (the receiver's counters are set white-box)
	bases := []uint64{0, 1<<31 - 2, 1<<32 - 3, 1<<32 - 1, 1 << 32, 3<<32 - 2, 1<<33 + 77}
	nb, nsteps, bad := 0, 0, 0
	for sc.Scan() {
		var beh []vfStep
		if err := json.Unmarshal(sc.Bytes(), &beh); err != nil {
			t.Fatal(err)
		}
		nb++
		for _, base := range bases[:1+nb%len(bases)] {
			r := newReceiver(logrus.NewEntry(logrus.StandardLogger()))
			r.ackNo, r.windowStart = base, base+1
			kindOf := map[uint64]string{}
			for i, st := range beh {
				nsteps++
				real := base + st.N
				fr := &frame{frameNo: uint32(real), tubeID: 1}
				switch st.K {
				case "data":
					fr.data = []byte(fmt.Sprintf("<%d>", st.N))
					fr.dataLength = uint16(len(fr.data))
				case "fin":
					fr.flags.FIN, fr.flags.ACK = true, true
				case "ack":
					fr.flags.ACK = true
				}
				fin, err := r.receive(fr)
				res := "ok"
				if err == io.EOF {
					res = "eof"
				} else if err == errFrameOutOfBounds {
					res = "oob"
				} else if err != nil {
					res = "err:" + err.Error()
				}
				r.m.Lock()
				ws, ack, blen, closed := r.windowStart, r.ackNo, r.buffer.Len(), r.closed.Load()
				content := r.buffer.String()
				r.m.Unlock()
				// expected buffer content: <k> for every delivered data frame k, nothing for a delivered FIN
				prevNext := uint64(1)
				if i > 0 {
					prevNext = beh[i-1].Next
				}
				if (st.K == "data" || st.K == "fin") && st.Res == "ok" && st.N >= prevNext && st.N <= prevNext+maxWindowSize {
					if _, seen := kindOf[st.N]; !seen {
						kindOf[st.N] = st.K
					}
				}
				want := ""
				for k := uint64(1); k <= uint64(st.Buf); k++ {
					if kindOf[k] == "data" {
						want += fmt.Sprintf("<%d>", k)
					}
				}
				okContent := content == want
				if res != st.Res || fin != st.Fin || ws != base+st.Next || ack != base+st.Next-1 || closed != st.Closed || !okContent || blen != len(want) {
					bad++
					b, _ := json.Marshal(map[string]interface{}{"ev": "mismatch", "behaviour": nb, "step": i, "base": fmt.Sprint(base), "n": st.N, "k": st.K,
						"want": st, "got": map[string]interface{}{"res": res, "fin": fin, "next": ws - base, "ack": ack - base, "closed": closed, "buffer": content}, "steps": beh[:i+1]})
					w.Write(append(b, '\n'))
					break
				}
			}
		}
	}
	b, _ := json.Marshal(map[string]interface{}{"ev": "summary", "behaviours": nb, "steps": nsteps, "mismatches": bad})
	w.Write(append(b, '\n'))
}
