SPECIFICATION Spec
CONSTANTS K = 4
INVARIANTS DecideIsValidChain BasesValid Issuance Emit
CHECK_DEADLOCK FALSE
