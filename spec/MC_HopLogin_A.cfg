SPECIFICATION Spec
CONSTANTS Users = {"u1", "u2"}  Keys = {"k1", "k2", "k3"}
  MaxHist = 2  Enabled = TRUE
  Files1 <- FilesA
PROPERTIES LoginOnlyIfAllowed FailClosed GrantsConsumed
INVARIANT Emit
CHECK_DEADLOCK FALSE
