----------------------------- MODULE HopTubesLive -----------------------------
(* Liveness of the reliable tube protocol (the "complete" clause of C08 and the termination clause *)
(* of C16 at protocol level): if the network loses only finitely many frames, every frame that is   *)
(* written is eventually delivered, and once both ends have closed both reach the closed state.     *)
(*                                                                                                 *)
(* Same protocol as HopTubes.tla (sender frames / cumulative acknowledgement, receiver window,      *)
(* FIN state machine) in a form whose state space is finite WITHOUT transmission counters, so that  *)
(* fairness can be stated without a bound hiding a non-progress cycle: the network is a SET of      *)
(* frames per direction (a retransmission of a frame that is still in flight adds nothing;          *)
(* duplication is delivery without removal), losses are bounded by MaxLoss, everything else is      *)
(* unbounded.  Fairness: weak fairness of every local step (Write, Close, each Transmit, SendAck)    *)
(* and of the delivery of each individual frame.                                                    *)
(* Timers: LastAckTimeout is included (it is what ends lastAck when the final ACK is lost); the      *)
(* code has no timer for finWait1 / finWait2 - with a fair network none is needed, which is what     *)
(* BothClose shows; with a dead network HopTubes!NoOrphan shows the opposite.                        *)
EXTENDS Integers, Sequences, FiniteSets, TLC
CONSTANTS D, Win, MaxLoss, LingerOutlastsLoss

Ends == {"A", "B"}
Peer(e) == IF e = "A" THEN "B" ELSE "A"
ToWrite(e) == IF e = "A" THEN D ELSE 0
MaxNo == D + 2
Frames == [kind : {"data", "fin", "ack"}, no : 1..MaxNo, ack : 1..MaxNo]

VARIABLES st, sf, sAck, sNext, finSent, wrote, rNext, rFrags, rBuf, rClosed, net, loss, finTx
vars == <<st, sf, sAck, sNext, finSent, wrote, rNext, rFrags, rBuf, rClosed, net, loss, finTx>>

Init == /\ st = [e \in Ends |-> "initiated"]
        /\ sf = [e \in Ends |-> <<>>] /\ sAck = [e \in Ends |-> 1] /\ sNext = [e \in Ends |-> 1]
        /\ finSent = [e \in Ends |-> FALSE] /\ wrote = [e \in Ends |-> 0]
        /\ rNext = [e \in Ends |-> 1] /\ rFrags = [e \in Ends |-> {}] /\ rBuf = [e \in Ends |-> <<>>]
        /\ rClosed = [e \in Ends |-> FALSE]
        /\ net = [e \in Ends |-> {}] /\ loss = 0 /\ finTx = [e \in Ends |-> 0]

Write(e) ==
    /\ st[e] \in {"initiated", "closeWait"} /\ ~finSent[e] /\ wrote[e] < ToWrite(e)
    /\ sf' = [sf EXCEPT ![e] = Append(@, [no |-> sNext[e], kind |-> "data"])]
    /\ sNext' = [sNext EXCEPT ![e] = @ + 1] /\ wrote' = [wrote EXCEPT ![e] = @ + 1]
    /\ UNCHANGED <<st, sAck, finSent, rNext, rFrags, rBuf, rClosed, net, loss, finTx>>

(* the application closes when it has written everything (A) / when it has seen end-of-stream (B) *)
Close(e) ==
    /\ st[e] \in {"initiated", "closeWait"} /\ wrote[e] = ToWrite(e)
    /\ (e = "B" => rClosed[e])
    /\ st' = [st EXCEPT ![e] = IF @ = "initiated" THEN "finWait1" ELSE "lastAck"]
    /\ finSent' = [finSent EXCEPT ![e] = TRUE]
    /\ sf' = [sf EXCEPT ![e] = Append(@, [no |-> sNext[e], kind |-> "fin"])]
    /\ sNext' = [sNext EXCEPT ![e] = @ + 1]
    /\ UNCHANGED <<sAck, wrote, rNext, rFrags, rBuf, rClosed, net, loss, finTx>>

Transmit(e, i) ==
    /\ st[e] # "closed" /\ i \in 1..Len(sf[e]) /\ i <= Win
    /\ LET f == [kind |-> sf[e][i].kind, no |-> sf[e][i].no, ack |-> rNext[e]] IN
       /\ net' = [net EXCEPT ![Peer(e)] = @ \cup {f}]
       \* FIN (re)transmissions while lingering in lastAck that really put a frame on the wire, counted up to MaxLoss + 1
       /\ finTx' = IF f.kind = "fin" /\ st[e] = "lastAck" /\ f \notin net[Peer(e)] /\ finTx[e] <= MaxLoss
                   THEN [finTx EXCEPT ![e] = @ + 1] ELSE finTx
    /\ UNCHANGED <<st, sf, sAck, sNext, finSent, wrote, rNext, rFrags, rBuf, rClosed, loss>>

SendAck(e) ==
    /\ st[e] # "closed"
    /\ net' = [net EXCEPT ![Peer(e)] = @ \cup {[kind |-> "ack", no |-> sNext[e], ack |-> rNext[e]]}]
    /\ UNCHANGED <<st, sf, sAck, sNext, finSent, wrote, rNext, rFrags, rBuf, rClosed, loss, finTx>>

RECURSIVE Drain(_, _, _, _)
Drain(nx, fr, bf, cl) ==
    IF \E x \in fr : x.no = nx
    THEN LET x == CHOOSE y \in fr : y.no = nx
         IN  Drain(nx + 1, {y \in fr : y.no # nx}, IF x.fin THEN bf ELSE Append(bf, nx), cl \/ x.fin)
    ELSE <<nx, {y \in fr : y.no > nx}, bf, cl>>

Recv(e, f, keep) ==
    /\ f \in net[e]
    /\ net' = [net EXCEPT ![e] = IF keep THEN @ ELSE @ \ {f}]
    /\ IF st[e] = "closed"
       THEN UNCHANGED <<st, sf, sAck, rNext, rFrags, rBuf, rClosed>>          \* the tube is gone: the frame is dropped
       ELSE LET carriesAck == f.kind \in {"ack", "fin"}
                buffered   == f.kind \in {"data", "fin"} /\ ~rClosed[e] /\ rNext[e] <= f.no
                d          == IF rClosed[e] THEN <<rNext[e], rFrags[e], rBuf[e], TRUE>>
                              ELSE Drain(rNext[e], IF buffered THEN rFrags[e] \cup {[no |-> f.no, fin |-> f.kind = "fin"]} ELSE rFrags[e], rBuf[e], FALSE)
                finNow     == ~rClosed[e] /\ d[4]
                newAck     == IF carriesAck /\ f.ack > sAck[e] /\ f.ack <= sNext[e] THEN f.ack ELSE sAck[e]
                popped     == newAck - sAck[e]
                sf1        == SubSeq(sf[e], popped + 1, Len(sf[e]))
                st5        == IF carriesAck /\ st[e] # "initiated" /\ Len(sf1) = 0
                              THEN CASE st[e] = "finWait1" -> "finWait2"
                                     [] st[e] \in {"closing", "lastAck"} -> "closed"
                                     [] OTHER -> st[e]
                              ELSE st[e]
                finEv      == (f.kind = "fin" /\ d[4]) \/ finNow
                st6        == IF finEv /\ st5 # "closed"
                              THEN CASE st5 = "initiated" -> "closeWait"
                                     [] st5 = "finWait1" -> "closing"
                                     [] st5 = "finWait2" -> "closed"
                                     [] OTHER -> st5
                              ELSE st5
            IN /\ rNext' = [rNext EXCEPT ![e] = d[1]] /\ rFrags' = [rFrags EXCEPT ![e] = d[2]]
               /\ rBuf' = [rBuf EXCEPT ![e] = d[3]] /\ rClosed' = [rClosed EXCEPT ![e] = d[4] \/ st6 = "closed"]
               /\ sAck' = [sAck EXCEPT ![e] = newAck] /\ sf' = [sf EXCEPT ![e] = sf1]
               /\ st' = [st EXCEPT ![e] = st6]
    /\ UNCHANGED <<sNext, finSent, wrote, loss, finTx>>

Lose(e, f) ==
    /\ f \in net[e] /\ loss < MaxLoss
    /\ loss' = loss + 1 /\ net' = [net EXCEPT ![e] = @ \ {f}]
    /\ UNCHANGED <<st, sf, sAck, sNext, finSent, wrote, rNext, rFrags, rBuf, rClosed, finTx>>

(* LingerOutlastsLoss: the linger timer of lastAck does not fire before the FIN has been put on the wire more often *)
(* than the network loses frames (the code's timer is a multiple of the retransmission interval).  With         *)
(* LingerOutlastsLoss = FALSE the timer may fire at any time and TLC exhibits the orphan of finding              *)
(* F-C16-finwait-orphan even on a fair network: B gives up before its FIN ever arrived, A waits in finWait2.     *)
LastAckTimeout(e) ==
    /\ st[e] = "lastAck" /\ (LingerOutlastsLoss => finTx[e] > MaxLoss)
    /\ st' = [st EXCEPT ![e] = "closed"] /\ rClosed' = [rClosed EXCEPT ![e] = TRUE]
    /\ UNCHANGED <<sf, sAck, sNext, finSent, wrote, rNext, rFrags, rBuf, net, loss, finTx>>

Next == \/ \E e \in Ends : Write(e) \/ Close(e) \/ SendAck(e) \/ LastAckTimeout(e)
        \/ \E e \in Ends, i \in 1..Win : Transmit(e, i)
        \/ \E e \in Ends : \E f \in net[e] : Recv(e, f, FALSE) \/ Recv(e, f, TRUE) \/ Lose(e, f)

Fairness == /\ \A e \in Ends : WF_vars(Write(e)) /\ WF_vars(Close(e)) /\ WF_vars(SendAck(e)) /\ WF_vars(LastAckTimeout(e))
            /\ \A e \in Ends, i \in 1..Win : WF_vars(Transmit(e, i))
            /\ \A e \in Ends, f \in Frames : WF_vars(Recv(e, f, FALSE))
Spec == Init /\ [][Next]_vars /\ Fairness
(* without the delivery fairness (a network that may starve a frame for ever) the properties must fail *)
UnfairSpec == Init /\ [][Next]_vars /\ (\A e \in Ends : WF_vars(Write(e)) /\ WF_vars(Close(e)) /\ WF_vars(SendAck(e)) /\ WF_vars(LastAckTimeout(e)))
                   /\ (\A e \in Ends, i \in 1..Win : WF_vars(Transmit(e, i)))

-----------------------------------------------------------------------------
Prefix == \A e \in Ends : \A i \in 1..Len(rBuf[e]) : rBuf[e][i] = i /\ i <= wrote[Peer(e)]
(* C08 "complete": everything A writes is eventually readable at B, and B sees end-of-stream after it *)
Complete == <>(Len(rBuf["B"]) = D /\ rClosed["B"])
(* C16 at protocol level: with a fair network both ends reach closed - no timer needed for finWait *)
BothClose == <>[](st["A"] = "closed" /\ st["B"] = "closed")
=============================================================================
