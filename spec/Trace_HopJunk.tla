----------------------------- MODULE Trace_HopJunk -----------------------------
(* Trace validation for C10: every liveness probe recorded after junk must report what the    *)
(* postcondition of HopJunk!Junk says: a fresh honest handshake completes and the established *)
(* session still carries a message in both directions.                                       *)
EXTENDS Integers, Sequences, TLC, Json
Trace == ndJsonDeserialize("trace.ndjson")
VARIABLES l, bad
Ev == Trace[l]
Good(e) == CASE e.ev = "probe" -> e.handshake = "ok" /\ e.session = "ok"
             [] e.ev = "crash" -> FALSE
             [] OTHER -> TRUE
TInit == l = 1 /\ bad = 0
TNext == /\ l <= Len(Trace) /\ l' = l + 1
         /\ IF Good(Ev) THEN bad' = bad ELSE bad' = bad + 1 /\ PrintT(<<"MISMATCH", l>>)
TSpec == TInit /\ [][TNext]_<<l, bad>>
HW == TLCSet(1, l)
Accepted == TLCGet(1) = Len(Trace) + 1
=============================================================================
