SPECIFICATION MSpec
CONSTANTS MaxP = 4  MaxS = 4
INVARIANTS MatchIsDecl StarAlone NoStarIsEquality
CHECK_DEADLOCK FALSE
