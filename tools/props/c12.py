# C12 — Kravatte-SANSE AEAD is correct, tamper-evident and sensitive to the whole key (DESIGN.md §3 C12)
import json, os, re, concurrent.futures
import lib

def anchor_lines():
    """the published XKCP transcript shipped with the repository: key, derived mask, one wrapped message"""
    tx = open(os.path.join(lib.REPO, "kravatte", "testdata", "xkcp-sanse.txt")).read()
    def field(name):
        m = re.findall(r"^%s\[\d*\]: (.*)$" % name, tx, re.M)
        return [int(x, 16) for x in m[0].split()]
    key, pt, ad, ct, tag, dk = field("key"), field("plaintext"), field("ad"), field("wrap"), field("tag"), field("dumpK")
    return [dict(ev="anchor", op="mask", key=key, out=dk), dict(ev="anchor", op="vector", key=key, ad=ad, pt=pt, out=ct + tag)]

def run(v, tier, replay):
    thorough = tier == "thorough"
    v.assumptions += ["Sanse.tla is an executable byte-level specification of Kravatte (Achouffe) and Kravatte-SANSE on top of KeccakP.tla (Keccak-p[1600,6]); TLC recomputes every recorded seal / open with it",
                      "Sanse.tla is anchored by the published XKCP transcript in kravatte/testdata/xkcp-sanse.txt (mask for the 16-byte key, 378-byte message with 50 bytes of associated data) and KeccakP.tla by the Keccak-f[1600] zero-state vector",
                      "only whole-byte strings (the cipher.AEAD interface); the pure-Go permutation of package kravatte panics as unimplemented, so only the assembly build exists to be driven"]
    r = lib.tlc("KeccakP_anchor", "KeccakP_anchor.cfg", timeout=300)
    lib.tlc_must_pass(r, "KeccakP anchor"); v.add_tlc("KeccakP.tla: Keccak-f[1600] of the zero state equals the published vector", r)
    sd = lib.scratch("vf-c12-")
    binp = lib.go_build("c12")
    out = os.path.join(sd, "tr.ndjson")
    rc, so, se = lib.run([binp, out, str(lib.seed()), tier], timeout=1800)
    evs = lib.read_ndjson(out) if os.path.exists(out) else []
    if rc != 0 or not any(e["ev"] == "done" for e in evs):
        panic = [l for l in (so + se).split("\n") if l.startswith("panic:")]
        if panic:
            last = [e for e in evs if e.get("op") == "reset"][-1:]
            where = [l.strip() for l in (so + se).split("\n") if lib.REPO_MARK in l][:2]
            v.violation("Seal / Open panicked: %s at %s | group %s" % (panic[0][:120], where and where[0].split(lib.REPO_MARK)[-1].split(" ")[0], last and {k: x for k, x in last[0].items() if k not in ("ev", "op")}),
                        "calls on real kravatte.NewSANSE values", dict(tail=(so + se)[-1500:]))
            evs = [e for e in evs]
        else:
            raise lib.Inconclusive("c12 driver failed: rc=%s\n%s" % (rc, (so + se)[-1500:]))
    calls = [e for e in evs if "op" in e]
    # chunks: cut at reset lines, about 40 recomputed calls each
    chunks, cur, heavy = [], [], 0
    for e in calls:
        if e["op"] == "reset" and heavy >= 40:
            chunks.append(cur); cur, heavy = [], 0
        cur.append(e)
        if e["op"] in ("seal", "open"):
            heavy += 1 + (len(e.get("pt", e.get("ct", []))) + len(e["ad"])) // 200
        v.count("calls_" + e["op"])
    if cur:
        chunks.append(cur)
    chunks.insert(0, anchor_lines())
    def check(ix):
        tr = os.path.join(sd, "chunk-%d.ndjson" % ix)
        lib.write_ndjson(tr, chunks[ix])
        r = lib.tlc("Trace_Sanse", "Trace_Sanse.cfg", files={"trace.ndjson": "@" + tr}, workers=1, timeout=2400, jvm=["-Xss64m"])
        return ix, r
    seen = set()
    with concurrent.futures.ThreadPoolExecutor(max_workers=14) as ex:
        for ix, r in ex.map(check, range(len(chunks))):
            if ix < 3:
                v.add_tlc("Trace_Sanse chunk %d%s" % (ix, " (anchor: XKCP transcript)" if ix == 0 else ""), r)
            else:
                v.cov["states"] += r.distinct; v.cov["transitions"] += r.generated
            if not r.ok:
                raise lib.Inconclusive("trace chunk %d not consumed: %s\n%s" % (ix, r.kind, r.out[-1500:]))
            v.count("traces_validated_against_impl", sum(1 for e in chunks[ix] if e["op"] in ("reset", "vector", "mask")))
            for m in re.finditer(r'<<"MISMATCH", (\d+)>>', r.out):
                e = chunks[ix][int(m.group(1)) - 1]
                op = e["op"]
                if e["ev"] == "anchor":
                    raise lib.Inconclusive("the specification Sanse.tla does not reproduce the published XKCP transcript (%s)" % op)
                if op == "seal":
                    klen = next((len(x["key"]) for x in chunks[ix] if x["op"] == "new" and x["inst"] == e["inst"]), "?")
                    sig = "Seal output differs from the Kravatte-SANSE specification: key %s bytes, plaintext %d, associated data %d bytes" % (klen, len(e["pt"]), len(e["ad"]))
                elif op == "open":
                    sig = "Open differs from the Kravatte-SANSE specification: returned %s for ciphertext+tag %d, associated data %d bytes" % ("success" if e["ok"] else "failure", len(e["ct"]), len(e["ad"]))
                elif op == "tamper":
                    sig = "a message with a changed %s (%s %d) was opened successfully: plaintext %d, associated data %d bytes" % (e["where"], "length" if e["where"] == "length" else "bit", e["bit"], e["plen"], e["alen"])
                elif op == "keybyte":
                    sig = "key byte %d of a %d-byte key has no influence on the sealed output" % (e["i"], e["klen"])
                elif op == "alias":
                    sig = "overlapping buffers (%s, %d bytes of data, %d-byte header): output equals the disjoint call=%s, caller's other bytes intact=%s" % (e["variant"], e["n"], e["hdr"], e["same_output"], e["rest_intact"])
                elif op == "roundtrip":
                    sig = "opening a sealed message with the same key and associated data did not return the plaintext: key %s, plaintext %d, associated data %d bytes" % (e.get("klen", 32), e["plen"], e["alen"])
                else:
                    sig = "unexpected line %s" % op
                key = re.sub(r"\d+", "N", sig) if op in ("tamper", "roundtrip", "open") else sig
                if op == "keybyte":
                    key = "keybyte klen %% 8 = %d, last lane=%s" % (e["klen"] % 8, e["i"] >= e["klen"] - e["klen"] % 8)
                if key in seen:
                    continue
                seen.add(key)
                small = {k: (x if not isinstance(x, list) or len(x) <= 40 else "(%d bytes)" % len(x)) for k, x in e.items()}
                v.violation(sig, "call on a real cipher.AEAD from kravatte.NewSANSE, judged by Trace_Sanse (recomputed with Sanse.tla where applicable)", small)
    for e in calls:
        if e["op"] == "reset":
            v.case(json.dumps({k: x for k, x in e.items() if k not in ("ev", "op")}, sort_keys=True), nontrivial=True)
    v.sample({k: (x if not isinstance(x, list) or len(x) < 40 else len(x)) for k, x in next(e for e in calls if e["op"] == "seal").items()})
