---------------------------- MODULE HopAuthgrant ----------------------------
(* Authorization-grant delegation, principal side (authgrants/principal.go, hopclient/          *)
(* principal.go) composed with the target side (authgrants/target.go).                            *)
(*                                                                                                 *)
(* One delegate connection carries a sequence of intent requests 1..MaxReq.  Request k has its own *)
(* field values (so that it can be recognised wherever it turns up) and                             *)
(*   tclass    which target it names: "base", another host, another user on the same host,         *)
(*             another port of the same host                                                        *)
(*   decision  what the principal's approval callback says about it                                 *)
(*   setup     what happens when the principal has to connect to the target for it: the dial       *)
(*             fails (the callback is never consulted), the handshake runs (the callback is         *)
(*             consulted inside it) and everything works, or the handshake works and a later        *)
(*             step of the set-up fails                                                             *)
(*   tbeh      what the target does with the forwarded intent: accepts and stores it, refuses by   *)
(*             policy, fails to store it, answers with a message of an undefined type, closes       *)
(*   gt        "std" (shell / command) or "pf": a port-forwarding grant type, which the messages      *)
(*             cannot carry - the principal answers with a denial and gives up on the connection       *)
(* Choices that cannot matter in the state in which the request is handled are not branched ("-"). *)
(*                                                                                                 *)
(* Variant = "fixed" is the protocol as it should be (and as the repaired code implements it);      *)
(* Variant = "pinned" is the code as found: on a connected instance the callback's result is        *)
(* ignored, and a denial from the callback during the handshake is reported to the delegate twice.  *)
EXTENDS Integers, Sequences, FiniteSets, TLC
CONSTANTS MaxReq, Variant

TClasses == {"base", "otherhost", "otheruser", "otherport"}
VARIABLES over,       \* 0, or the number of the request after which the principal gave up on the delegate connection
          k,          \* next request
          connected, connTarget, tdead,
          sc,         \* scenario so far: one record of choices per request
          cb,         \* approval callback log: <<request, decision>>
          fwd,        \* requests forwarded to the target, in order
          stored,     \* requests the target stored as grants
          ans         \* per request: sequence of answers the delegate received
vars == <<over, k, connected, connTarget, tdead, sc, cb, fwd, stored, ans>>

Init == over = 0 /\ k = 1 /\ connected = FALSE /\ connTarget = "-" /\ tdead = FALSE /\ sc = <<>> /\ cb = <<>> /\ fwd = <<>>
        /\ stored = {} /\ ans = <<>>

Choice(tc, d, su, tb) == [tclass |-> tc, decision |-> d, setup |-> su, tbeh |-> tb, gt |-> "std"]

(* the target's part: what the principal reads back for a forwarded intent, and what the target keeps *)
TargetAnswer(tb) == IF tb \in {"confirm", "slowconfirm"} THEN "confirm" ELSE "deny"
(* "slowconfirm": the target accepts and stores, but its answer takes seconds (a slow or proxied path); the protocol *)
(* has no timeout: the principal waits and relays it.  Only chosen for the first request (it costs real time).      *)

Forward(tc, d, su, tb, conn1, ct1, cb1) ==
    \* forward request k over the target connection (dead after a close)
    /\ sc' = Append(sc, Choice(tc, d, su, IF tdead THEN "-" ELSE tb))
    /\ cb' = cb1 /\ connected' = conn1 /\ connTarget' = ct1
    /\ IF tdead
       THEN /\ fwd' = fwd /\ stored' = stored /\ tdead' = tdead
            /\ ans' = Append(ans, <<"deny">>)
       ELSE /\ fwd' = Append(fwd, k)
            /\ stored' = IF tb \in {"confirm", "slowconfirm"} THEN stored \cup {k} ELSE stored
            /\ tdead' = (tb = "close")
            /\ ans' = Append(ans, <<TargetAnswer(tb)>>)
    /\ k' = k + 1 /\ UNCHANGED over

Deny(tc, d, su, conn1, ct1, cb1, n) ==
    /\ sc' = Append(sc, Choice(tc, d, su, "-"))
    /\ cb' = cb1 /\ connected' = conn1 /\ connTarget' = ct1
    /\ ans' = Append(ans, [i \in 1..n |-> "deny"])
    /\ k' = k + 1 /\ UNCHANGED <<fwd, stored, tdead, over>>

(* a request of a grant type the messages cannot carry (port forwarding): the principal cannot use it; it answers *)
(* with one denial and gives up on the connection (as found: it gave up without answering)                       *)
Unusable ==
    /\ k <= MaxReq /\ over = 0
    /\ sc' = Append(sc, [tclass |-> "base", decision |-> "-", setup |-> "-", tbeh |-> "-", gt |-> "pf"])
    /\ ans' = Append(ans, IF Variant = "fixed" THEN <<"deny">> ELSE <<>>)
    /\ over' = k /\ k' = k + 1
    /\ UNCHANGED <<connected, connTarget, tdead, cb, fwd, stored>>

Request ==
    /\ k <= MaxReq /\ over = 0
    /\ \E tc \in TClasses :
         IF connected /\ connTarget # tc
         THEN Deny(tc, "-", "-", connected, connTarget, cb, 1)                       \* request for a different target
         ELSE IF connected
         THEN \E d \in {"approve", "deny"}, tb \in {"confirm", "deny", "storefail", "garbage", "close"} :
                LET cb1 == Append(cb, <<k, d>>) IN
                IF d = "deny" /\ Variant = "fixed"
                THEN tb = "confirm" /\ Deny(tc, d, "-", connected, connTarget, cb1, 1)
                ELSE Forward(tc, d, "-", tb, connected, connTarget, cb1)             \* pinned: forwarded whatever the callback said
         ELSE \E su \in {"dialfail", "ok", "postfail"} :
                IF su = "dialfail"
                THEN Deny(tc, "-", su, FALSE, "-", cb, 1)
                ELSE \E d \in {"approve", "deny"} :
                       LET cb1 == Append(cb, <<k, d>>) IN
                       IF d = "deny"
                       THEN Deny(tc, d, su, FALSE, "-", cb1, IF Variant = "pinned" THEN 2 ELSE 1)
                       ELSE IF su = "postfail"
                       THEN Deny(tc, d, su, FALSE, "-", cb1, 1)
                       ELSE \E tb \in {"confirm", "deny", "storefail", "garbage", "close"} \cup (IF k = 1 THEN {"slowconfirm"} ELSE {}) :
                              Forward(tc, d, su, tb, TRUE, tc, cb1)
(* what the delegate sends after the principal has given up is not answered by anybody *)
Ignored ==
    /\ k <= MaxReq /\ over # 0
    \* (what principal and target WOULD do with it is still chosen, for the replay on code that does not give up)
    /\ \E tb \in {"confirm", "deny"} :
         sc' = Append(sc, [tclass |-> "base", decision |-> "approve", setup |-> "ok", tbeh |-> tb, gt |-> "std"])
    /\ ans' = Append(ans, <<>>) /\ k' = k + 1
    /\ UNCHANGED <<over, connected, connTarget, tdead, cb, fwd, stored>>
Done == k > MaxReq /\ UNCHANGED vars
Next == Request \/ Unusable \/ Ignored \/ Done
Spec == Init /\ [][Next]_vars

-----------------------------------------------------------------------------
(* C06 *)
Approved(i) == \E j \in 1..Len(cb) : cb[j] = <<i, "approve">>
ForwardedOnlyIfApproved == \A j \in 1..Len(fwd) : Approved(fwd[j])
OneAnswerPerRequest == \A i \in 1..Len(ans) : (over = 0 \/ i <= over) => Len(ans[i]) = 1
ConfirmationMeansStored == \A i \in 1..Len(ans) : (\E j \in 1..Len(ans[i]) : ans[i][j] = "confirm") => i \in stored
ForwardedOnce == \A i, j \in 1..Len(fwd) : fwd[i] = fwd[j] => i = j
=============================================================================
