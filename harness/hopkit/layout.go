package hopkit

import (
	"hop.computer/hop/pkg/glob"
	"hop.computer/hop/transport"
)

func globMatch(p, s string) bool { return glob.Glob(p, s) }

// Field is a named byte range of a datagram.
type Field struct {
	Name     string
	Off, Len int
}

// TypeName maps the first byte of a datagram to the spec's message name.
func TypeName(b []byte) string {
	if len(b) == 0 {
		return "empty"
	}
	switch transport.MessageType(b[0]) {
	case transport.MessageTypeClientHello:
		return "CH"
	case transport.MessageTypeServerHello:
		return "SH"
	case transport.MessageTypeClientAck:
		return "CA"
	case transport.MessageTypeServerAuth:
		return "SA"
	case transport.MessageTypeClientAuth:
		return "CL"
	case transport.MessageTypeClientRequestHidden:
		return "HR"
	case transport.MessageTypeServerResponseHidden:
		return "HP"
	case transport.MessageTypeTransport:
		return "TR"
	case transport.MessageTypeControl:
		return "CT"
	}
	return "??"
}

// Layout returns the fields of a genuine datagram (every byte belongs to exactly one field).
func Layout(b []byte) []Field {
	const H, M = transport.HeaderLen, transport.MacLen
	seq := func(parts ...interface{}) []Field {
		var out []Field
		off := 0
		for i := 0; i < len(parts); i += 2 {
			n := parts[i+1].(int)
			out = append(out, Field{parts[i].(string), off, n})
			off += n
		}
		return out
	}
	n := len(b)
	switch TypeName(b) {
	case "CH":
		return seq("hdr", H, "ekem", transport.KemKeyLen, "mac", M)
	case "SH":
		return seq("hdr", H, "kemct", transport.KemCtLen, "cookie", transport.PQCookieLen, "mac", M)
	case "CA":
		return seq("hdr", H, "e", transport.DHLen, "ekem", transport.KemKeyLen, "cookie", transport.PQCookieLen, "sni", transport.SNILen, "mac", M)
	case "SA":
		return seq("hdr", 2, "len", 2, "sid", transport.SessionIDLen, "e", transport.DHLen, "certs", n-H-transport.SessionIDLen-transport.DHLen-2*M, "tag", M, "mac", M)
	case "CL":
		return seq("hdr", 2, "len", 2, "sid", transport.SessionIDLen, "certs", n-H-transport.SessionIDLen-2*M, "tag", M, "mac", M)
	case "HR":
		return seq("hdr", 2, "len", 2, "ekem", transport.KemKeyLen, "skemct", transport.KemCtLen, "certs", n-H-transport.KemKeyLen-transport.KemCtLen-2*M-transport.TimestampLen, "tag", M, "ts", transport.TimestampLen, "mac", M)
	case "HP":
		return seq("hdr", 2, "len", 2, "sid", transport.SessionIDLen, "ekemct", transport.KemCtLen, "certs", n-H-transport.SessionIDLen-transport.KemCtLen-2*M, "tag", M, "mac", M)
	case "TR", "CT":
		return seq("hdr", H, "sid", transport.SessionIDLen, "ctr", transport.CounterLen, "body", n-H-transport.SessionIDLen-transport.CounterLen-transport.TagLen, "tag", transport.TagLen)
	}
	return seq("all", n)
}

// FieldOf returns the named field.
func FieldOf(b []byte, name string) (Field, bool) {
	for _, f := range Layout(b) {
		if f.Name == name {
			return f, f.Len > 0
		}
	}
	return Field{}, false
}
