SPECIFICATION Spec
CONSTANTS NumBlocks = 4  BlockSize = 4  MaxSeq = 36  ClearCap = 4
INVARIANTS TypeOK Equiv Refines
CHECK_DEADLOCK FALSE
