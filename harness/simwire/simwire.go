// Package simwire is an in-memory datagram network implementing transport.UDPLike for any number
// of endpoints.  Every datagram an endpoint writes is captured; a controller decides what is
// delivered to whom, from which source address, with which bytes.  Endpoints report when their
// reader blocks again, which gives the controller a lock-step barrier without sleeping.
package simwire

import (
	"errors"
	"net"
	"os"
	"sync"
	"time"
)

// Datagram is one captured write.
type Datagram struct {
	ID   int
	From *net.UDPAddr // address of the writing endpoint
	To   *net.UDPAddr // destination given by the writer
	Data []byte
}

// Net is the network.
type Net struct {
	mu   sync.Mutex
	cond *sync.Cond
	eps  map[string]*Endpoint
	out  []*Datagram // captured, not yet taken by the controller
	all  []*Datagram // everything ever written
	next int
	// Auto makes writes deliver immediately to the endpoint owning the destination address.
	Auto bool
	// OnWrite, when set, observes every write (called with the lock held; must not block).
	OnWrite func(d *Datagram)
}

// New creates a network.
func New() *Net {
	n := &Net{eps: map[string]*Endpoint{}}
	n.cond = sync.NewCond(&n.mu)
	return n
}

// Addr builds an address.
func Addr(ip string, port int) *net.UDPAddr { return &net.UDPAddr{IP: net.ParseIP(ip).To4(), Port: port} }

// Endpoint is one socket.
type Endpoint struct {
	n        *Net
	addr     *net.UDPAddr
	inbox    []*inMsg
	waiting  int  // readers blocked in ReadMsgUDP
	consumed int  // datagrams returned to readers
	closed   bool
	deadline time.Time
	dlGen    int
	Reads    int // number of ReadMsgUDP calls started
}

type inMsg struct {
	data []byte
	src  *net.UDPAddr
}

// Listen creates an endpoint bound to addr.
func (n *Net) Listen(addr *net.UDPAddr) *Endpoint {
	n.mu.Lock()
	defer n.mu.Unlock()
	e := &Endpoint{n: n, addr: addr}
	n.eps[addr.String()] = e
	return e
}

// ---- UDPLike --------------------------------------------------------------------------------

// ErrClosed mirrors net.ErrClosed.
var ErrClosed = net.ErrClosed

type timeoutErr struct{}

func (timeoutErr) Error() string   { return "i/o timeout" }
func (timeoutErr) Timeout() bool   { return true }
func (timeoutErr) Temporary() bool { return true }
func (timeoutErr) Unwrap() error   { return os.ErrDeadlineExceeded }

// WriteMsgUDP captures a datagram.
func (e *Endpoint) WriteMsgUDP(b, oob []byte, addr *net.UDPAddr) (int, int, error) {
	e.n.mu.Lock()
	defer e.n.mu.Unlock()
	if e.closed {
		return 0, 0, ErrClosed
	}
	if addr == nil {
		return 0, 0, errors.New("simwire: nil destination")
	}
	e.n.next++
	d := &Datagram{ID: e.n.next, From: e.addr, To: addr, Data: append([]byte(nil), b...)}
	e.n.all = append(e.n.all, d)
	if e.n.OnWrite != nil {
		e.n.OnWrite(d)
	}
	if e.n.Auto {
		if dst, ok := e.n.eps[addr.String()]; ok && !dst.closed {
			dst.inbox = append(dst.inbox, &inMsg{data: d.Data, src: e.addr})
		}
	} else {
		e.n.out = append(e.n.out, d)
	}
	e.n.cond.Broadcast()
	return len(b), 0, nil
}

// ReadMsgUDP blocks until a datagram is delivered, the deadline passes or the endpoint closes.
func (e *Endpoint) ReadMsgUDP(b, oob []byte) (int, int, int, *net.UDPAddr, error) {
	e.n.mu.Lock()
	defer e.n.mu.Unlock()
	e.Reads++
	for {
		if e.closed {
			return 0, 0, 0, nil, ErrClosed
		}
		if len(e.inbox) > 0 {
			m := e.inbox[0]
			e.inbox = e.inbox[1:]
			e.consumed++
			n := copy(b, m.data)
			e.n.cond.Broadcast()
			return n, 0, 0, m.src, nil
		}
		if !e.deadline.IsZero() && !time.Now().Before(e.deadline) {
			return 0, 0, 0, nil, timeoutErr{}
		}
		e.waiting++
		e.n.cond.Broadcast()
		e.n.cond.Wait()
		e.waiting--
	}
}

// Read implements net.Conn.
func (e *Endpoint) Read(b []byte) (int, error) {
	n, _, _, _, err := e.ReadMsgUDP(b, nil)
	return n, err
}

// Write implements net.Conn (no default destination).
func (e *Endpoint) Write(b []byte) (int, error) { return 0, errors.New("simwire: Write without address") }

// Close closes the endpoint and wakes readers.
func (e *Endpoint) Close() error {
	e.n.mu.Lock()
	defer e.n.mu.Unlock()
	if e.closed {
		return ErrClosed
	}
	e.closed = true
	e.n.cond.Broadcast()
	return nil
}

// LocalAddr implements net.Conn.
func (e *Endpoint) LocalAddr() net.Addr { return e.addr }

// RemoteAddr implements net.Conn.
func (e *Endpoint) RemoteAddr() net.Addr { return nil }

// SetDeadline implements net.Conn.
func (e *Endpoint) SetDeadline(t time.Time) error { return e.SetReadDeadline(t) }

// SetWriteDeadline implements net.Conn.
func (e *Endpoint) SetWriteDeadline(t time.Time) error { return nil }

// SetReadDeadline implements net.Conn.
func (e *Endpoint) SetReadDeadline(t time.Time) error {
	e.n.mu.Lock()
	defer e.n.mu.Unlock()
	e.deadline = t
	e.dlGen++
	gen := e.dlGen
	if !t.IsZero() {
		d := time.Until(t)
		if d < 0 {
			d = 0
		}
		time.AfterFunc(d, func() {
			e.n.mu.Lock()
			if e.dlGen == gen {
				e.n.cond.Broadcast()
			}
			e.n.mu.Unlock()
		})
	}
	e.n.cond.Broadcast()
	return nil
}

// ---- controller -----------------------------------------------------------------------------

// Addr returns the endpoint's address.
func (e *Endpoint) Addr() *net.UDPAddr { return e.addr }

// Inject puts bytes into the endpoint's inbox with the given source address (no waiting).
func (e *Endpoint) Inject(data []byte, src *net.UDPAddr) {
	e.n.mu.Lock()
	defer e.n.mu.Unlock()
	if e.closed {
		return
	}
	e.inbox = append(e.inbox, &inMsg{data: append([]byte(nil), data...), src: src})
	e.n.cond.Broadcast()
}

// ErrNotQuiescent is returned when an endpoint did not return to a blocked read in time.
var ErrNotQuiescent = errors.New("simwire: endpoint not quiescent")

// WaitIdle waits until the endpoint's inbox is empty and a reader is blocked (or it is closed).
func (e *Endpoint) WaitIdle(timeout time.Duration) error {
	deadline := time.Now().Add(timeout)
	stop := make(chan struct{})
	defer close(stop)
	go func() { // periodic wake-up so that the timeout is honoured
		t := time.NewTicker(2 * time.Millisecond)
		defer t.Stop()
		for {
			select {
			case <-stop:
				return
			case <-t.C:
				e.n.mu.Lock()
				e.n.cond.Broadcast()
				e.n.mu.Unlock()
			}
		}
	}()
	e.n.mu.Lock()
	defer e.n.mu.Unlock()
	for {
		if e.closed || (len(e.inbox) == 0 && e.waiting > 0) {
			return nil
		}
		if time.Now().After(deadline) {
			return ErrNotQuiescent
		}
		e.n.cond.Wait()
	}
}

// Deliver injects and waits for the endpoint to process the datagram and block again.
func (e *Endpoint) Deliver(data []byte, src *net.UDPAddr, timeout time.Duration) error {
	e.Inject(data, src)
	return e.WaitIdle(timeout)
}

// Closed reports whether the endpoint was closed.
func (e *Endpoint) Closed() bool {
	e.n.mu.Lock()
	defer e.n.mu.Unlock()
	return e.closed
}

// Take removes and returns all captured datagrams.
func (n *Net) Take() []*Datagram {
	n.mu.Lock()
	defer n.mu.Unlock()
	o := n.out
	n.out = nil
	return o
}

// TakeFrom removes and returns captured datagrams written by the given endpoint.
func (n *Net) TakeFrom(e *Endpoint) []*Datagram {
	n.mu.Lock()
	defer n.mu.Unlock()
	var mine, rest []*Datagram
	for _, d := range n.out {
		if d.From.String() == e.addr.String() {
			mine = append(mine, d)
		} else {
			rest = append(rest, d)
		}
	}
	n.out = rest
	return mine
}

// All returns every datagram ever written.
func (n *Net) All() []*Datagram {
	n.mu.Lock()
	defer n.mu.Unlock()
	return append([]*Datagram(nil), n.all...)
}

// WaitOut waits until at least one captured datagram from e is available or timeout.
func (n *Net) WaitOut(e *Endpoint, timeout time.Duration) bool {
	deadline := time.Now().Add(timeout)
	for {
		n.mu.Lock()
		for _, d := range n.out {
			if d.From.String() == e.addr.String() {
				n.mu.Unlock()
				return true
			}
		}
		n.mu.Unlock()
		if time.Now().After(deadline) {
			return false
		}
		time.Sleep(200 * time.Microsecond)
	}
}
