SPECIFICATION Spec
CONSTANTS Sess = {1,2}  ModeSet = {"hid"}  CCfgSet <- CliC  DialSet <- SrvCh  SCfg <- SCfgU  Cert <- CertU  MaxMoves = 2  Sync = TRUE  EnforceSAMac = TRUE
INVARIANTS EmitBeh TypeOK C01Client C01Server C01Accept C02Client C02Server C02Agree C02Distinct
PROPERTIES C19Stateless C19HiddenSilent
CHECK_DEADLOCK FALSE
