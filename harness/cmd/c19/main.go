// c19 probes a real discoverable server with many client hellos and mis-bound cookies, and a real
// hidden-mode server with every kind of datagram, logging table sizes and the number of replies.
//
//	c19 <out.ndjson> <seed> <nhellos>
package main

import (
	"fmt"
	"io"
	"math/rand"
	"net"
	"os"
	"strconv"
	"sync"
	"time"

	"github.com/sirupsen/logrus"

	"hop.computer/hop/transport"
	"verif/harness/hopkit"
	"verif/harness/rec"
	"verif/harness/simwire"
)

var pki *hopkit.PKI
var sid, cid *hopkit.Ident
var sa = simwire.Addr("10.0.0.1", 77)

func newDisc(w *hopkit.World) *hopkit.Srv { return w.NewServer(sa, hopkit.SrvOpt{Ident: sid}) }

// firstMsgs runs a client up to the given number of client->server messages against s and returns them.
func clientMsgs(w *hopkit.World, s *hopkit.Srv, c *hopkit.Cli, upto int) (out [][]byte) {
	c.Start()
	for len(out) < upto {
		if err := c.WaitStep(); err != nil {
			panic(err)
		}
		ds := w.Net.TakeFrom(c.EP)
		if len(ds) == 0 {
			return
		}
		for _, d := range ds {
			out = append(out, d.Data)
			if len(out) >= upto {
				return
			}
			if err := s.EP.Deliver(d.Data, d.From, hopkit.StepTimeout); err != nil {
				panic(err)
			}
		}
		for _, d := range w.Net.TakeFrom(s.EP) {
			c.EP.Inject(d.Data, d.From)
		}
	}
	return
}

func main() {
	logrus.SetOutput(io.Discard)
	out := os.Args[1]
	seed, _ := strconv.ParseInt(os.Args[2], 10, 64)
	n, _ := strconv.Atoi(os.Args[3])
	rng := rand.New(rand.NewSource(seed))
	w := rec.Must(out)
	defer w.Close()
	pki = hopkit.NewPKI()
	sid = pki.Issue("valid", "a.example")
	cid = pki.Issue("selfsigned", "client")
	pol := pki.Policy("store", "a.example")

	// ---- 1. many hellos from distinct addresses --------------------------------------------------
	{
		wd := hopkit.NewWorld()
		s := newDisc(wd)
		var hellos [][]byte
		for k := 0; k < 40; k++ {
			c := wd.NewClient(simwire.Addr("10.1.0.1", 3000+k), sa, hopkit.CliOpt{Ident: cid, Verify: pol})
			hellos = append(hellos, clientMsgs(wd, s, c, 1)[0])
		}
		wd.Net.Take()
		replies := 0
		for i := 0; i < n; i++ {
			src := &net.UDPAddr{IP: net.IPv4(10, byte(2+i>>16), byte(i>>8), byte(i)), Port: 1024 + rng.Intn(60000)}
			if err := s.EP.Deliver(hellos[i%len(hellos)], src, hopkit.StepTimeout); err != nil {
				panic(err)
			}
			replies += len(wd.Net.Take())
		}
		nh, ns := s.T.VerifTables()
		w.Ev("hellos", "n", n, "handshakes", nh, "sessions", ns, "replies", replies)
		wd.Close()
	}

	// ---- 2. cookie binding ------------------------------------------------------------------------
	for _, class := range []string{"genuine", "other-ip", "other-port", "other-ip-port", "other-key", "rotated", "tampered-cookie", "other-instance",
		"genuine-v6", "other-ip-v6", "other-port-v6", "other-zone-v6", "genuine-v4mapped"} {
		wd := hopkit.NewWorld()
		s := newDisc(wd)
		a1 := simwire.Addr("10.0.1.1", 1001)
		v6 := func(ip string, port int) *net.UDPAddr { return &net.UDPAddr{IP: net.ParseIP(ip), Port: port} }
		switch class {
		case "genuine-v6", "other-ip-v6", "other-port-v6", "other-zone-v6":
			a1 = v6("fd00::1:1", 1001)
		case "genuine-v4mapped":
			a1 = &net.UDPAddr{IP: net.ParseIP("10.0.1.1").To16(), Port: 1001}
		}
		c1 := wd.NewClient(a1, sa, hopkit.CliOpt{Ident: cid, Verify: pol})
		ca := clientMsgs(wd, s, c1, 2)[1] // CH delivered, SH received, CA captured (not delivered)
		src := a1
		switch class {
		case "other-ip":
			src = simwire.Addr("10.0.1.2", 1001)
		case "other-port":
			src = simwire.Addr("10.0.1.1", 1002)
		case "other-ip-port":
			src = simwire.Addr("10.0.7.7", 7)
		case "other-ip-v6":
			src = v6("fd00::1:2", 1001)
		case "other-port-v6":
			src = v6("fd00::1:1", 1002)
		case "other-zone-v6":
			src = v6("fd00::2:1", 1001)
		case "other-instance": // the cookie of one server instance presented to another one (its own, different cookie key)
			s.T.Close()
			wd2 := hopkit.NewWorld()
			defer wd2.Close()
			wd, s = wd2, newDisc(wd2)
		case "other-key":
			c2 := wd.NewClient(simwire.Addr("10.0.1.3", 1003), sa, hopkit.CliOpt{Ident: cid, Verify: pol})
			ca2 := clientMsgs(wd, s, c2, 2)[1]
			f, _ := hopkit.FieldOf(ca, "cookie")
			copy(ca2[f.Off:f.Off+f.Len], ca[f.Off:f.Off+f.Len]) // c1's cookie inside c2's acknowledgement (c2's client key)
			ca, src = ca2, a1                                   // ... presented from c1's address
		case "rotated":
			s.T.VerifRotateCookieKey()
		case "tampered-cookie":
			f, _ := hopkit.FieldOf(ca, "cookie")
			ca[f.Off+rng.Intn(f.Len)] ^= 0x40
		}
		wd.Net.Take()
		h0, s0 := s.T.VerifTables()
		if err := s.EP.Deliver(ca, src, hopkit.StepTimeout); err != nil {
			panic(err)
		}
		h1, s1 := s.T.VerifTables()
		w.Ev("cookie", "class", class, "allocated", (h1-h0+s1-s0+1)/2, "replies", len(wd.Net.Take()))
		wd.Close()
	}

	// ---- 3. hidden-mode server: silence -------------------------------------------------------------
	kem, kemOther := hopkit.NewKEM(), hopkit.NewKEM()
	type probe struct {
		class string
		data  []byte
		wait  time.Duration
		skew  int64 // hidden requests are generated right before delivery with this client clock skew
		gen   bool
		via   bool // the server's transport configuration comes from a real hop server
	}
	var probes []probe
	{
		// material from a discoverable run and an established session
		wd := hopkit.NewWorld()
		s := newDisc(wd)
		c := wd.NewClient(simwire.Addr("10.0.1.1", 1001), sa, hopkit.CliOpt{Ident: cid, Verify: pol})
		ms := clientMsgs(wd, s, c, 3)
		probes = append(probes, probe{class: "ch", data: ms[0], wait: 0}, probe{class: "ca", data: ms[1], wait: 0}, probe{class: "cl", data: ms[2], wait: 0})
		wd.Close()
		p, err := hopkit.NewPair(pki, sid, cid, false, 8)
		if err != nil {
			panic(err)
		}
		p.C.T.WriteMsg([]byte("hello"))
		probes = append(probes, probe{class: "transport", data: p.W.Net.TakeFrom(p.C.EP)[0].Data, wait: 0})
		p.W.Close()
		for _, l := range []int{0, 1, 3, 4, 7, 8, 16, 47, 48, 100, 820, 1775, 4000, 65000} {
			b := make([]byte, l)
			rng.Read(b)
			probes = append(probes, probe{class: "junk", data: b, wait: 0})
			for _, t := range []byte{0x01, 0x02, 0x03, 0x04, 0x05, 0x08, 0x09, 0x10, 0x80} {
				if l > 0 {
					bb := append([]byte(nil), b...)
					bb[0] = t
					if l > 1 {
						bb[1] = 1
					}
					probes = append(probes, probe{class: "junk", data: bb, wait: 0})
				}
			}
		}
	}
	hr := func(k *hopkit.Srv, wd *hopkit.World, kemPub *hopkit.Srv) {}
	_ = hr
	mkHR := func(pub interface{}) []byte { return nil }
	_ = mkHR
	genHR := func(wrongKey bool) []byte {
		wd := hopkit.NewWorld()
		defer wd.Close()
		k := kem
		if wrongKey {
			k = kemOther
		}
		c := wd.NewClient(simwire.Addr("10.0.1.1", 1001), sa, hopkit.CliOpt{Ident: cid, Verify: pol, ServerKEM: &k.Public})
		c.Start()
		if err := c.WaitStep(); err != nil {
			panic(err)
		}
		return wd.Net.TakeFrom(c.EP)[0].Data
	}
	for _, sk := range []struct {
		class string
		skew  int64
	}{{"hr-future", 30}, {"hr-future", 600}, {"hr-future", 12}, {"hr-skew-stale", -12}, {"hr-skew-stale", -60}, {"hr-skew-fresh", -1}, {"hr-skew-fresh", 0}} {
		probes = append(probes, probe{class: sk.class, skew: sk.skew, gen: true})
	}
	probes = append(probes, probe{class: "hr-wrongkey", data: genHR(true), wait: 0})
	for k := 0; k < 3; k++ {
		probes = append(probes, probe{class: "fresh-hr", data: genHR(false), wait: 0})
	}
	probes = append(probes, probe{class: "hr-stale", data: genHR(false), wait: 7100 * time.Millisecond})
	for _, fld := range []string{"hdr", "len", "ekem", "skemct", "certs", "tag", "ts", "mac"} {
		d := genHR(false)
		f, _ := hopkit.FieldOf(d, fld)
		d[f.Off+rng.Intn(f.Len)] ^= byte(1 << uint(rng.Intn(8)))
		probes = append(probes, probe{class: "hr-tampered", data: d, wait: 0})
	}
	for _, cut := range []int{1, 16, 17, 100} {
		d := genHR(false)
		probes = append(probes, probe{class: "hr-trunc", data: d[:len(d)-cut], wait: 0})
	}
	// the genuine first messages of the discoverable handshake meet both kinds of hidden server
	for _, pr := range probes[:4] {
		pr.via = true
		probes = append(probes, pr)
	}
	var mu, genMu sync.Mutex
	var wg sync.WaitGroup
	for i, pr := range probes {
		wg.Add(1)
		go func(i int, pr probe) {
			defer wg.Done()
			wd := hopkit.NewWorld()
			defer wd.Close()
			// every second probe meets a server whose transport configuration was derived by a real hop server
			// from a configuration with per-name keys (hidden-mode activation included)
			s := wd.NewServer(sa, hopkit.SrvOpt{Ident: sid, KEM: kem, Hidden: true, ViaHopServer: i%2 == 1 || pr.via, Patterns: []string{"*"}})
			time.Sleep(pr.wait)
			if pr.gen {
				genMu.Lock()
				transport.VerifSetClientClockSkew(pr.skew)
				pr.data = genHR(false)
				transport.VerifSetClientClockSkew(0)
				genMu.Unlock()
			}
			if err := s.EP.Deliver(pr.data, simwire.Addr("10.0.1.1", 1001), hopkit.StepTimeout); err != nil {
				panic(err)
			}
			replies := len(wd.Net.Take())
			late := -1
			if pr.class == "fresh-hr" && i%2 == 0 { // the same request again, late: must be ignored
				time.Sleep(7100 * time.Millisecond)
				s.EP.Deliver(pr.data, simwire.Addr("10.0.1.1", 1001), hopkit.StepTimeout)
				late = len(wd.Net.Take())
			}
			mu.Lock()
			w.Ev("hprobe", "class", pr.class, "len", len(pr.data), "type", fmt.Sprintf("%02x", append(pr.data, 0)[0]), "replies", replies)
			if late >= 0 {
				w.Ev("hprobe", "class", "hr-replay-late", "len", len(pr.data), "type", "08", "replies", late)
			}
			mu.Unlock()
		}(i, pr)
	}
	wg.Wait()
}
