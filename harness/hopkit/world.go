package hopkit

import (
	"fmt"
	"net"
	"strings"
	"sync"
	"time"

	"hop.computer/hop/certs"
	"hop.computer/hop/config"

	"hop.computer/hop/hopserver"
	"hop.computer/hop/keys"
	"hop.computer/hop/transport"
	"verif/harness/simwire"
)

// StepTimeout bounds every lock-step wait (processing one datagram takes well under a millisecond
// plus public-key operations of a few hundred microseconds).
var StepTimeout = 10 * time.Second

// World is one simulated network with its endpoints.
type World struct {
	Net     *simwire.Net
	Servers []*Srv
	Clients []*Cli
}

// NewWorld creates an empty world (manual delivery).
func NewWorld() *World { return &World{Net: simwire.New()} }

// Srv wraps a real transport.Server on a simwire endpoint.
type Srv struct {
	W      *World
	T      *transport.Server
	EP     *simwire.Endpoint
	Ident  *Ident
	Hidden bool
	KEM    *keys.KEMKeyPair
	served chan struct{}
}

// SrvOpt configures NewServer.
type SrvOpt struct {
	Ident        *Ident
	ClientVerify *transport.VerifyConfig // nil = no verification of clients
	Hidden       bool
	KEM          *keys.KEMKeyPair
	Extra        []*Ident // further certificates (virtual hosts); enables GetCertificate/GetCertList callbacks
	ExtraKEM     []*keys.KEMKeyPair
	Patterns     []string // one per certificate (Ident first, then Extra) when Extra is used
	MaxPending   int
	MaxBuffered  int
	RawLeaf      *[]byte // hostile server: these bytes are presented as the leaf certificate
	// ViaHopServer: the transport configuration (hidden-mode activation, certificate callbacks, hidden virtual
	// host names) is the one a real hopserver.NewHopServer derives from an equivalent server configuration with
	// per-name keys only; the transport server itself still runs on the simulated wire.
	ViaHopServer bool
	HSTimeout    time.Duration // server handshake timeout (default 30 s)
}

// NewServer starts a real server.
func (w *World) NewServer(addr *net.UDPAddr, o SrvOpt) *Srv {
	ep := w.Net.Listen(addr)
	cfg := transport.ServerConfig{
		KeyPair: o.Ident.Key, KEMKeyPair: o.KEM, Certificate: o.Ident.Leaf, Intermediate: o.Ident.Inter,
		HandshakeTimeout: 30 * time.Second, ClientVerify: o.ClientVerify, IsHidden: o.Hidden,
		MaxPendingConnections: o.MaxPending, MaxBufferedPacketsPerConnection: o.MaxBuffered,
	}
	if o.HSTimeout > 0 {
		cfg.HandshakeTimeout = o.HSTimeout
	}
	if len(o.Extra) > 0 {
		cfg.GetCertificate, cfg.GetCertList = vhostCallbacks(o)
	}
	if o.ViaHopServer {
		if real, ok := realTransportConfig(o); ok {
			cfg.KeyPair, cfg.KEMKeyPair, cfg.Certificate, cfg.Intermediate = nil, nil, nil, nil
			cfg.GetCertificate, cfg.GetCertList = real.GetCertificate, real.GetCertList
			cfg.IsHidden, cfg.HiddenModeVHostNames = real.IsHidden, real.HiddenModeVHostNames
		} else {
			panic("hopkit: real hop server configuration not available")
		}
	}
	if o.RawLeaf != nil {
		tc, err := transport.MakeCert(o.Ident.Key, o.Ident.Leaf, o.Ident.Inter, o.KEM)
		must(err)
		tc.RawLeaf = *o.RawLeaf
		for _, b := range o.Ident.Leaf.IDChunk.Blocks {
			tc.HostNames = append(tc.HostNames, b.String())
		}
		cfg.GetCertificate = func(transport.ClientHandshakeInfo) (*transport.Certificate, error) { return tc, nil }
		cfg.GetCertList = func() ([]*transport.Certificate, error) { return []*transport.Certificate{tc}, nil }
	}
	t, err := transport.NewServer(ep, cfg)
	must(err)
	s := &Srv{W: w, T: t, EP: ep, Ident: o.Ident, Hidden: o.Hidden, KEM: o.KEM, served: make(chan struct{})}
	go func() { t.Serve(); close(s.served) }()
	w.Servers = append(w.Servers, s)
	if err := ep.WaitIdle(StepTimeout); err != nil {
		panic("server did not start reading")
	}
	return s
}

// Cli wraps a real transport.Client on a simwire endpoint.
type Cli struct {
	W     *World
	T     *transport.Client
	EP    *simwire.Endpoint
	Ident *Ident
	mu    sync.Mutex
	done  bool
	err   error
	fin   chan struct{}
}

// CliOpt configures NewClient.
type CliOpt struct {
	Ident       *Ident
	Verify      *transport.VerifyConfig
	ServerKEM   *keys.KEMPublicKey // non-nil selects the hidden handshake
	HSTimeout   time.Duration
	MaxBuffered int
}

// NewClient creates a client (handshake not started).
func (w *World) NewClient(addr, server *net.UDPAddr, o CliOpt) *Cli {
	ep := w.Net.Listen(addr)
	cfg := transport.ClientConfig{Exchanger: o.Ident.Key, Leaf: o.Ident.Leaf, Intermediate: o.Ident.Inter,
		Verify: *o.Verify, ServerKEMKey: o.ServerKEM, HSTimeout: o.HSTimeout, MaxBufferedPackets: o.MaxBuffered}
	c := &Cli{W: w, T: transport.NewClient(ep, server, cfg), EP: ep, Ident: o.Ident, fin: make(chan struct{})}
	w.Clients = append(w.Clients, c)
	return c
}

// Start runs Handshake in a goroutine.
func (c *Cli) Start() {
	go func() {
		err := c.T.Handshake()
		c.mu.Lock()
		c.done, c.err = true, err
		c.mu.Unlock()
		close(c.fin)
	}()
}

// Finished reports whether Handshake returned, and its result.
func (c *Cli) Finished() (bool, error) {
	c.mu.Lock()
	defer c.mu.Unlock()
	return c.done, c.err
}

// WaitStep waits until the client is blocked reading the next handshake message, or its handshake
// has returned (success: the post-handshake listener is blocked and Handshake's result is recorded).
func (c *Cli) WaitStep() error {
	deadline := time.Now().Add(StepTimeout)
	for {
		if done, _ := c.Finished(); done {
			if _, open := c.T.VerifSession(); open {
				// success: also wait for the listener goroutine to block so that the endpoint is quiescent
				if err := c.EP.WaitIdle(StepTimeout); err != nil {
					return err
				}
			}
			return nil
		}
		if c.EP.WaitIdle(300*time.Microsecond) == nil {
			if _, open := c.T.VerifSession(); open {
				// the reader that is blocked is the post-handshake listener: Handshake is returning
				select {
				case <-c.fin:
					return nil
				case <-time.After(StepTimeout):
					return fmt.Errorf("handshake result not published")
				}
			}
			// blocked in a handshake read (the client state is still "handshaking")
			select {
			case <-c.fin: // failed in the meantime
			default:
			}
			return nil
		}
		if time.Now().After(deadline) {
			return fmt.Errorf("client not quiescent")
		}
	}
}

// Abort closes a client whose handshake has not returned and waits for it.
func (c *Cli) Abort() {
	c.T.Close()
	<-c.fin
}

// Close tears everything down.
func (w *World) Close() {
	for _, c := range w.Clients {
		c.T.Close()
	}
	for _, s := range w.Servers {
		s.T.Close()
		<-s.served
	}
}

// vhostCallbacks returns the certificate-selection callbacks that a REAL hop server builds for this set of
// virtual hosts: hopserver.NewHopServer is run on an equivalent configuration (it opens a loopback UDP socket,
// which is closed again at once) and the closures are taken from its transport configuration.  If that is not
// possible the selection rule is rebuilt here from hopserver.VirtualHosts.Match (modelVhostCallbacks).
func vhostCallbacks(o SrvOpt) (func(transport.ClientHandshakeInfo) (*transport.Certificate, error), func() ([]*transport.Certificate, error)) {
	if real, ok := realTransportConfig(o); ok {
		return real.GetCertificate, real.GetCertList
	}
	return modelVhostCallbacks(o)
}

// realTransportConfig runs hopserver.NewHopServer on a configuration equivalent to o (per-name keys and
// certificates, no top-level key) and returns the transport configuration it derived.
func realTransportConfig(o SrvOpt) (transport.ServerConfig, bool) {
	ids := append([]*Ident{o.Ident}, o.Extra...)
	kems := append([]*keys.KEMKeyPair{o.KEM}, o.ExtraKEM...)
	sc := &config.ServerConfig{ListenAddress: "127.0.0.1:0", InsecureSkipVerify: true, HandshakeTimeout: 30 * time.Second}
	for i, id := range ids {
		pat := "*"
		if i < len(o.Patterns) {
			pat = o.Patterns[i]
		}
		nc := config.NameConfig{Pattern: pat, Key: id.Key, Certificate: id.Leaf, Intermediate: id.Inter}
		if i < len(kems) {
			nc.KEMKey = kems[i]
		}
		sc.Names = append(sc.Names, nc)
		if o.Hidden {
			sc.HiddenModeVHostNames = append(sc.HiddenModeVHostNames, strings.ReplaceAll(pat, "*", "x"))
		}
	}
	if hs, err := hopserver.NewHopServer(sc); err == nil && hs.Server != nil {
		real := hs.Server.VerifConfig()
		hs.Server.Close()
		if real.GetCertificate != nil && real.GetCertList != nil {
			return real, true
		}
	}
	return transport.ServerConfig{}, false
}

// RealVhostLookup returns the certificate lookup that a REAL hop server (hopserver.NewHopServer) performs for a
// list of virtual hosts, one per pattern, each with its own certificate: name -> 1-based index of the virtual
// host whose certificate is presented, 0 if the server has none for that name.  The closure is the server's own
// (state it may carry from one lookup to the next included).
func RealVhostLookup(ids []*Ident, patterns []string) (func(name string) int, bool) {
	if len(ids) < len(patterns) || len(patterns) == 0 {
		return nil, false
	}
	o := SrvOpt{Ident: ids[0], Extra: ids[1:len(patterns)], Patterns: patterns}
	real, ok := realTransportConfig(o)
	if !ok {
		return nil, false
	}
	raws := make([][]byte, len(patterns))
	for i := range patterns {
		raws[i], _ = ids[i].Leaf.Marshal()
	}
	return func(name string) int {
		c, err := real.GetCertificate(transport.ClientHandshakeInfo{ServerName: certs.DNSName(name)})
		if err != nil || c == nil {
			return 0
		}
		for i, r := range raws {
			if string(r) == string(c.RawLeaf) {
				return i + 1
			}
		}
		return -1
	}, true
}

func modelVhostCallbacks(o SrvOpt) (func(transport.ClientHandshakeInfo) (*transport.Certificate, error), func() ([]*transport.Certificate, error)) {
	// the same selection rule as hopserver.NewHopServer's getCert closure: first virtual host whose
	// pattern matches the requested name (hopserver.VirtualHosts.Match)
	var vhosts hopserver.VirtualHosts
	ids := append([]*Ident{o.Ident}, o.Extra...)
	kems := append([]*keys.KEMKeyPair{o.KEM}, o.ExtraKEM...)
	for i, id := range ids {
		var kem *keys.KEMKeyPair
		if i < len(kems) {
			kem = kems[i]
		}
		tc, err := transport.MakeCert(id.Key, id.Leaf, id.Inter, kem)
		must(err)
		for _, b := range id.Leaf.IDChunk.Blocks {
			tc.HostNames = append(tc.HostNames, b.String())
		}
		pat := "*"
		if i < len(o.Patterns) {
			pat = o.Patterns[i]
		}
		vhosts = append(vhosts, hopserver.VirtualHost{Pattern: pat, Certificate: *tc})
	}
	get := func(info transport.ClientHandshakeInfo) (*transport.Certificate, error) {
		if h := vhosts.Match(string(info.ServerName.Label)); h != nil {
			return &h.Certificate, nil
		}
		return nil, fmt.Errorf("%v did not match a host block", info.ServerName)
	}
	all := func() ([]*transport.Certificate, error) {
		var out []*transport.Certificate
		for i := range vhosts {
			out = append(out, &vhosts[i].Certificate)
		}
		return out, nil
	}
	return get, all
}

// RunHandshake drives an honest handshake of c with s hop by hop until the client finishes.
func (w *World) RunHandshake(c *Cli, s *Srv) error {
	c.Start()
	for hop := 0; hop < 8; hop++ {
		if err := c.WaitStep(); err != nil {
			return err
		}
		out := w.Net.TakeFrom(c.EP)
		if done, err := c.Finished(); done {
			for _, d := range out { // the last client message (ClientAuth) still has to reach the server
				if e := s.EP.Deliver(d.Data, d.From, StepTimeout); e != nil {
					return e
				}
			}
			return err
		}
		if len(out) == 0 {
			return fmt.Errorf("handshake stalled")
		}
		for _, d := range out {
			if err := s.EP.Deliver(d.Data, d.From, StepTimeout); err != nil {
				return err
			}
		}
		for _, d := range w.Net.TakeFrom(s.EP) {
			c.EP.Inject(d.Data, d.From)
		}
	}
	if err := c.WaitStep(); err != nil {
		return err
	}
	_, err := c.Finished()
	return err
}

// Pair is an established client/server pair.
type Pair struct {
	W   *World
	S   *Srv
	C   *Cli
	H   *transport.Handle
	PKI *PKI
}

// NewPair builds a world with one honest server and one honest client and completes the handshake.
func NewPair(p *PKI, sid, cid *Ident, hidden bool, maxBuffered int) (*Pair, error) {
	w := NewWorld()
	sa := simwireAddr("10.0.0.1", 77)
	var kem *keys.KEMKeyPair
	if hidden {
		kem = NewKEM()
	}
	s := w.NewServer(sa, SrvOpt{Ident: sid, KEM: kem, Hidden: hidden, MaxBuffered: maxBuffered})
	opt := CliOpt{Ident: cid, Verify: p.Policy("store", "a.example"), MaxBuffered: maxBuffered}
	if hidden {
		opt.ServerKEM = &kem.Public
	}
	c := w.NewClient(simwireAddr("10.0.1.1", 1001), sa, opt)
	if err := w.RunHandshake(c, s); err != nil {
		w.Close()
		return nil, err
	}
	h, err := s.T.AcceptTimeout(time.Second)
	if err != nil {
		w.Close()
		return nil, err
	}
	return &Pair{W: w, S: s, C: c, H: h, PKI: p}, nil
}

func simwireAddr(ip string, port int) *net.UDPAddr { return simwire.Addr(ip, port) }
