SPECIFICATION TSpec
CONSTANTS Max = 64503
CONSTRAINT HW
POSTCONDITION Accepted
CHECK_DEADLOCK FALSE
