package codex

// Verification driver (added with `go test -overlay`): round trips of the execution request.

import (
	"encoding/json"
	"net"
	"os"
	"testing"
	"time"

	"github.com/creack/pty"
)

func TestVerifWireExec(t *testing.T) {
	out := os.Getenv("VT_OUT")
	if out == "" {
		t.Skip("VT_OUT not set")
	}
	f, err := os.Create(out)
	if err != nil {
		t.Fatal(err)
	}
	defer f.Close()
	yn := func(b bool) string {
		if b {
			return "yes"
		}
		return "no"
	}
	mk := func(n int, c byte) string {
		b := make([]byte, n)
		for i := range b {
			b[i] = c + byte(i%7)
		}
		return string(b)
	}
	for _, cn := range []int{0, 1, 255, 256, 65535, 65536, 65537, 200000} {
		for _, tn := range []int{0, 1, 14, 256, 70000} {
			for _, variant := range []int{0, 1, 2, 3} {
				cmd, term := mk(cn, 'a'), mk(tn, 'A')
				var size *pty.Winsize
				if variant&1 == 1 {
					size = &pty.Winsize{Rows: 24, Cols: 80, X: 65535, Y: 1}
				}
				msg := newExecInitMsg(variant&2 == 2, cmd, term, size)
				b := msg.ToBytes()
				c1, c2 := net.Pipe()
				go func() { c1.Write(b); c1.Close() }()
				c2.SetDeadline(time.Now().Add(5 * time.Second))
				gc, gt, gp, gs, err := GetCmd(c2)
				c2.Close()
				same := err == nil && gc == cmd && gt == term && gp == (variant&2 == 2) && ((gs == nil) == (size == nil)) && (gs == nil || *gs == *size)
				d := "ok"
				if err != nil {
					d = "err"
				}
				bb, _ := json.Marshal(map[string]interface{}{"ev": "rt", "codec": "exec", "lens": map[string]int{"cmd": cn, "term": tn}, "enumok": "yes", "enc": "ok", "dec": d, "same": yn(same), "bytes": len(b)})
				f.Write(append(bb, '\n'))
			}
		}
	}
}
