package userauth

// Verification driver (added with `go test -overlay`): round trips of the user-authentication request over a real
// reliable tube pair on an in-memory message connection, at the boundary lengths of its two-byte length prefix.

import (
	"encoding/json"
	"io"
	"net"
	"os"
	"strings"
	"sync"
	"testing"
	"time"

	"github.com/sirupsen/logrus"

	"hop.computer/hop/common"
	"hop.computer/hop/transport"
	"hop.computer/hop/tubes"
)

type vfEnd struct {
	mu     sync.Mutex
	cond   *sync.Cond
	q      [][]byte
	closed bool
	peer   *vfEnd
}

func vfPipe() (*vfEnd, *vfEnd) {
	a, b := &vfEnd{}, &vfEnd{}
	a.cond, b.cond = sync.NewCond(&a.mu), sync.NewCond(&b.mu)
	a.peer, b.peer = b, a
	return a, b
}
func (e *vfEnd) WriteMsg(b []byte) error {
	p := e.peer
	p.mu.Lock()
	if !p.closed {
		p.q = append(p.q, append([]byte(nil), b...))
		p.cond.Broadcast()
	}
	p.mu.Unlock()
	return nil
}
func (e *vfEnd) ReadMsg(b []byte) (int, error) {
	e.mu.Lock()
	defer e.mu.Unlock()
	for len(e.q) == 0 {
		if e.closed {
			return 0, net.ErrClosed
		}
		e.cond.Wait()
	}
	m := e.q[0]
	e.q = e.q[1:]
	return copy(b, m), nil
}
func (e *vfEnd) Read(b []byte) (int, error)  { return e.ReadMsg(b) }
func (e *vfEnd) Write(b []byte) (int, error) { return len(b), e.WriteMsg(b) }
func (e *vfEnd) Close() error {
	e.mu.Lock()
	e.closed = true
	e.cond.Broadcast()
	e.mu.Unlock()
	return nil
}

type vfAddr string

func (a vfAddr) Network() string                    { return "mem" }
func (a vfAddr) String() string                     { return string(a) }
func (e *vfEnd) LocalAddr() net.Addr                { return vfAddr("a") }
func (e *vfEnd) RemoteAddr() net.Addr               { return vfAddr("b") }
func (e *vfEnd) SetDeadline(t time.Time) error      { return nil }
func (e *vfEnd) SetReadDeadline(t time.Time) error  { return nil }
func (e *vfEnd) SetWriteDeadline(t time.Time) error { return nil }

var _ transport.MsgConn = &vfEnd{}

func TestVerifWireUserAuth(t *testing.T) {
	out := os.Getenv("VT_OUT")
	if out == "" {
		t.Skip("VT_OUT not set")
	}
	logrus.SetOutput(io.Discard)
	f, err := os.Create(out)
	if err != nil {
		t.Fatal(err)
	}
	defer f.Close()
	yn := func(b bool) string {
		if b {
			return "yes"
		}
		return "no"
	}
	lg := logrus.New()
	lg.SetOutput(io.Discard)
	for _, n := range []int{1, 2, 255, 256, 257, 4000, 65534, 65535, 65536, 65537, 70000} {
		user := strings.Repeat("u", n-1) + "z"
		a, b := vfPipe()
		cm := tubes.Client(a, &tubes.Config{Log: logrus.NewEntry(lg)})
		sm := tubes.Server(b, &tubes.Config{Log: logrus.NewEntry(lg)})
		ct, err := cm.CreateReliableTube(common.UserAuthTube)
		if err != nil {
			t.Fatal(err)
		}
		st0, err := sm.Accept()
		if err != nil {
			t.Fatal(err)
		}
		st := st0.(*tubes.Reliable)
		// the client asks; it returns false without an answer only if it refused to send
		res := make(chan bool, 1)
		go func() { res <- RequestAuthorization(ct, user) }()
		got := make(chan string, 1)
		go func() {
			st.SetReadDeadline(time.Now().Add(3 * time.Second))
			u := GetInitMsg(st)
			got <- u
			st.Write([]byte{UserAuthConf})
		}()
		var dec string
		select {
		case dec = <-got:
		case <-time.After(5 * time.Second):
		}
		enc := "ok"
		select {
		case ok := <-res:
			if !ok {
				enc = "err" // refused (or denied): the encoder side reports failure
			}
		case <-time.After(5 * time.Second):
			enc = "err"
		}
		same := dec == user
		d := "ok"
		if enc != "ok" {
			d = "na"
		}
		bb, _ := json.Marshal(map[string]interface{}{"ev": "rt", "codec": "userauth", "lens": map[string]int{"user": n}, "enumok": "yes", "enc": enc, "dec": d, "same": yn(same), "bytes": n + 2})
		f.Write(append(bb, '\n'))
		go cm.Stop()
		go sm.Stop()
	}
}
