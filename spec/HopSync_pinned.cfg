SPECIFICATION Spec
CONSTANTS
  Threads = {t1, t2, t3}
  MaxCalls = 2
  Cap = 1
  Ops = {"Recv", "Send", "SetDL", "Cancel", "Close"}
  Variant = "pinned"
  MaxItems = 3
INVARIANTS TypeOK FIFOOnce NoStuckAfterClose
PROPERTY ClosedStable
CHECK_DEADLOCK FALSE
