SPECIFICATION Spec
CONSTANTS W = 448
INVARIANT ResultMatchesSpec
CONSTRAINT HW
POSTCONDITION Accepted
CHECK_DEADLOCK FALSE
