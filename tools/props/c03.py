# C03 — transport channel: authentic, at-most-once, complete and confidential delivery (DESIGN.md §3 C03)
import json, os, re
import lib
from props import tr_common as T

def run(v, tier, replay):
    thorough = tier == "thorough"
    v.assumptions += ["one session, both directions; packets <= 3/6, steps <= 5/14, receive-queue capacity 3 in replays",
                      "mutations: one region per delivery (type, reserved, session id, counter, body, tag, any truncation length), reflection, forged data/control packets with the live session id",
                      "cross-session injection is covered by the session-id mutation (a packet of another session carries another id and other keys)",
                      "confidentiality: every datagram of both handshake modes and of the data phase is scanned for a payload marker, the server name and raw certificate bytes"]
    T.design(v, thorough)
    behs = T.behaviours(v, 6000 if thorough else 1200)
    res, err = T.replay(behs)
    if res is None:
        # a panic inside the repository's transport code while datagrams are delivered ends every session of the
        # process: nothing written afterwards is delivered ("complete")
        pan = [l for l in err.split("\n") if l.startswith("panic:") or "fatal error" in l]
        where = [l.strip().split(" ")[0].split(lib.REPO_MARK)[-1] for l in err.split("\n") if lib.REPO_MARK in l and "/harness/" not in l]
        if pan and where:
            v.violation("an endpoint crashed while datagrams of a replayed behaviour were delivered: %s | %s" % (pan[0][:120], where[0]),
                        "TLC behaviours (deliveries, mutations, truncations, forgeries) replayed on a real client/server pair", dict(stderr=err))
            return
        raise lib.Inconclusive("trreplay failed: " + err)
    nun = T.judge(v, "C03", behs, res)
    # write sizes on a faithful network: recorded from the real code, judged by TLC (Trace_HopTransport)
    binp = lib.go_build("trwrite")
    sd = lib.scratch("vf-c03-")
    tr = os.path.join(sd, "trace.ndjson")
    rc, so, se = lib.run([binp, tr, str(lib.seed()), "1" if thorough else "0"], timeout=1800)
    if rc != 0:
        raise lib.Inconclusive("trwrite failed: " + (so + se)[-3000:])
    events = lib.read_ndjson(tr)
    r = lib.tlc("Trace_HopTransport", "Trace_HopTransport.cfg", files={"trace.ndjson": "@" + tr}, workers=1, timeout=900)
    v.add_tlc("Trace_HopTransport (write sizes, concurrent writers)", r)
    if not r.ok:
        raise lib.Inconclusive("trace not consumed by Trace_HopTransport: %s\n%s" % (r.kind, r.out[-2000:]))
    v.cov["traces_validated_against_impl"] += 1
    v.cov["write_events"] = len(events)
    for e in events:
        v.case(("w", json.dumps(e, sort_keys=True)))
    v.sample(events[0]); v.sample(events[-1])
    for m in re.finditer(r'<<"MISMATCH", (\d+)>>', r.out):
        e = events[int(m.group(1)) - 1]
        if e["ev"] == "write":
            sig = "Write(%d bytes) by %s returned %d, sent %d packet(s) carrying %d bytes, peer read %d bytes (intact=%s)" % (e["n"], e["who"], e["ret"], e["pkts"], e["sentbytes"], e["read"], e["intact"])
        elif e["ev"] == "latehs":
            sig = "after %d late cop%s of the session's own handshake datagrams (%s, hidden=%s) and the server's handshake timeout, %d of %d messages written on the established session were delivered%s" % (
                e["copies"], "y" if e["copies"] == 1 else "ies", e["which"], e["hidden"], e["delivered"], e["sent"], " (%s)" % e["note"] if e["note"] else "")
        elif e["ev"] == "longrun":
            sig = "long session: %d sent, %d delivered, %d of %d replayed datagrams delivered again, peer address moved %d times" % (e["sent"], e["delivered"], e["redelivered"], e["replays"], e["moved"])
        else:
            sig = "concurrent writers: %s" % json.dumps(e, sort_keys=True)
        v.violation(sig, "faithful simulated network, real client/server pair; judged by Trace_HopTransport against the chunking rule of the specification", e)
    if nun and not v.viol:
        raise lib.Inconclusive("%d behaviours differ between model and code in ways no property clause explains" % nun)
