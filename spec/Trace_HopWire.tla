----------------------------- MODULE Trace_HopWire -----------------------------
EXTENDS HopWire, Json
Trace == ndJsonDeserialize("trace.ndjson")
VARIABLES l, bad
Ev == Trace[l]
Good(e) ==
    CASE e.ev = "rt" ->                   \* a value was encoded (and, if that worked, decoded and compared)
           IF Representable(e.codec, e.lens) /\ e.enumok = "yes"
           THEN e.enc = "ok" /\ e.dec = "ok" /\ e.same = "yes"
           ELSE IF ~Representable(e.codec, e.lens) THEN e.enc = "err"      \* rejected when encoding
           ELSE e.enc \in {"ok", "err"} /\ (e.enc = "ok" => (e.dec \in {"ok", "err"} /\ (e.dec = "ok" => e.same = "yes")))
      [] e.ev = "stab" -> (e.dec = "ok") => e.stable = "yes"              \* accepted bytes re-encode to the same value
      [] OTHER -> FALSE
TInit == l = 1 /\ bad = 0 /\ c = "string" /\ f = "s" /\ n = 0
TNext == /\ l <= Len(Trace) /\ l' = l + 1 /\ UNCHANGED <<c, f, n>>
         /\ IF Good(Ev) THEN bad' = bad ELSE bad' = bad + 1 /\ PrintT(<<"MISMATCH", l>>)
TSpec == TInit /\ [][TNext]_<<l, bad, c, f, n>>
HW == TLCSet(1, l)
Accepted == TLCGet(1) = Len(Trace) + 1
=============================================================================
