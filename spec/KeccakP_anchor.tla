--------------------------- MODULE KeccakP_anchor ---------------------------
(* Anchor of KeccakP.tla: TLC evaluates Keccak-f[1600] on the all-zero state and compares with the *)
(* published intermediate-value vector.                                                            *)
EXTENDS KeccakP
ASSUME ZeroVector24
VARIABLE x
Spec == x = 0 /\ [][UNCHANGED x]_x
=============================================================================
