// c13 runs programs over the Cyclist duplex API and records, per interface call, the Up / Down steps the
// object performed (from the verif trace events in cyclist.up / cyclist.down: colour byte, block length, mode,
// phase, and the full 200-byte state before and after each step).  Keyed programs are run on two objects: A
// executes the program, B executes the same program except that it decrypts what A encrypted.
//
//	c13 <out.ndjson> <seed> <nrandom> <deep-every>
//
// Programs: every initialisation class x every single call, every pair of calls over a reduced set of length
// classes, plus <nrandom> seeded programs of 3 to 5 calls (re-initialisation in the middle included).
// Every <deep-every>-th program is recorded with full states ("deep"), the others with the steps only.
package main

import (
	"bytes"
	"encoding/json"
	"fmt"
	"math/rand"
	"os"
	"strconv"

	"hop.computer/hop/cyclist"
	"hop.computer/hop/pkg/vt"
	"verif/harness/rec"
)

type call struct {
	Op      string `json:"op"`
	A, B, C int    // operand lengths: data / key, id, counter
}

var lens = []int{0, 1, 135, 136, 137, 272, 273}
var lensSmall = []int{0, 1, 136, 137, 272}

type initClass struct {
	name    string
	k, i, c int
}

var inits = []initClass{{"empty", -1, 0, 0}, {"nokey", 0, 0, 0}, {"key16", 16, 0, 0}, {"key32-id8-ctr2", 32, 8, 2}, {"key100-id35", 100, 35, 0}, {"key135", 135, 0, 0},
	{"key16-ctr1", 16, 0, 1}, {"key1-id0-ctr4", 1, 0, 4}}

func initCall(ic initClass) call {
	if ic.k < 0 {
		return call{Op: "InitializeEmpty"}
	}
	return call{Op: "Initialize", A: ic.k, B: ic.i, C: ic.c}
}

func opsFor(keyed bool, ls []int) []call {
	var out []call
	for _, l := range ls {
		out = append(out, call{Op: "Absorb", A: l}, call{Op: "Squeeze", A: l})
		if keyed {
			out = append(out, call{Op: "Encrypt", A: l}, call{Op: "SqueezeKey", A: l})
		}
	}
	if keyed {
		out = append(out, call{Op: "Ratchet"})
	}
	return out
}

type step struct {
	K    string `json:"k"`
	C    int    `json:"c"`
	N    int    `json:"n"`
	Mode int    `json:"mode"`
	Ph   int    `json:"ph"`
	Pre  string `json:"pre,omitempty"`
	Post string `json:"post,omitempty"`
	X    string `json:"x,omitempty"`
	Y    string `json:"y,omitempty"`
	Fin  string `json:"fin,omitempty"`
}

var cur []step
var curObj int

func sink(b []byte) {
	var e map[string]any
	if json.Unmarshal(b, &e) != nil {
		return
	}
	s := func(k string) string { v, _ := e[k].(string); return v }
	n := func(k string) int { v, _ := e[k].(float64); return int(v) }
	switch e["ev"] {
	case "cy.down":
		cur = append(cur, step{K: "down", C: n("c"), N: n("n"), Mode: n("mode"), Ph: n("ph"), Pre: s("pre"), X: s("x")})
	case "cy.up":
		cur = append(cur, step{K: "up", C: n("c"), N: n("n"), Mode: n("mode"), Ph: n("ph"), Pre: s("pre")})
	case "cy.f":
		cur[len(cur)-1].Fin = s("in")
	case "cy.down.done":
		cur[len(cur)-1].Post = s("post")
	case "cy.up.done":
		cur[len(cur)-1].Post = s("post")
		cur[len(cur)-1].Y = s("y")
	}
}

func hexs(b []byte) string { return vt.Bytes(b) }

func data(rng *rand.Rand, n int) []byte {
	b := make([]byte, n)
	rng.Read(b)
	return b
}

// exec runs one call on an object; in is the operand (plaintext / ciphertext / absorbed data), returns the output.
func exec(o *cyclist.Cyclist, c call, in, key, id, ctr []byte, decrypt bool) []byte {
	switch c.Op {
	case "InitializeEmpty":
		o.InitializeEmpty()
	case "Initialize":
		o.Initialize(key, id, ctr)
	case "Absorb":
		o.Absorb(in)
	case "Encrypt":
		out := make([]byte, len(in))
		if decrypt {
			o.Decrypt(out, in)
		} else {
			o.Encrypt(out, in)
		}
		return out
	case "Squeeze":
		out := make([]byte, c.A)
		o.Squeeze(out)
		return out
	case "SqueezeKey":
		out := make([]byte, c.A)
		o.SqueezeKey(out)
		return out
	case "Ratchet":
		o.Ratchet()
	}
	return nil
}

func runProgram(w *rec.W, id int, prog []call, rng *rand.Rand, deep bool) {
	a, b := new(cyclist.Cyclist), new(cyclist.Cyclist)
	// objects are deliberately NOT fresh: a previous life leaves them in the Down phase with a dirty state
	a.Initialize([]byte("previous life"), nil, nil)
	a.Absorb([]byte("x"))
	b.Initialize([]byte("previous life"), nil, nil)
	b.Absorb([]byte("x"))
	emit := func(obj string, k int, c call, steps []step, in, out []byte, opname string) {
		st := make([]map[string]any, len(steps))
		for i, s := range steps {
			m := map[string]any{"k": s.K, "c": s.C, "n": s.N, "mode": s.Mode, "ph": s.Ph}
			if deep {
				m["pre"], m["post"], m["x"], m["y"], m["fin"] = s.Pre, s.Post, s.X, s.Y, s.Fin
			} else {
				// short digests of the states for the chaining and peer checks
				m["pre"], m["post"] = s.Pre[:16]+s.Pre[384:], s.Post[:16]+s.Post[384:]
			}
			st[i] = m
		}
		kv := []any{"p", id, "o", obj, "k", k, "op", opname, "a", c.A, "b", c.B, "c", c.C, "deep", deep, "steps", st}
		if deep {
			kv = append(kv, "in", hexs(in), "out", hexs(out))
		} else {
			kv = append(kv, "in", "", "out", "")
		}
		w.Ev("call", kv...)
	}
	for k, c := range prog {
		var in, key, idb, ctr []byte
		switch c.Op {
		case "Initialize":
			key, idb, ctr = data(rng, c.A), data(rng, c.B), data(rng, c.C)
			// what the specification absorbs: key || id || enc8(|id|), then the counter
			in = append(append(append(append([]byte{}, key...), idb...), byte(len(idb))), ctr...)
		case "Absorb", "Encrypt":
			in = data(rng, c.A)
		}
		cur = nil
		outA := exec(a, c, in, key, idb, ctr, false)
		sa := cur
		emit("A", k, c, sa, in, outA, c.Op)
		// the peer: same call, but it decrypts A's ciphertext
		cur = nil
		inB := in
		name := c.Op
		if c.Op == "Encrypt" {
			inB, name = outA, "Decrypt"
		}
		outB := exec(b, c, inB, key, idb, ctr, true)
		sb := cur
		emit("B", k, c, sb, inB, outB, name)
		same := true
		switch c.Op {
		case "Encrypt":
			same = bytes.Equal(outB, in)
		case "Squeeze", "SqueezeKey":
			same = bytes.Equal(outA, outB)
		}
		w.Ev("sync", "p", id, "k", k, "op", c.Op, "outputs_agree", same)
	}
}

func main() {
	w := rec.Must(os.Args[1])
	defer w.Close()
	seed, _ := strconv.ParseInt(os.Args[2], 10, 64)
	nrand, _ := strconv.Atoi(os.Args[3])
	deepEvery, _ := strconv.Atoi(os.Args[4])
	rng := rand.New(rand.NewSource(seed))
	vt.SetSink(sink)
	var progs [][]call
	for _, ic := range inits {
		keyed := ic.k > 0
		for _, c1 := range opsFor(keyed, lens) {
			progs = append(progs, []call{initCall(ic), c1})
		}
		for _, c1 := range opsFor(keyed, lensSmall) {
			for _, c2 := range opsFor(keyed, lensSmall) {
				progs = append(progs, []call{initCall(ic), c1, c2})
			}
		}
	}
	for n := 0; n < nrand; n++ {
		ic := inits[rng.Intn(len(inits))]
		keyed := ic.k > 0
		p := []call{initCall(ic)}
		for k := 0; k < 3+rng.Intn(3); k++ {
			if rng.Intn(6) == 0 { // re-initialise in the middle of a life
				ic = inits[rng.Intn(len(inits))]
				keyed = ic.k > 0
				p = append(p, initCall(ic))
				continue
			}
			ops := opsFor(keyed, lens)
			p = append(p, ops[rng.Intn(len(ops))])
		}
		progs = append(progs, p)
	}
	for id, p := range progs {
		deep := deepEvery > 0 && (id*7+int(seed))%deepEvery == 0
		w.Ev("prog", "p", id, "deep", deep, "text", fmt.Sprint(p))
		runProgram(w, id, p, rng, deep)
	}
	w.Ev("done", "programs", len(progs))
}
