package hopserver

// Verification driver (added with `go test -overlay`, built with the verif tag): replays histories emitted
// by TLC from HopGrants.tla on a real HopServer and real sessions.  Grants are stored with AddAuthGrant, a
// delegate connects through the session's real start() loop (user authorization over a UserAuth tube on an
// in-memory muxer pair, admission through AuthorizeKey / AuthorizeKeyAuthGrant), and asks for actions by
// opening tubes exactly as a client does: two exec tubes with an init message (shell or command), a
// port-forwarding control tube, an authorization-grant tube carrying an Intent Communication.  Nothing is really
// executed: thunks.LookupUser fails, so a request that PASSED the grant check is recognised by the failure
// text of the next step.  The clock is thunks.TimeNow.

import (
	"bufio"
	"encoding/binary"
	"encoding/json"
	"errors"
	"fmt"
	"io"
	"net"
	"os"
	"strings"
	"sync"
	"testing"
	"time"

	"github.com/sirupsen/logrus"

	"hop.computer/hop/authgrants"
	"hop.computer/hop/authkeys"
	"hop.computer/hop/certs"
	"hop.computer/hop/common"
	"hop.computer/hop/config"
	"hop.computer/hop/keys"
	"hop.computer/hop/pkg/thunks"
	"hop.computer/hop/transport"
	"hop.computer/hop/tubes"
	"hop.computer/hop/userauth"

	"github.com/AstromechZA/etcpwdparse"
)


// ---- in-memory message connection ----

type vfEnd struct {
	mu     sync.Mutex
	cond   *sync.Cond
	q      [][]byte
	closed bool
	peer   *vfEnd
	name   string
}

func vfPipe() (*vfEnd, *vfEnd) {
	a, b := &vfEnd{name: "a"}, &vfEnd{name: "b"}
	a.cond, b.cond = sync.NewCond(&a.mu), sync.NewCond(&b.mu)
	a.peer, b.peer = b, a
	return a, b
}
func (e *vfEnd) WriteMsg(b []byte) error {
	e.mu.Lock()
	c := e.closed
	e.mu.Unlock()
	if c {
		return net.ErrClosed
	}
	p := e.peer
	p.mu.Lock()
	if !p.closed {
		p.q = append(p.q, append([]byte(nil), b...))
		p.cond.Broadcast()
	}
	p.mu.Unlock()
	return nil
}
func (e *vfEnd) ReadMsg(b []byte) (int, error) {
	e.mu.Lock()
	defer e.mu.Unlock()
	for len(e.q) == 0 {
		if e.closed {
			return 0, net.ErrClosed
		}
		e.cond.Wait()
	}
	m := e.q[0]
	e.q = e.q[1:]
	return copy(b, m), nil
}
func (e *vfEnd) Read(b []byte) (int, error)  { return e.ReadMsg(b) }
func (e *vfEnd) Write(b []byte) (int, error) { return len(b), e.WriteMsg(b) }
func (e *vfEnd) Close() error {
	e.mu.Lock()
	e.closed = true
	e.cond.Broadcast()
	e.mu.Unlock()
	return nil
}

type vfAddr string

func (a vfAddr) Network() string { return "mem" }
func (a vfAddr) String() string  { return string(a) }

func (e *vfEnd) LocalAddr() net.Addr                { return vfAddr(e.name) }
func (e *vfEnd) RemoteAddr() net.Addr               { return vfAddr(e.peer.name) }
func (e *vfEnd) SetDeadline(t time.Time) error      { return nil }
func (e *vfEnd) SetReadDeadline(t time.Time) error  { return nil }
func (e *vfEnd) SetWriteDeadline(t time.Time) error { return nil }

var _ transport.MsgConn = &vfEnd{}

// ---- history format ----

type vfGrant struct {
	ID    int    `json:"id"`
	Type  string `json:"type"`
	Cmd   string `json:"cmd"`
	Start int    `json:"start"`
	Exp   int    `json:"exp"`
	User  string `json:"user"`
	Key   string `json:"key"`
}
type vfKind struct {
	Type string `json:"type"`
	Cmd  string `json:"cmd"`
}
type vfOp struct {
	Op   string  `json:"op"`
	G    vfGrant `json:"g"`
	Now  int     `json:"now"`
	User string  `json:"user"`
	Key  string  `json:"key"`
	Sid  int     `json:"sid"`
	Kind vfKind  `json:"kind"`
	En   bool    `json:"enabled"`
}
type vfHist struct {
	ID   int    `json:"id"`
	Hist []vfOp `json:"hist"`
}

type vfIdent struct {
	kp   *keys.X25519KeyPair
	cert *certs.Certificate
}

var vfBase = time.Date(2031, 3, 1, 12, 0, 0, 0, time.UTC)

// vfFlavour selects how the model's three command texts are made concrete ("A" is a proper prefix of "AB" in
// every flavour): short texts, and texts at the size a stored grant can carry (255 bytes on the wire) with the
// longer request continuing beyond it.
var vfFlavour int

func vfCmdText(c string) string {
	pad := func(s string, n int) string { return s + strings.Repeat("x", n-len(s)) }
	switch vfFlavour % 4 {
	case 1:
		a := pad("make deploy TARGET=", 255)
		return map[string]string{"A": a, "AB": a + "; cat /etc/shadow", "B": pad("make clean TARGET=", 255)}[c]
	case 2:
		a := pad("make deploy TARGET=", 254)
		return map[string]string{"A": a, "AB": a + "y", "B": pad("make clean TARGET=", 254)}[c]
	case 3:
		a := pad("make deploy TARGET=", 255)
		return map[string]string{"A": a, "AB": a + strings.Repeat("z", 300), "B": "b"}[c]
	}
	return map[string]string{"A": "make deploy", "AB": "make deploy-all", "B": "make clean"}[c]
}

type vfSession struct {
	sess *hopSession
	cmux *tubes.Muxer
	smux *tubes.Muxer
	user string
	ok   bool
	pf   *tubes.Reliable // a port-forwarding control tube opened right after admission, used by the first request
}

func vfReadTimeout(t *tubes.Reliable, n int, d time.Duration) ([]byte, error) {
	t.SetReadDeadline(time.Now().Add(d))
	b := make([]byte, n)
	_, err := io.ReadFull(t, b)
	return b, err
}

// vfConfigFromFile builds the server configuration the way hopd does: a configuration file on disk, read by
// config.LoadServerConfigFromFile.  The two switches are rendered as "true", "false" or left out (variant picks the
// rendering of the false / irrelevant cases), so that what the administrator wrote is what the server must honour.
func vfConfigFromFile(t *testing.T, dir string, grants bool, variant int) *config.ServerConfig {
	keyPath, certPath := dir+"/id_hop.pem", dir+"/id_hop.cert"
	if _, err := os.Stat(keyPath); err != nil {
		kp := keys.GenerateNewX25519KeyPair()
		c, err := certs.SelfSignLeaf(&certs.Identity{PublicKey: kp.Public, Names: []certs.Name{certs.DNSName("target.example")}})
		if err != nil {
			t.Fatal(err)
		}
		pb, err := certs.EncodeCertificateToPEM(c)
		if err != nil {
			t.Fatal(err)
		}
		os.WriteFile(keyPath, []byte(kp.Private.String()), 0600)
		os.WriteFile(certPath, pb, 0600)
	}
	txt := fmt.Sprintf("ListenAddress = \":77\"\nKey = %q\nCertificate = %q\n", keyPath, certPath)
	switch {
	case grants:
		txt += "EnableAuthgrants = true\n"
	case variant%2 == 0:
		txt += "EnableAuthgrants = false\n"
	}
	switch (variant / 2) % 3 {
	case 0:
		txt += "EnableAuthorizedKeys = true\n"
	case 1:
		txt += "EnableAuthorizedKeys = false\n"
	}
	path := fmt.Sprintf("%s/config-%v-%d.toml", dir, grants, variant%6)
	if err := os.WriteFile(path, []byte(txt), 0600); err != nil {
		t.Fatal(err)
	}
	c, err := config.LoadServerConfigFromFile(path)
	if err != nil {
		t.Fatalf("loading %s: %v", path, err)
	}
	return c
}

func TestVerifGrantsReplay(t *testing.T) {
	in, out := os.Getenv("VT_IN"), os.Getenv("VT_OUT")
	if in == "" || out == "" {
		t.Skip("VT_IN/VT_OUT not set")
	}
	logrus.SetOutput(io.Discard)
	logrus.SetLevel(logrus.PanicLevel)
	fi, err := os.Open(in)
	if err != nil {
		t.Fatal(err)
	}
	defer fi.Close()
	fo, err := os.Create(out)
	if err != nil {
		t.Fatal(err)
	}
	defer fo.Close()
	w := bufio.NewWriter(fo)
	defer w.Flush()
	now := vfBase
	var clock sync.Mutex
	oldNow, oldLookup := thunks.TimeNow, thunks.LookupUser
	thunks.TimeNow = func() time.Time { clock.Lock(); defer clock.Unlock(); return now }
	thunks.LookupUser = func(string) (*etcpwdparse.EtcPasswdEntry, error) { return nil, errors.New("no such user (verification)") }
	defer func() { thunks.TimeNow, thunks.LookupUser = oldNow, oldLookup }()
	// a listener the server may dial for local port forwarding
	ln, err := net.Listen("tcp", "127.0.0.1:0")
	if err != nil {
		t.Fatal(err)
	}
	defer ln.Close()
	go func() {
		for {
			c, err := ln.Accept()
			if err != nil {
				return
			}
			go func(c net.Conn) { // a private service: whoever is proxied to it reads its banner
				c.Write([]byte("PRIVATE-SERVICE-BANNER\n"))
				time.Sleep(50 * time.Millisecond)
				c.Close()
			}(c)
		}
	}()
	idents := map[string]*vfIdent{}
	ident := func(name string) *vfIdent {
		if i, ok := idents[name]; ok {
			return i
		}
		kp := keys.GenerateNewX25519KeyPair()
		c, err := certs.SelfSignLeaf(&certs.Identity{PublicKey: kp.Public, Names: []certs.Name{certs.RawStringName(name)}})
		if err != nil {
			t.Fatal(err)
		}
		idents[name] = &vfIdent{kp, c}
		return idents[name]
	}
	lg := logrus.New()
	lg.SetOutput(io.Discard)
	cfgDir := t.TempDir()
	sc := bufio.NewScanner(fi)
	sc.Buffer(make([]byte, 1<<20), 1<<24)
	for sc.Scan() {
		var h vfHist
		if err := json.Unmarshal(sc.Bytes(), &h); err != nil {
			t.Fatal(err)
		}
		clock.Lock()
		now = vfBase
		clock.Unlock()
		ks := authkeys.NewSyncAuthKeySet()
		variant := h.ID
		vfFlavour = h.ID / 2
		scfg := vfConfigFromFile(t, cfgDir, true, variant)
		s, err := NewHopServerExt(nil, scfg, ks)
		if err != nil {
			t.Fatal(err)
		}
		var sessions []*vfSession
		var results []map[string]any
		for _, op := range h.Hist {
			r := map[string]any{"op": op.Op}
			switch op.Op {
			case "add":
				g := op.G
				in := &authgrants.Intent{StartTime: vfBase.Add(time.Duration(g.Start) * time.Minute), ExpTime: vfBase.Add(time.Duration(g.Exp) * time.Minute),
					TargetSNI: certs.DNSName("target.example"), TargetUsername: "vf-" + g.User, DelegateCert: *ident(g.Key).cert}
				switch g.Type {
				case "shell":
					in.GrantType = authgrants.Shell
				case "cmd":
					in.GrantType = authgrants.Command
					in.AssociatedData.CommandGrantData.Cmd = vfCmdText(g.Cmd)
				case "localpf":
					in.GrantType = authgrants.LocalPF
				case "remotepf":
					in.GrantType = authgrants.RemotePF
				}
				r["err"] = fmt.Sprint(s.AddAuthGrant(in))
			case "toggle":
				// the administrator edits the file and the server takes the new settings (the flags are read live
				// through the configuration pointer)
				variant++
				nc := vfConfigFromFile(t, cfgDir, op.En, variant)
				scfg.EnableAuthgrants, scfg.EnableAuthorizedKeys = nc.EnableAuthgrants, nc.EnableAuthorizedKeys
			case "tick":
				clock.Lock()
				now = vfBase.Add(time.Duration(op.Now) * time.Minute)
				clock.Unlock()
			case "connect":
				a, b := vfPipe()
				vs := &vfSession{user: "vf-" + op.User}
				vs.smux = tubes.Server(b, &tubes.Config{Log: logrus.NewEntry(lg)})
				vs.cmux = tubes.Client(a, &tubes.Config{Log: logrus.NewEntry(lg)})
				vs.sess = &hopSession{transportConn: transport.VerifNewHandle(ident(op.Key).cert), tubeMuxer: vs.smux, server: s,
					ID: sessID(len(sessions) + 1), pty: make(chan *os.File, 1)}
				s.sessionLock.Lock()
				s.sessions[vs.sess.ID] = vs.sess
				s.sessionLock.Unlock()
				go vs.sess.start()
				ua, err := vs.cmux.CreateReliableTube(common.UserAuthTube)
				if err == nil {
					msg := make([]byte, 2+len(vs.user))
					binary.BigEndian.PutUint16(msg, uint16(len(vs.user)))
					copy(msg[2:], vs.user)
					ua.Write(msg)
					b, err := vfReadTimeout(ua, 1, 3*time.Second)
					vs.ok = err == nil && b[0] == userauth.UserAuthConf
					ua.Close()
				}
				r["admitted"] = vs.ok
				sessions = append(sessions, vs)
			case "pfopen":
				// the control tube of a forwarding request is opened now, the request itself is sent by a later step
				// (a correct server judges a request when it is made, not when its tube was opened)
				vs := sessions[op.Sid-1]
				if vs.ok {
					vs.pf, _ = vs.cmux.CreateReliableTube(common.PFControlTube)
					time.Sleep(40 * time.Millisecond) // let the session loop accept it before the clock moves on
				}
			case "request":
				vs := sessions[op.Sid-1]
				started, detail := false, ""
				// a connection that was refused has no session loop behind it: nothing answers, so the waits are short
				wait := 3 * time.Second
				if !vs.ok {
					wait = 300 * time.Millisecond
				}
				switch op.Kind.Type {
				case "shell", "cmd":
					t1, e1 := vs.cmux.CreateReliableTube(common.ExecTube)
					t2, e2 := vs.cmux.CreateReliableTube(common.ExecTube)
					if e1 != nil || e2 != nil {
						detail = "tube creation failed"
						break
					}
					stdin, stdout := t1, t2
					if t2.GetID() < t1.GetID() {
						stdin, stdout = t2, t1
					}
					cmd := vfCmdText(op.Kind.Cmd)
					flags := byte(0)
					if op.Kind.Type == "shell" {
						flags, cmd = 1, "" // pty requested, no command: a login shell
					}
					msg := []byte{flags}
					msg = binary.BigEndian.AppendUint32(msg, uint32(len(cmd)))
					msg = append(msg, cmd...)
					msg = binary.BigEndian.AppendUint32(msg, 5)
					msg = append(msg, "xterm"...)
					stdin.Write(msg)
					hd, err := vfReadTimeout(stdout, 5, wait)
					if err != nil {
						detail = "no status: " + err.Error()
					} else {
						n := int(binary.BigEndian.Uint16(hd[1:3]))
						txt, _ := vfReadTimeout(stdout, n, wait)
						detail = string(txt)
						// past the grant check the next step is the user lookup, which fails here by construction
						started = hd[0] == 1 || strings.Contains(detail, "could not find entry for user")
					}
					stdin.Close()
					stdout.Close()
				case "localpf", "remotepf":
					ct, err := vs.pf, error(nil)
					vs.pf = nil
					if ct == nil {
						ct, err = vs.cmux.CreateReliableTube(common.PFControlTube)
					}
					if err != nil {
						detail = "tube creation failed"
						break
					}
					addr := ln.Addr().String()
					ft := byte(4)
					if op.Kind.Type == "remotepf" {
						addr, ft = "127.0.0.1:0", 5
					}
					msg := []byte{1, ft}
					msg = binary.BigEndian.AppendUint16(msg, uint16(len(addr)))
					msg = append(msg, addr...)
					ct.Write(msg)
					b, err := vfReadTimeout(ct, 1, wait)
					started = err == nil && b[0] == 1
					if err != nil {
						detail = "no answer: " + err.Error()
					}
					ct.Close()
				case "pfdata":
					// a port-forwarding DATA tube opened directly: it is proxied only if a forwarding was authorized before
					dt, err := vs.cmux.CreateReliableTube(common.PFTube)
					if err != nil {
						detail = "tube creation failed"
						break
					}
					b, err := vfReadTimeout(dt, 8, wait/2)
					started = err == nil && string(b) == "PRIVATE-"
					if err != nil {
						detail = "no banner: " + err.Error()
					}
					dt.Close()
				case "issue":
					at, err := vs.cmux.CreateReliableTube(common.AuthGrantTube)
					if err != nil {
						detail = "tube creation failed"
						break
					}
					in := authgrants.Intent{GrantType: authgrants.Shell, StartTime: time.Now().Add(-time.Hour), ExpTime: time.Now().Add(time.Hour),
						TargetSNI: certs.DNSName("target.example"), TargetUsername: vs.user, DelegateCert: *ident(fmt.Sprintf("issued-%d", len(results))).cert}
					at.SetDeadline(time.Now().Add(wait))
					if err := authgrants.WriteIntentCommunication(at, in); err != nil {
						detail = "write failed: " + err.Error()
					} else if m, err := authgrants.ReadConfOrDenial(at); err != nil {
						detail = "no answer: " + err.Error()
					} else {
						started = m.MsgType == authgrants.IntentConfirmation
						detail = m.Data.Denial
					}
					at.Close()
				}
				r["started"], r["detail"] = started, detail
				left := []string{}
				for _, ag := range vs.sess.authorizedActions {
					left = append(left, fmt.Sprintf("%d/%s", ag.GrantType, ag.AssociatedData.CommandGrantData.Cmd))
				}
				r["left"] = len(left)
			}
			// key set after the step
			inset := map[string]bool{}
			for name, id := range idents {
				if !strings.HasPrefix(name, "issued-") {
					inset[name] = ks.VerifyLeaf(id.cert, certs.VerifyOptions{}) == nil
				}
			}
			r["keyset"] = inset
			results = append(results, r)
		}
		// what is left in the store (destructive: at the end only)
		store := map[string]int{}
		for _, u := range []string{"u1", "u2"} {
			for name, id := range idents {
				if strings.HasPrefix(name, "issued-") {
					continue
				}
				if ags, err := s.agMap.RemoveAuthgrants("vf-"+u, id.kp.Public); err == nil {
					store[u+"/"+name] = len(ags)
				}
			}
		}
		for _, vs := range sessions {
			go vs.cmux.Stop()
			go vs.smux.Stop()
		}
		b, _ := json.Marshal(map[string]any{"id": h.ID, "results": results, "store": store})
		w.Write(b)
		w.WriteByte('\n')
	}
	w.WriteString("{\"done\":true}\n")
}
