# C09 — tubes are isolated from each other and from earlier tubes with the same id (DESIGN.md §3 C09)
import json, os, re
import lib

def run(v, tier, replay):
    thorough = tier == "thorough"
    v.assumptions += ["every tube instance writes a stream tagged with its own instance number, so the reader identifies the source instance of every byte",
                      "ids are reused after the reap delay (1.5 s waits between rounds); frames of a closed instance held back beyond that delay are explored at design level (Stale = TRUE) and through the recorded delayed-REQ history",
                      "unreliable tubes: message sizes {0,1,2,100,32767,32768,32769,40000,65535,65536,65636}; sizes above the frame limit must be rejected by the writer"]
    binp = lib.go_build("tubemux")
    r = lib.tlc("HopMux", "MC_HopMux.cfg", timeout=900)
    lib.tlc_must_pass(r, "MC_HopMux"); v.add_tlc("MC_HopMux.cfg (frames of an instance do not outlive its reaping)", r)
    r = lib.tlc("HopMux", "MC_HopMux_stale.cfg", timeout=300)
    v.add_tlc("MC_HopMux_stale.cfg (a frame may be held back past close + reap)", r)
    v.cov["design_stale_frames_break"] = r.violated      # expected: OfferedOnce - the initiation frame carries no generation
    if r.kind != "invariant":
        raise lib.Inconclusive("stale-frame configuration: expected an invariant violation at design level, got %s" % r.kind)
    sd = lib.scratch("vf-c09-")
    tr = os.path.join(sd, "mux.ndjson")
    rc, so, se = lib.run([binp, tr, str(lib.seed()), "1" if thorough else "0"], timeout=3000)
    if rc == 3:
        evs = lib.read_ndjson(tr)
        pend = sorted({e["sc"] for e in evs if e["ev"] == "reset"} - {e["sc"] for e in evs if e["ev"] == "end"} - {-1})
        names = {e["sc"]: e.get("name") for e in evs if e["ev"] == "reset"}
        v.violation("driver stuck: scenarios %s did not finish within the watchdog time - a create/write/close/accept call never returned, or a remotely opened tube was never offered" % sorted({re.sub(r"^(reuse-\d+-creators(-lossy)?).*", r"\1", names.get(s, "?")) for s in pend}),
                    "real muxer pair over the scripted network; every wait in the driver is bounded except library calls", dict(pending=[names.get(s) for s in pend]))
        return
    if rc != 0:
        raise lib.Inconclusive("tubemux failed: " + (so + se)[-3000:])
    evs = lib.read_ndjson(tr)
    by = {}
    for e in evs:
        by.setdefault(e["sc"], []).append(e)
    events, names = [], {}
    for sc in sorted(by):
        g = by[sc]
        # creates before accepts: an accept is logged when the tube has been read to the end
        g.sort(key=lambda e: {"reset": 0, "create": 1}.get(e["ev"], 2))
        names[sc] = g[0].get("name", "?")
        events += g
    t2 = os.path.join(sd, "trace.ndjson")
    lib.write_ndjson(t2, events)
    r = lib.tlc("Trace_HopMux", "Trace_HopMux.cfg", files={"trace.ndjson": "@" + t2}, workers=1, timeout=1800)
    v.add_tlc("Trace_HopMux", r)
    if not r.ok:
        raise lib.Inconclusive("trace not consumed: %s\n%s" % (r.kind, r.out[-2000:]))
    v.cov["traces_validated_against_impl"] += len(by)
    v.cov["instances_created"] = sum(1 for e in events if e["ev"] == "create")
    v.cov["tubes_accepted"] = sum(1 for e in events if e["ev"] == "accept")
    for e in events:
        v.case(json.dumps(e, sort_keys=True), nontrivial=e["ev"] in ("create", "accept", "unrel"))
    v.sample([e for e in events if e["ev"] == "create"][0]); v.sample([e for e in events if e["ev"] == "accept"][0]); v.sample([e for e in events if e["ev"] == "unrel"][0])
    created = {}
    for e in events:
        if e["ev"] == "create":
            created[(e["sc"], e["inst"])] = e
    for m in re.finditer(r'<<"MISMATCH", (\d+)>>', r.out):
        e = events[int(m.group(1)) - 1]
        name = names[e["sc"]]
        if e["ev"] == "accept" and name == "late-duplicate-req":
            sig = "late duplicate REQ: after close and reap the acceptor is offered tube id %s again (type %s), instance found in its bytes: %s, pure=%s" % (e["id"], e["type"], e["inst"], e["pure"])
        elif e["ev"] == "accept":
            c = created.get((e["sc"], e["inst"]))
            sig = "scenario %s: accepted tube id %s rel=%s type %s carries bytes of instance %s (opened with type %s), pure=%s" % (re.sub(r"^(reuse-\d+-creators(-lossy)?).*", r"\1", name), e["id"], e["rel"], e["type"], e["inst"], c["type"] if c else "?", e["pure"])
        elif e["ev"] == "create":
            sig = "scenario %s: two live tubes of end %s got the same id %s" % (name, e["end"], e["id"])
        elif e["ev"] == "unrelseq" and name.startswith("stray"):
            sig = "an unreliable tube on which nothing was ever written delivered %d message(s) while small writes on a reliable tube went through a blackout" % e["extra"]
        elif e["ev"] == "stream":
            sig = "scenario %s: reliable stream incomplete or altered: %s of %s bytes" % (name, e["got"], e["want"])
        elif e["ev"] == "offered":
            sig = "a reliable tube requested while the peer's accept queue was full was offered %s times after the queue drained (its opener could write)" % e["times"]
        elif e["ev"] == "survives":
            sig = "after the reliable tube with the same number was closed and reaped: old unreliable tube works A->B=%s B->A=%s, messages on the wrong tube: %s" % (e["ab"], e["ba"], e["cross"])
        elif e["ev"] == "unrelseq":
            sig = "unreliable tube sharing its id with a lossy reliable tube, lagging reader: %d written, %d read, %d of them never written on that tube (intact=%s)" % (e["wrote"], e["got"], e["extra"], e["intact"])
        elif e["ev"] == "unrel":
            sig = "unreliable message of %d bytes: wrote=%s ret=%s read=%s same=%s" % (e["size"], e["wrote"], e["ret"], e["got"], e["same"])
        else:
            sig = "scenario %s: %s" % (name, json.dumps(e, sort_keys=True))
        v.violation(sig, "real muxer pair over the scripted network, judged by Trace_HopMux", e)
    # every created instance must eventually have been offered (exactly once is judged above)
    for sc in by:
        if names[sc].startswith("reuse") or names[sc].startswith("idle"):
            acc = {e["inst"] for e in by[sc] if e["ev"] == "accept"}
            for e in by[sc]:
                if e["ev"] == "create" and e["inst"] not in acc:
                    v.violation("scenario %s: a remotely opened tube was never offered to the acceptor" % re.sub(r"^(reuse-\d+-creators(-lossy)?).*", r"\1", names[sc]), "instance %s id %s type %s" % (e["inst"], e["id"], e["type"]), e)
                    break
