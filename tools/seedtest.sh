#!/bin/bash
# tools/seedtest.sh <PROP> <mutant-dir> <name> [check-ids...]
#   1. confirms in a scratch worktree that the change builds, passes the repository suite, and that its
#      demonstration fails with / passes without the change;
#   2. applies it to /repo, runs the quick check(s), undoes it;
#   3. stores it under /verif/seeded/<name>/ with the outcome.
# Usage for step 1 needs meta.json to carry "demo_pkg" and "demo_run" or they are guessed from the demo header.
set -u
PROP=$1; MD=$2; NAME=$3; shift 3; CHECKS=${@:-$PROP}
export GOFLAGS=-mod=mod GOPROXY=off
WT=/tmp/wt/verify-$NAME
OUT=/verif/seeded/$NAME
mkdir -p $OUT
cp $MD/patch.diff $OUT/patch.diff
cp $MD/meta.json $OUT/meta.agent.json 2>/dev/null
for f in $MD/*; do case "$f" in *patch.diff|*meta.json) ;; *) cp -r $f $OUT/ ;; esac; done
git -C /repo worktree add -q --detach $WT HEAD || exit 2
cd $WT
res() { echo "$1" | tee -a $OUT/confirm.log; }
: > $OUT/confirm.log
git apply $OUT/patch.diff || { res "APPLY-FAILED"; git -C /repo worktree remove --force $WT; exit 2; }
go build ./... >>$OUT/confirm.log 2>&1 && res "build: ok" || res "build: FAILED"
if [ "${SKIP_SUITE:-0}" = 1 ]; then res "suite: skipped"; else
if go test -vet=off -count=1 -timeout 25m ./... > $OUT/suite.log 2>&1; then res "suite-with-change: pass"; else
  # fixed UDP ports (7777) collide when several suites run at once in this sandbox: retry failed packages alone
  FP=$(grep -E "^FAIL\s+hop" $OUT/suite.log | awk '{print $2}' | sed 's#hop.computer/hop#.#')
  ok=1; for p in $FP; do pass=0; for try in 1 2 3; do sleep 2; if go test -vet=off -count=1 -timeout 25m $p >> $OUT/suite-retry.log 2>&1; then pass=1; break; fi; done; [ $pass = 1 ] || ok=0; done
  [ $ok = 1 ] && res "suite-with-change: pass (after retrying $FP alone)" || { res "suite-with-change: FAIL ($FP)"; }
fi
fi
# demonstration
DEMO=$(ls $OUT/*_test.go 2>/dev/null | head -1)
if [ -n "$DEMO" ]; then
  PKG=${DEMO_PKG:-$(grep -oE 'go test .*' $DEMO | grep -oE '\./[a-zA-Z0-9_/]+' | head -1)}
  RUN=${DEMO_RUN:-$(grep -oE "\-run[ =]'?[A-Za-z0-9_^\$|]+" $DEMO | head -1 | sed -E "s/-run[ =]'?//")}
  res "demo: pkg=$PKG run=$RUN"
  cp $DEMO $WT/$PKG/zz_demo_test.go
  go test -vet=off -count=1 -run "$RUN" $PKG > $OUT/demo-with.log 2>&1 && res "demo-with-change: PASS (unexpected)" || res "demo-with-change: fails (expected)"
  git apply -R $OUT/patch.diff
  go test -vet=off -count=1 -run "$RUN" $PKG > $OUT/demo-without.log 2>&1 && res "demo-without-change: passes (expected)" || res "demo-without-change: FAILS (unexpected)"
fi
cd /verif
git -C /repo worktree remove --force $WT
# our checks against the change
if [ -n "$(git -C /repo status --porcelain)" ]; then res "/repo not clean; skipping check run"; exit 2; fi
git -C /repo apply $OUT/patch.diff || { res "apply to /repo failed"; exit 2; }
for c in $CHECKS; do
  tools/check $c --tier ${TIER:-quick} > $OUT/check-$c.log 2>&1; rc=$?
  res "check $c: exit $rc $(grep -c '^VIOLATION' $OUT/check-$c.log) violation line(s)"
  grep -A2 '^VIOLATION' $OUT/check-$c.log | head -6 >> $OUT/confirm.log
done
git -C /repo checkout -- . && git -C /repo clean -fdq
res "done"
