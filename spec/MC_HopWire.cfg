SPECIFICATION MSpec
INVARIANTS FormatSound MaxFitsPrefix CastMisframes
CHECK_DEADLOCK FALSE
