SPECIFICATION Spec
CONSTANTS MaxReq = 3  Variant = "pinned"
INVARIANTS ForwardedOnlyIfApproved OneAnswerPerRequest ConfirmationMeansStored ForwardedOnce
CHECK_DEADLOCK FALSE
