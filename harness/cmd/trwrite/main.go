// trwrite exercises Write/WriteMsg of every size class on a faithful simulated network between a real
// client and server, in both directions, and concurrent writers; it logs what was sent and what was read.
//
//	trwrite <out.ndjson> <seed> <thorough:0|1>
package main

import (
	"bytes"
	"encoding/binary"
	"fmt"
	"io"
	"math/rand"
	"os"
	"strconv"
	"sync"
	"time"

	"github.com/sirupsen/logrus"

	"hop.computer/hop/keys"
	"hop.computer/hop/transport"
	"verif/harness/hopkit"
	"verif/harness/rec"
	"verif/harness/simwire"
)

func yn(b bool) string {
	if b {
		return "yes"
	}
	return "no"
}

func gen(n int, tag byte) []byte {
	b := make([]byte, n)
	for i := range b {
		b[i] = byte(i*7+i/251) ^ tag
	}
	return b
}

type conn interface {
	Write([]byte) (int, error)
	WriteMsg([]byte) error
	ReadMsg([]byte) (int, error)
	SetReadDeadline(time.Time) error
}

func main() {
	logrus.SetOutput(io.Discard)
	out := os.Args[1]
	seed, _ := strconv.ParseInt(os.Args[2], 10, 64)
	thorough := os.Args[3] == "1"
	longOnly := len(os.Args) > 4 && os.Args[4] == "long"
	rng := rand.New(rand.NewSource(seed))
	w := rec.Must(out)
	defer w.Close()
	pki := hopkit.NewPKI()
	sid := pki.Issue("valid", "a.example")
	cid := pki.Issue("selfsigned", "client")
	const Max = transport.MaxPlaintextSize
	sizes := []int{0, 1, 2, 1000, Max - 1, Max, Max + 1, Max + 2, 2*Max - 1, 2 * Max, 2*Max + 1, 2*Max + 5, 3 * Max, 3*Max + 1}
	for k := 0; k < 6; k++ {
		sizes = append(sizes, rng.Intn(4*Max))
	}
	if thorough {
		for k := 0; k < 40; k++ {
			sizes = append(sizes, rng.Intn(6*Max))
		}
		sizes = append(sizes, 10*Max+17, 16*Max)
	}
	for _, hidden := range []bool{false, true} {
		p, err := hopkit.NewPair(pki, sid, cid, hidden, 64)
		if err != nil {
			panic(err)
		}
		ends := map[string][2]conn{"client": {p.C.T, p.H}, "server": {p.H, p.C.T}}
		eps := map[string][2]*simwire.Endpoint{"client": {p.C.EP, p.S.EP}, "server": {p.S.EP, p.C.EP}}
		for _, who := range []string{"client", "server"} {
			if longOnly {
				break
			}
			wr, rd := ends[who][0], ends[who][1]
			from, to := eps[who][0], eps[who][1]
			for _, n := range sizes {
				data := gen(n, byte(n))
				ret, err := wr.Write(data)
				if err != nil {
					ret = -1
				}
				ds := p.W.Net.TakeFrom(from)
				sentbytes := 0
				for _, d := range ds {
					sentbytes += transport.PlaintextLen(len(d.Data))
					if err := to.Deliver(d.Data, d.From, hopkit.StepTimeout); err != nil {
						panic(err)
					}
				}
				var got []byte
				buf := make([]byte, 70000)
				for {
					rd.SetReadDeadline(time.Now().Add(3 * time.Millisecond))
					k, err := rd.ReadMsg(buf)
					if err != nil {
						break
					}
					got = append(got, buf[:k]...)
				}
				w.Ev("write", "who", who, "hidden", yn(hidden), "n", n, "ret", ret, "pkts", len(ds), "sentbytes", sentbytes, "read", len(got), "intact", yn(bytes.Equal(got, data)))
			}
		}
		// concurrent writers: G goroutines x M messages each, client -> server; counters must be distinct, every
		// message arrives once
		for _, G := range []int{2, 4} {
			if longOnly {
				break
			}
			M := 40
			var wg sync.WaitGroup
			for g := 0; g < G; g++ {
				wg.Add(1)
				go func(g int) {
					defer wg.Done()
					for m := 0; m < M; m++ {
						p.C.T.WriteMsg([]byte(fmt.Sprintf("w%d-m%d", g, m)))
					}
				}(g)
			}
			wg.Wait()
			ds := p.W.Net.TakeFrom(p.C.EP)
			ctrs := map[uint64]bool{}
			for _, d := range ds {
				ctrs[binary.BigEndian.Uint64(d.Data[8:16])] = true
			}
			seen := map[string]int{}
			corrupt := 0
			buf := make([]byte, 1000)
			for _, d := range ds {
				if err := p.S.EP.Deliver(d.Data, d.From, hopkit.StepTimeout); err != nil {
					panic(err)
				}
				for {
					p.H.SetReadDeadline(time.Now().Add(time.Millisecond))
					k, err := p.H.ReadMsg(buf)
					if err != nil {
						break
					}
					var a, b int
					if _, err := fmt.Sscanf(string(buf[:k]), "w%d-m%d", &a, &b); err != nil || a >= G || b >= M {
						corrupt++
					}
					seen[string(buf[:k])]++
				}
			}
			dups := 0
			for _, c := range seen {
				if c > 1 {
					dups += c - 1
				}
			}
			w.Ev("conc", "writers", G, "msgs", G*M, "datagrams", len(ds), "distinctctrs", len(ctrs), "delivered", len(seen), "dups", dups, "corrupt", corrupt, "hidden", yn(hidden))
		}
		// long session: N in-order messages client -> server; after each, earlier datagrams (still inside the replay
		// window, at its edges, across 64-counter block boundaries) are replayed from a third address.  None may be
		// delivered again and the server must keep sending to the client's address.
		N := 700
		if thorough {
			N = 2500
		}
		var dgs [][]byte
		x := simwire.Addr("10.0.9.9", 999)
		delivered, tried, redelivered, moved := 0, 0, 0, 0
		buf := make([]byte, 2000)
		readAll := func() (k int) {
			for {
				p.H.SetReadDeadline(time.Now().Add(200 * time.Microsecond))
				if _, err := p.H.ReadMsg(buf); err != nil {
					return
				}
				k++
			}
		}
		for i := 0; i < N; i++ {
			p.C.T.WriteMsg([]byte(fmt.Sprintf("long-%d", i)))
			ds := p.W.Net.TakeFrom(p.C.EP)
			dgs = append(dgs, ds[0].Data)
			p.S.EP.Deliver(ds[0].Data, ds[0].From, hopkit.StepTimeout)
			delivered += readAll()
			for _, back := range []int{0, 1, 63, 64, 65, 383, 384, 385, 446, 447, 448, 449, 450, 511, 512} {
				if j := i - back; j >= 0 && (rng.Intn(6) == 0 || back >= 383) {
					tried++
					p.S.EP.Deliver(dgs[j], x, hopkit.StepTimeout)
					redelivered += readAll()
					if hv := p.H.VerifSession(); hv.Remote != p.C.EP.Addr().String() {
						moved++
					}
				}
			}
		}
		w.Ev("longrun", "sent", N, "delivered", delivered, "replays", tried, "redelivered", redelivered, "moved", moved, "hidden", yn(hidden))
		p.W.Close()
	}
	if !longOnly {
		lateHandshakeCopies(w, pki, sid, cid)
	}
}

// lateHandshakeCopies: the network delivers copies of the session's OWN handshake datagrams once more after the
// handshake has finished (same source address), the server's handshake timeout passes, and then both ends write.
// Whatever the server does with the copies (answer, open a short-lived handshake, let it time out), the
// established session must go on delivering what is written.
func lateHandshakeCopies(w *rec.W, pki *hopkit.PKI, sid, cid *hopkit.Ident) {
	const tmo = 700 * time.Millisecond
	for _, hidden := range []bool{false, true} {
		for _, which := range []string{"all", "ack", "last"} {
			wd := hopkit.NewWorld()
			sa, ca := simwire.Addr("10.0.0.1", 77), simwire.Addr("10.0.1.1", 1001)
			var kem *keys.KEMKeyPair
			if hidden {
				kem = hopkit.NewKEM()
			}
			s := wd.NewServer(sa, hopkit.SrvOpt{Ident: sid, KEM: kem, Hidden: hidden, HSTimeout: tmo})
			opt := hopkit.CliOpt{Ident: cid, Verify: pki.Policy("store", "a.example")}
			if hidden {
				opt.ServerKEM = &kem.Public
			}
			c := wd.NewClient(ca, sa, opt)
			// the handshake in lock step, keeping the client's datagrams
			var mine [][]byte
			c.Start()
			var herr error
			for hop := 0; hop < 8; hop++ {
				if herr = c.WaitStep(); herr != nil {
					break
				}
				out := wd.Net.TakeFrom(c.EP)
				for _, d := range out {
					mine = append(mine, d.Data)
					s.EP.Deliver(d.Data, d.From, hopkit.StepTimeout)
				}
				if done, err := c.Finished(); done {
					herr = err
					break
				}
				for _, d := range wd.Net.TakeFrom(s.EP) {
					c.EP.Inject(d.Data, d.From)
				}
			}
			h, aerr := s.T.AcceptTimeout(time.Second)
			if herr != nil || aerr != nil {
				w.Ev("latehs", "hidden", yn(hidden), "which", which, "copies", 0, "sent", 2, "delivered", -1, "note", fmt.Sprint(herr, aerr))
				wd.Close()
				continue
			}
			var copies [][]byte
			switch which {
			case "all":
				copies = mine
			case "ack":
				if len(mine) >= 2 {
					copies = mine[1:2]
				} else {
					copies = mine[:1]
				}
			case "last":
				copies = mine[len(mine)-1:]
			}
			for _, d := range copies {
				s.EP.Deliver(d, ca, hopkit.StepTimeout)
				wd.Net.TakeFrom(s.EP) // whatever the server answers is lost
			}
			time.Sleep(tmo + 500*time.Millisecond)
			delivered := 0
			buf := make([]byte, 100)
			c.T.WriteMsg([]byte("after-c"))
			for _, d := range wd.Net.TakeFrom(c.EP) {
				s.EP.Deliver(d.Data, d.From, hopkit.StepTimeout)
			}
			h.SetReadDeadline(time.Now().Add(300 * time.Millisecond))
			if k, err := h.ReadMsg(buf); err == nil && string(buf[:k]) == "after-c" {
				delivered++
			}
			h.WriteMsg([]byte("after-s"))
			for _, d := range wd.Net.TakeFrom(s.EP) {
				c.EP.Deliver(d.Data, d.From, hopkit.StepTimeout)
			}
			c.T.SetReadDeadline(time.Now().Add(300 * time.Millisecond))
			if k, err := c.T.ReadMsg(buf); err == nil && string(buf[:k]) == "after-s" {
				delivered++
			}
			w.Ev("latehs", "hidden", yn(hidden), "which", which, "copies", len(copies), "sent", 2, "delivered", delivered, "note", "")
			wd.Close()
		}
	}
}
