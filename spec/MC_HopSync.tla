----------------------------- MODULE MC_HopSync -----------------------------
(* Behaviour generation for the replay binding of C17: HopSync with a history of the executed   *)
(* steps (thread, label; for Pick the chosen call).  In simulation mode every behaviour is       *)
(* printed when no thread can move any more (all calls returned, or the rest is blocked).        *)
(* amb marks a blocking select executed while both of its cases were ready: Go then chooses at   *)
(* random, which no schedule point can control - such behaviours are not replayed.               *)
EXTENDS HopSync, Json
VARIABLE hist
SimInit == Init /\ hist = <<>>
SimNext == \/ \E t \in Threads : /\ T(t)
                                  /\ hist' = Append(hist, [t |-> ToString(t), l |-> IF pc'[t] = "Done" THEN "Exit" ELSE pc[t], op |-> op'[t], arg |-> arg'[t], item |-> item'[t], res |-> res'[t], qlen |-> Len(C'),
                                                          amb |-> \/ pc[t] = "S5" /\ ec[t] \in chClosed /\ Len(C) < Cap
                                                                  \/ pc[t] = "R5" /\ ec[t] \in chClosed /\ C # <<>>])
           \/ /\ Timer
              /\ hist' = Append(hist, [t |-> "timer", l |-> IF cb' > cb THEN "fire" ELSE "run", op |-> "-", arg |-> "-", item |-> 0, res |-> "-", qlen |-> Len(C'), amb |-> FALSE])
SimSpec == SimInit /\ [][SimNext]_<<vars, hist>>
Quiescent == ~ThreadEnabled
Emit == Quiescent => PrintT(<<"BEH", ToJson([stuck |-> ~AllDone, closeCalled |-> closeCalled, timerLive |-> TimerEnabled,
                                            blocked |-> [t \in Threads |-> pc[t]], hist |-> hist])>>)
=============================================================================
