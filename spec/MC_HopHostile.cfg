SPECIFICATION Spec
INVARIANTS OthersIntact Stoppable Emit
CHECK_DEADLOCK FALSE
