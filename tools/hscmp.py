import json,collections,sys
F=sys.argv[1]
res={}
for l in open('/tmp/t1/res%s.jsonl'%F):
    r=json.loads(l); res[r['i']]=r
behs=[json.loads(l) for l in open('/tmp/t1/beh%s.jsonl'%F)]
c=collections.Counter(); ex={}
def H(b): return [(s['s'],s['hop'],s['mv'],s['f']) for s in b['hist']]
for i,b in enumerate(behs):
    r=res[i]
    if 'err' in r: k=('err',r['err'][:80])
    else:
        ks=[]
        for j,cl in enumerate(b['cl']):
            md=cl['st']=='done'
            if md!=r['done'][j]: ks.append('done model=%s real=%s'%(md,r['done'][j]))
            if md and r['done'][j] and cl['agree']!=r['agree'][j]: ks.append('agree model=%s real=%s'%(cl['agree'],r['agree'][j]))
            if r['keysdiff'][j]: ks.append('keysdiff')
        for s,so in b['srv'].items():
            for f,rf in (('acc','acc'),('nhs','nhs'),('nsess','nsess'),('sent','sent')):
                if so[f]!=r[rf].get(s,0): ks.append('%s model=%s real=%s'%(f,so[f],r[rf].get(s,0)))
        k=tuple(ks)
    if k:
        c[k]+=1; ex.setdefault(k,i)
for k,v in c.most_common(40):
    b=behs[ex[k]]; print(v,k,'\n     ',b['mode'],b['dial'],[ (x['cert'],x['key'],x['pol']) for x in b['ccfg']],H(b), res[ex[k]].get('muts'))
print('total',len(behs),'mismatching',sum(c.values()))
