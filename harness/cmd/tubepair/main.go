// tubepair runs real tube muxer pairs over scriptconn under fault schedules and records what the
// applications wrote and read.
//
//	tubepair <schedules.json> <out.ndjson> <seed>
//
// schedules.json: [{"name":..., "drops":[{"dir":0|1,"kind":"data|ack|fin|req|resp","no":N,"times":K}], "dups":[...same, "copies":C],
//
//	"delays":[{"dir","kind","no","ms"}], "lossPct":P, "lossMs":T, "outageAtMs":A, "outageMs":L, "sizes":[...], "both":bool}]
package main

import (
	"bytes"
	"encoding/json"
	"fmt"
	"io"
	"math/rand"
	"os"
	"strconv"
	"sync"
	"time"

	"github.com/sirupsen/logrus"

	"hop.computer/hop/tubes"
	"verif/harness/rec"
	"verif/harness/scriptconn"
)

type key struct {
	Dir        int    `json:"dir"`
	Kind       string `json:"kind"`
	No         uint32 `json:"no"`
	Times      int    `json:"times"`
	Copies     int    `json:"copies"`
	Ms         int    `json:"ms"`
	DupDelayMs int    `json:"dupDelayMs"`
}
type sched struct {
	Name        string `json:"name"`
	Drops       []key  `json:"drops"`
	Dups        []key  `json:"dups"`
	Delays      []key  `json:"delays"`
	LossPct     int    `json:"lossPct"`
	LossMs      int    `json:"lossMs"`
	OutageAtMs  int    `json:"outageAtMs"`
	OutageMs    int    `json:"outageMs"`
	Sizes       []int  `json:"sizes"`
	Both        bool   `json:"both"`
	BoundMs     int    `json:"boundMs"`
	PauseMs     int    `json:"pauseMs"`     // pause between the writer's writes (request/response-like traffic)
	Reverse     bool   `json:"reverse"`     // the accepting end writes and closes at once; the opening end only reads
	ReuseBuf    bool   `json:"reuseBuf"`    // the writer hands every Write the same buffer and overwrites it as soon as Write returns
	LateClose   bool   `json:"lateClose"`   // the writer stays idle and closes only after the reader has everything (or the deadline)
	DupAckEvery int    `json:"dupAckEvery"` // every n-th acknowledgement frame (either direction) is delivered twice, for the whole life of the tube
}

func gen(off int64, n int, tag byte) []byte {
	b := make([]byte, n)
	for i := range b {
		x := off + int64(i)
		b[i] = byte(x*31+x/253+x/65521) ^ tag
	}
	return b
}

var w *rec.W

var watchdogAfter = 400 * time.Second

type reach struct {
	want int64
	ch   chan struct{}
	once sync.Once
}

var pauseOf = map[int]time.Duration{}
var reuseOf = map[int]bool{}
var pauseMu sync.Mutex

func stream(id int, who string, wr io.Writer, sizes []int, tag byte, closer func() error) {
	var off int64
	pauseMu.Lock()
	pause := pauseOf[id]
	reuse := reuseOf[id]
	pauseMu.Unlock()
	var shared []byte
	for i, n := range sizes {
		if i > 0 && pause > 0 {
			time.Sleep(pause)
		}
		w.Ev("write", "sc", id, "who", who, "off", off, "n", n)
		data := gen(off, n, tag)
		if reuse {
			// io.Writer: "Write must not retain p" - the caller's buffer is the caller's again once Write returns
			if cap(shared) < n {
				shared = make([]byte, n)
			}
			copy(shared[:n], data)
			data = shared[:n]
		}
		k, err := wr.Write(data)
		if reuse {
			for j := range data {
				data[j] = 0xEE
			}
		}
		if err != nil || k != n {
			w.Ev("writeerr", "sc", id, "who", who, "off", off, "n", n, "ret", k, "err", fmt.Sprint(err))
			return
		}
		off += int64(n)
	}
	if closer != nil {
		w.Ev("close", "sc", id, "who", who, "total", off)
		closer()
	}
}

var reached sync.Map // scenario id -> chan struct{} closed when the B reader has read everything written

func sink(id int, who string, rd io.Reader, setdl func(time.Time) error, tag byte, deadline time.Time, stopAt int64) (total int64, eof bool) {
	buf := make([]byte, 70000)
	for {
		if ch, ok := reached.Load(id); ok && who == "B" {
			c := ch.(*reach)
			if total >= c.want {
				c.once.Do(func() { close(c.ch) })
			}
		}
		if stopAt >= 0 && total >= stopAt {
			return total, false
		}
		setdl(deadline)
		n, err := rd.Read(buf)
		if n > 0 {
			match := bytes.Equal(buf[:n], gen(total, n, tag))
			m := "yes"
			if !match {
				m = "no"
			}
			w.Ev("read", "sc", id, "who", who, "off", total, "n", n, "match", m)
			total += int64(n)
		}
		if err == io.EOF {
			w.Ev("eof", "sc", id, "who", who, "total", total)
			return total, true
		}
		if err != nil {
			return total, false
		}
	}
}

func run(id int, s sched, seed int64) {
	rng := rand.New(rand.NewSource(seed + int64(id)*7919))
	pauseMu.Lock()
	pauseOf[id] = time.Duration(s.PauseMs) * time.Millisecond
	reuseOf[id] = s.ReuseBuf
	pauseMu.Unlock()
	var mu sync.Mutex
	start := time.Now()
	match := func(ks []key, f *scriptconn.Frame) *key {
		for i := range ks {
			k := &ks[i]
			no := f.FrameNo
			if f.Kind() == "ack" {
				no = f.AckNo
			}
			if k.Dir == f.Dir && k.Kind == f.Kind() && k.No == no {
				return k
			}
		}
		return nil
	}
	faults := 0
	ackSeen := 0
	policy := func(f *scriptconn.Frame) scriptconn.Action {
		mu.Lock()
		defer mu.Unlock()
		var a scriptconn.Action
		if k := match(s.Drops, f); k != nil && f.Nth <= max(1, k.Times) {
			a.Drop = true
		}
		if k := match(s.Dups, f); k != nil && f.Nth == 1 {
			a.Dups = max(1, k.Copies)
			a.DupDelay = time.Duration(k.DupDelayMs) * time.Millisecond
		}
		if k := match(s.Delays, f); k != nil && f.Nth == 1 {
			a.Delay = time.Duration(k.Ms) * time.Millisecond
		}
		if s.DupAckEvery > 0 && f.Kind() == "ack" {
			ackSeen++
			if ackSeen%s.DupAckEvery == 0 {
				a.Dups = 1
			}
		}
		if s.LossPct > 0 && time.Since(start) < time.Duration(s.LossMs)*time.Millisecond && rng.Intn(100) < s.LossPct {
			a.Drop = true
		}
		if a.Drop || a.Dups > 0 || a.Delay > 0 {
			faults++
		}
		return a
	}
	n := scriptconn.New(policy)
	log := logrus.New()
	log.SetOutput(io.Discard)
	ma := tubes.Client(n.A, &tubes.Config{Log: logrus.NewEntry(log)})
	mb := tubes.Server(n.B, &tubes.Config{Log: logrus.NewEntry(log)})
	w.Ev("reset", "sc", id, "name", s.Name)
	faultEnd := time.Duration(max(s.LossMs, s.OutageAtMs+s.OutageMs)) * time.Millisecond
	bound := time.Duration(s.BoundMs) * time.Millisecond
	deadline := start.Add(faultEnd + bound)
	if s.OutageMs > 0 {
		time.AfterFunc(time.Duration(s.OutageAtMs)*time.Millisecond, func() { n.Outage(time.Duration(s.OutageMs) * time.Millisecond) })
	}
	ta, err := ma.CreateReliableTube(3)
	if err != nil {
		w.Ev("error", "sc", id, "what", "create: "+err.Error())
		return
	}
	acc := make(chan tubes.Tube, 1)
	go func() {
		t, err := mb.Accept()
		if err == nil {
			acc <- t
		} else {
			close(acc)
		}
	}()
	var tb *tubes.Reliable
	select {
	case t, ok := <-acc:
		if ok {
			tb, _ = t.(*tubes.Reliable)
		}
	case <-time.After(time.Until(deadline)):
	}
	if tb == nil {
		w.Ev("done", "sc", id, "name", s.Name, "complete", "no", "why", "tube never accepted", "ms", time.Since(start).Milliseconds(), "faults", faults, "outage", s.OutageMs)
		go ma.Stop()
		go mb.Stop()
		return
	}
	var wg sync.WaitGroup
	var totA, totB int64
	var eofA, eofB bool
	var want int64
	for _, k := range s.Sizes {
		want += int64(k)
	}
	if s.Reverse {
		wg.Add(2)
		go func() { defer wg.Done(); stream(id, "B", tb, s.Sizes, 0xa5, tb.Close) }()
		go func() { defer wg.Done(); totA, eofA = sink(id, "A", ta, ta.SetReadDeadline, 0xa5, deadline, -1) }()
		if !waitUntil(&wg, deadline) {
			w.Ev("done", "sc", id, "name", s.Name, "complete", "no", "why", "a Read or Write did not return by 5 s after its deadline", "ms", time.Since(start).Milliseconds(), "faults", faults, "outage", s.OutageMs)
			go ma.Stop()
			go mb.Stop()
			return
		}
		c := "yes"
		if totA != want || !eofA {
			c = "no"
		}
		w.Ev("done", "sc", id, "name", s.Name, "complete", c, "ms", time.Since(start).Milliseconds(), "faults", faults, "outage", s.OutageMs, "gotB", totB, "gotA", totA, "want", want)
		go func() { ta.Close(); ma.Stop() }()
		go mb.Stop()
		return
	}
	wg.Add(2)
	// a local Close cancels the closer's own pending reads, so in two-way scenarios A closes only after it has
	// read everything B wrote
	aRead := make(chan struct{})
	go func() {
		defer wg.Done()
		var closer func() error
		if !s.Both && !s.LateClose {
			closer = ta.Close
		}
		stream(id, "A", ta, s.Sizes, 0x5a, closer)
		if s.LateClose && !s.Both {
			rc := &reach{want: want, ch: make(chan struct{})}
			reached.Store(id, rc)
			select {
			case <-rc.ch:
			case <-time.After(time.Until(deadline) - 2*time.Second):
			}
			w.Ev("close", "sc", id, "who", "A", "total", want)
			ta.Close()
		}
		if s.Both {
			<-aRead
			w.Ev("close", "sc", id, "who", "A", "total", want)
			ta.Close()
		}
	}()
	go func() { defer wg.Done(); totB, eofB = sink(id, "B", tb, tb.SetReadDeadline, 0x5a, deadline, -1) }()
	if s.Both {
		wg.Add(2)
		go func() { defer wg.Done(); stream(id, "B", tb, s.Sizes, 0xa5, nil) }()
		go func() {
			defer wg.Done()
			totA, eofA = sink(id, "A", ta, ta.SetReadDeadline, 0xa5, deadline, want)
			close(aRead)
		}()
	}
	if !waitUntil(&wg, deadline) {
		w.Ev("done", "sc", id, "name", s.Name, "complete", "no", "why", "a Read or Write did not return by 5 s after its deadline", "ms", time.Since(start).Milliseconds(), "faults", faults, "outage", s.OutageMs)
		go ma.Stop()
		go mb.Stop()
		return
	}
	complete := totB == want && eofB && (!s.Both || totA == want)
	_ = eofA
	c := "yes"
	if !complete {
		c = "no"
	}
	w.Ev("done", "sc", id, "name", s.Name, "complete", c, "ms", time.Since(start).Milliseconds(), "faults", faults, "outage", s.OutageMs, "gotB", totB, "gotA", totA, "want", want)
	go func() { tb.Close(); ma.Stop() }()
	go mb.Stop()
}

// waitUntil waits for the scenario's application goroutines; a call that has not returned 5 s after the read
// deadline it was given means the transfer did not complete within the bound
func waitUntil(wg *sync.WaitGroup, deadline time.Time) bool {
	ch := make(chan struct{})
	go func() { wg.Wait(); close(ch) }()
	select {
	case <-ch:
		return true
	case <-time.After(time.Until(deadline) + 5*time.Second):
		return false
	}
}

func max(a, b int) int {
	if a > b {
		return a
	}
	return b
}

func main() {
	logrus.SetOutput(io.Discard)
	// watchdog: a driver that cannot finish means some library call never returned
	time.AfterFunc(watchdogAfter, func() {
		if w != nil {
			w.Ev("stuck", "sc", -1, "after_s", int(watchdogAfter.Seconds()))
			w.Close()
		}
		os.Exit(3)
	})
	var scheds []sched
	b, err := os.ReadFile(os.Args[1])
	if err != nil {
		panic(err)
	}
	if err := json.Unmarshal(b, &scheds); err != nil {
		panic(err)
	}
	w = rec.Must(os.Args[2])
	defer w.Close()
	seed, _ := strconv.ParseInt(os.Args[3], 10, 64)
	var wg sync.WaitGroup
	sem := make(chan struct{}, 400)
	for i, s := range scheds {
		wg.Add(1)
		sem <- struct{}{}
		go func(i int, s sched) {
			defer wg.Done()
			defer func() { <-sem }()
			run(i, s, seed)
		}(i, s)
	}
	wg.Wait()
	time.Sleep(50 * time.Millisecond)
}
