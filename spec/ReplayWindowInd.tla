--------------------------- MODULE ReplayWindowInd ---------------------------
(* Unbounded-counter argument for C14 with Apalache: an INDUCTIVE invariant that ties the ring    *)
(* bitmap of transport/replay.go to the set specification for ALL counters (integers are          *)
(* unbounded in Apalache's SMT encoding), for a small ring geometry (4 blocks of 4 bits, window    *)
(* 12).  TLC's exhaustive runs (ReplayWindow.tla) cover counters 0..36 on three geometries; this    *)
(* module removes the bound on the counters:                                                       *)
(*     apalache-mc check --init=Init    --inv=IndInv --length=0   (initial state satisfies it)      *)
(*     apalache-mc check --init=IndInit --inv=IndInv --length=1   (every step preserves it)         *)
(*     apalache-mc check --init=IndInit --inv=Equiv  --length=0   (it implies equal verdicts for an *)
(*                                                                 arbitrary counter `probe`)       *)
(* Definitions are those of ReplayWindow.tla with NumBlocks = 4, BlockSize = 4, ClearCap = 4.       *)
EXTENDS Integers, FiniteSets

N == 4
B == 4
W == (N - 1) * B
None == -1
Min(a, b) == IF a < b THEN a ELSE b

VARIABLES
    \* @type: Set(Int);
    accepted,
    \* @type: Int;
    top,
    \* @type: Int -> Set(Int);
    blocks,
    \* @type: Int;
    wt,
    \* @type: Int;
    probe

SpecCheck(s) == s \notin accepted /\ (top = None \/ s + W >= top)
SpecMarkTop(s) == IF top = None \/ s > top THEN s ELSE top
SpecMarkAcc(s) == LET t == SpecMarkTop(s) IN {a \in accepted \union {s} : a + W >= t}

ImplCheck(s) ==
    IF s > wt THEN TRUE
    ELSE IF s + W < wt THEN FALSE
    ELSE (s % B) \notin blocks[(s \div B) % N]
ImplMarkBlocks(s) ==
    IF s + W < wt THEN blocks
    ELSE LET ub   == s \div B
             uc   == wt \div B
             diff == IF s > wt THEN Min(ub - uc, N) ELSE 0
             cleared == {(i + uc + 1) % N : i \in {j \in 0..(N - 1) : j < diff}}
             b1   == [i \in 0..(N - 1) |-> IF i \in cleared THEN {} ELSE blocks[i]]
         IN  [b1 EXCEPT ![ub % N] = @ \union {s % B}]
ImplMarkWt(s) == IF s + W < wt THEN wt ELSE IF s > wt THEN s ELSE wt

Init == /\ accepted = {} /\ top = None
        /\ blocks = [i \in 0..(N - 1) |-> {}] /\ wt = 0
        /\ probe \in Nat

Recv(s) == /\ SpecCheck(s)
           /\ accepted' = SpecMarkAcc(s) /\ top' = SpecMarkTop(s)
           /\ blocks' = ImplMarkBlocks(s) /\ wt' = ImplMarkWt(s)
MarkOnly(s) == /\ accepted' = (IF top # None /\ s + W < top THEN accepted ELSE SpecMarkAcc(s))
               /\ top' = (IF top # None /\ s + W < top THEN top ELSE SpecMarkTop(s))
               /\ blocks' = ImplMarkBlocks(s) /\ wt' = ImplMarkWt(s)
Next == \E s \in Nat : (Recv(s) \/ MarkOnly(s)) /\ UNCHANGED probe

-----------------------------------------------------------------------------
(* the counter that bit b of ring block i stands for, given the current top block *)
CounterOf(i, b) == LET uc == wt \div B
                       \* the block number ub in uc-N+1 .. uc with ub % N = i
                       ub == uc - ((uc - i) % N)
                   IN ub * B + b
IndInv ==
    /\ wt >= 0 /\ (top = None \/ top >= 0)
    /\ wt = (IF top = None THEN 0 ELSE top)
    /\ top = None => accepted = {}
    /\ \A a \in accepted : a >= 0 /\ a <= wt /\ a + W >= wt
    /\ top # None => top \in accepted
    /\ DOMAIN blocks = 0..(N - 1)
    /\ \A i \in 0..(N - 1) : blocks[i] \subseteq 0..(B - 1)
    \* every accepted counter has its bit
    /\ \A a \in accepted : (a % B) \in blocks[(a \div B) % N]
    \* every bit stands for an accepted counter, or for one that has fallen below the window
    /\ \A i \in 0..(N - 1) : \A b \in blocks[i] :
          LET c == CounterOf(i, b) IN c >= 0 /\ c <= wt /\ (c \in accepted \/ c + W < wt)
Equiv == SpecCheck(probe) = ImplCheck(probe)

(* an arbitrary state satisfying the invariant *)
IndInit ==
    /\ wt \in Nat
    /\ top \in {None, wt}
    /\ accepted \in SUBSET {wt - k : k \in 0..W}
    /\ blocks \in [0..(N - 1) -> SUBSET (0..(B - 1))]
    /\ probe \in Nat
    /\ IndInv
(* non-vacuity: IndInit has states with a non-trivial window (Apalache must report a violation of this) *)
Trivial == ~(top # None /\ wt > 2 * W /\ Cardinality(accepted) >= 3)
=============================================================================
