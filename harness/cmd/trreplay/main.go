// trreplay replays established-channel behaviours emitted by TLC (MC_HopTransport.tla) on a real
// client/server pair over the simulated wire and reports, per step, the real state next to the model's.
//
//	trreplay <behaviours.jsonl> <out.jsonl> <seed> [workers]
package main

import (
	"bufio"
	"bytes"
	"encoding/binary"
	"encoding/json"
	"fmt"
	"io"
	"math/rand"
	"net"
	"os"
	"strconv"
	"sync"
	"time"

	"github.com/sirupsen/logrus"

	"hop.computer/hop/kravatte"
	"hop.computer/hop/transport"
	"verif/harness/hopkit"
	"verif/harness/rec"
	"verif/harness/simwire"
)

type snap struct {
	Rc string `json:"rc"`
	Rs string `json:"rs"`
	Cc bool   `json:"cc"`
	Cs bool   `json:"cs"`
	Qc int    `json:"qc"`
	Qs int    `json:"qs"`
}
type stepT struct {
	Op    string `json:"op"`
	E     string `json:"e"`
	J     int    `json:"j"`
	A     string `json:"a"`
	Mut   string `json:"mut"`
	Ok    bool   `json:"ok"`
	Dst   string `json:"dst"`
	After snap   `json:"after"`
}
type beh struct {
	Hist []stepT `json:"hist"`
	Qc   []int   `json:"qc"`
	Qs   []int   `json:"qs"`
}
type stepRes struct {
	After  snap   `json:"after"`
	Dst    string `json:"dst,omitempty"`
	WriteOK bool  `json:"wok"`
	Note   string `json:"note,omitempty"`
}
type result struct {
	I     int       `json:"i"`
	Err   string    `json:"err,omitempty"`
	Steps []stepRes `json:"steps"`
	Qc    []int     `json:"qc"`
	Qs    []int     `json:"qs"`
	BadPayload string `json:"badpayload,omitempty"`
	Leak  string    `json:"leak,omitempty"`
}

var (
	pki      *hopkit.PKI
	sid, cid *hopkit.Ident
)

// Address families: the abstract addresses are opaque and distinct; each behaviour is run with one concrete
// family (the endpoints' own addresses ca/sa are fixed by NewPair, the roamed and third-party ones vary):
// distinct IPv4 host and port / same IPv4 host, other port / other IPv4 host, same port / IPv6, same port.
var families = []map[string]*net.UDPAddr{
	{"cb": simwire.Addr("10.0.1.2", 2002), "x": simwire.Addr("10.0.9.9", 999)},
	{"cb": simwire.Addr("10.0.1.1", 2002), "x": simwire.Addr("10.0.0.1", 999)},
	{"cb": simwire.Addr("10.0.1.2", 1001), "x": simwire.Addr("10.0.9.9", 1001)},
	{"cb": {IP: net.ParseIP("fd00::2"), Port: 1001}, "x": {IP: net.ParseIP("fd00::9"), Port: 1001}},
	{"cb": {IP: net.ParseIP("fd00::2"), Port: 1001}, "x": {IP: net.ParseIP("fd00::2"), Port: 1002}},
}

func payload(j int) []byte { return []byte(fmt.Sprintf("payload-%03d-MARKERPLAINTEXT-%s", j, string(bytes.Repeat([]byte{byte('a' + j%26)}, 5+j*7)))) }

func craftCtl(v transport.VerifSessionView, fromClient bool, ctr uint64) []byte {
	key := v.S2C
	if fromClient {
		key = v.C2S
	}
	pkt := []byte{byte(transport.MessageTypeControl), 0, 0, 0}
	pkt = append(pkt, v.SessionID[:]...)
	var c [8]byte
	binary.BigEndian.PutUint64(c[:], ctr)
	pkt = append(pkt, c[:]...)
	aead, err := kravatte.NewSANSE(key[:])
	if err != nil {
		panic(err)
	}
	return aead.Seal(pkt, nil, []byte{byte(transport.ControlMessageClose)}, pkt[:transport.AssociatedDataLen])
}

func replay(idx int, b *beh, seed int64) (res result) {
	res.I = idx
	defer func() {
		if r := recover(); r != nil {
			res.Err = fmt.Sprint("panic in replayer: ", r)
		}
	}()
	rng := rand.New(rand.NewSource(seed + int64(idx)*104729))
	p, err := hopkit.NewPair(pki, sid, cid, idx%2 == 1, 3)
	if err != nil {
		res.Err = "handshake: " + err.Error()
		return
	}
	defer p.W.Close()
	addrOf := map[string]*net.UDPAddr{"ca": p.C.EP.Addr(), "sa": p.S.EP.Addr()}
	for k, a := range families[(idx/2)%len(families)] {
		addrOf[k] = a
	}
	nameOf := func(a string) string {
		for k, v := range addrOf {
			if v.String() == a {
				return k
			}
		}
		return a
	}
	ep := map[string]*simwire.Endpoint{"c": p.C.EP, "s": p.S.EP}
	pk := map[int][]byte{}
	clientClosed := false
	view := func() snap {
		var s snap
		hv := p.H.VerifSession()
		s.Rs, s.Cs, s.Qs = nameOf(hv.Remote), hv.Closed, hv.Queued
		if cv, ok := p.C.T.VerifSessionAny(); ok {
			s.Rc, s.Cc, s.Qc = nameOf(cv.Remote), cv.Closed || clientClosed, cv.Queued
		} else {
			s.Cc = true
		}
		return s
	}
	write := func(e string, data []byte) error {
		if e == "c" {
			return p.C.T.WriteMsg(data)
		}
		return p.H.WriteMsg(data)
	}
	for _, st := range b.Hist {
		var sr stepRes
		switch st.Op {
		case "write":
			err := write(st.E, payload(st.J))
			sr.WriteOK = err == nil
			out := p.W.Net.TakeFrom(ep[st.E])
			if len(out) == 1 {
				pk[st.J] = out[0].Data
				sr.Dst = nameOf(out[0].To.String())
			} else if len(out) > 1 {
				sr.Note = fmt.Sprintf("%d datagrams for one WriteMsg", len(out))
			}
		case "ctl":
			// the peer's next counter is consumed by a dummy write whose datagram is replaced by the control packet
			var v transport.VerifSessionView
			if st.E == "c" {
				v, _ = p.C.T.VerifSessionAny()
			} else {
				v = p.H.VerifSession()
			}
			if err := write(st.E, []byte("dummy")); err != nil {
				sr.Note = "dummy write failed: " + err.Error()
			}
			p.W.Net.TakeFrom(ep[st.E])
			pk[st.J] = craftCtl(v, st.E == "c", v.Count)
			sr.WriteOK = true
		case "deliver":
			d, ok := pk[st.J]
			if !ok {
				panic("deliver of unknown packet")
			}
			m := append([]byte(nil), d...)
			n := len(m)
			flip := func(lo, hi int) {
				if hi <= lo {
					return
				}
				m[lo+rng.Intn(hi-lo)] ^= []byte{0x01, 0x80, 0xff, byte(1 + rng.Intn(255))}[rng.Intn(4)]
			}
			switch st.Mut {
			case "none":
			case "type":
				if rng.Intn(2) == 0 {
					m[0] ^= 0x90 // transport <-> control
				} else {
					flip(0, 1)
				}
			case "rsv":
				flip(1, 4)
			case "sid":
				flip(4, 8)
			case "ctr":
				flip(8, 16)
			case "body":
				flip(16, n-32)
			case "tag":
				flip(n-32, n)
			case "trunc":
				m = m[:n-1-rng.Intn(n-1)]
			}
			if st.Mut != "none" {
				sr.Note = fmt.Sprintf("len %d -> %d", n, len(m))
			}
			if err := ep[st.E].Deliver(m, addrOf[st.A], hopkit.StepTimeout); err != nil {
				panic(err)
			}
		case "forge":
			var v transport.VerifSessionView
			if cv, ok := p.C.T.VerifSessionAny(); ok {
				v = cv
			} else {
				v = p.H.VerifSession()
			}
			t := byte(transport.MessageTypeTransport)
			if st.Mut == "ctl" {
				t = byte(transport.MessageTypeControl)
			}
			m := []byte{t, 0, 0, 0}
			m = append(m, v.SessionID[:]...)
			var c [8]byte
			binary.BigEndian.PutUint64(c[:], uint64(st.J))
			m = append(m, c[:]...)
			body := make([]byte, 1+rng.Intn(40)+32)
			rng.Read(body)
			if st.Mut == "ctl" {
				body = body[:33]
			}
			m = append(m, body...)
			if err := ep[st.E].Deliver(m, addrOf[st.A], hopkit.StepTimeout); err != nil {
				panic(err)
			}
		case "close":
			if st.E == "s" {
				p.H.Close()
			} else {
				p.C.T.Close()
				clientClosed = true
			}
		}
		sr.After = view()
		res.Steps = append(res.Steps, sr)
	}
	// drain the queues
	drain := func(rd func([]byte) (int, error), setdl func(time.Time) error) (out []int) {
		out = []int{}
		buf := make([]byte, 65536)
		for {
			setdl(time.Now().Add(2 * time.Millisecond))
			n, err := rd(buf)
			if err != nil {
				return
			}
			j := -1
			for k := 1; k < 40; k++ {
				if bytes.Equal(buf[:n], payload(k)) {
					j = k
				}
			}
			if j < 0 {
				res.BadPayload = fmt.Sprintf("%q", buf[:n])
			}
			out = append(out, j)
		}
	}
	res.Qs = drain(p.H.ReadMsg, p.H.SetReadDeadline)
	res.Qc = drain(p.C.T.ReadMsg, p.C.T.SetReadDeadline)
	// confidentiality: no datagram of the handshake or data phase shows payload, server name or certificate bytes
	leafRaw, _ := sid.Leaf.Marshal()
	cliRaw, _ := cid.Leaf.Marshal()
	for _, d := range p.W.Net.All() {
		for name, needle := range map[string][]byte{"payload": []byte("MARKERPLAINTEXT"), "server name": []byte("a.example"),
			"server certificate": leafRaw[40:100], "client certificate": cliRaw[40:100]} {
			if bytes.Contains(d.Data, needle) {
				res.Leak = fmt.Sprintf("%s visible in a %s datagram", name, hopkit.TypeName(d.Data))
			}
		}
	}
	return
}

func main() {
	logrus.SetOutput(io.Discard)
	in, out := os.Args[1], os.Args[2]
	seed, _ := strconv.ParseInt(os.Args[3], 10, 64)
	workers := 32
	if len(os.Args) > 4 {
		workers, _ = strconv.Atoi(os.Args[4])
	}
	pki = hopkit.NewPKI()
	sid = pki.Issue("valid", "a.example")
	cid = pki.Issue("selfsigned", "client")
	f, err := os.Open(in)
	if err != nil {
		panic(err)
	}
	defer f.Close()
	var behs []*beh
	sc := bufio.NewScanner(f)
	sc.Buffer(make([]byte, 1<<22), 1<<22)
	for sc.Scan() {
		b := new(beh)
		if err := json.Unmarshal(sc.Bytes(), b); err != nil {
			panic(err)
		}
		behs = append(behs, b)
	}
	w := rec.Must(out)
	defer w.Close()
	jobs := make(chan int)
	var wg sync.WaitGroup
	for k := 0; k < workers; k++ {
		wg.Add(1)
		go func() {
			defer wg.Done()
			for i := range jobs {
				w.Obj(replay(i, behs[i], seed))
			}
		}()
	}
	for i := range behs {
		jobs <- i
	}
	close(jobs)
	wg.Wait()
}
