#!/bin/bash
# debugging helper: hsrun.sh <family> -> /tmp/t1/beh<F>.jsonl, res<F>.jsonl
F=$1
mkdir -p /tmp/t1 && cd /tmp/t1 && rm -f *.tla *.cfg && cp /verif/spec/*.tla /verif/spec/*.cfg . && timeout 1800 tlc -noGenerateSpecTE -workers 16 -config MC_HopHandshake_$F.cfg MC_HopHandshake.tla 2>&1 > out$F.txt; grep -E "rror|No error|states generated" out$F.txt | tail -3; grep '^<<"BEH"' out$F.txt | sed 's/^<<"BEH", "//; s/">>$//; s/\\"/"/g' > beh$F.jsonl; wc -l beh$F.jsonl
cd /verif && python3 -c "
import sys; sys.path.insert(0,'tools'); import lib, time
b=lib.go_build('hsreplay'); t=time.time()
print(lib.run([b,'/tmp/t1/beh$F.jsonl','/tmp/t1/res$F.jsonl','${2:-1}','48'],timeout=1800)[0::2], time.time()-t)"
