------------------------------- MODULE HopTubes -------------------------------
(* A reliable tube between ends A and B at protocol level (tubes/reliable.go receive / Close / *)
(* send, sender.go write / recvAck / sendFin, receiver.go receive).                           *)
(*                                                                                           *)
(* Each end has a sender (unacknowledged frames, first unacknowledged number sAck, next       *)
(* number sNext), a receiver (TubeReceiver.tla: next, fragments, delivered frames) and the    *)
(* FIN state machine initiated / finWait1 / finWait2 / closing / closeWait / lastAck /       *)
(* closed.  Data frames do not carry the ACK flag; empty frames and FIN frames do, with the   *)
(* receiver's next expected number.  The network may lose, duplicate and reorder.  WHICH      *)
(* unacknowledged frame within the window is (re)transmitted when is left open (RTO,          *)
(* duplicate-ack and window logic of the code all refine "any unacknowledged frame in the     *)
(* window"); the two behaviours of the code that give up data are separate actions switched   *)
(* by constants so that TLC can show what they cost: DropOnMaxRTO (the oldest unacknowledged  *)
(* frame is discarded after the retransmission timeout has doubled beyond 10 s) and the       *)
(* last-ack timeout.                                                                          *)
EXTENDS Integers, Sequences, FiniteSets, TLC

CONSTANTS D,            \* data frames A writes (frames 1..D), B writes DB frames
          DB,
          Win,          \* sender window (frames)
          MaxLoss, MaxDup, MaxTx,
          DropOnMaxRTO  \* TRUE: model the code's discard of the oldest frame after a long outage

Ends == {"A", "B"}
Peer(e) == IF e = "A" THEN "B" ELSE "A"
ToWrite(e) == IF e = "A" THEN D ELSE DB

VARIABLES st, sf, sAck, sNext, finSent, wrote,
          rNext, rFrags, rBuf, rClosed,
          net, loss, dup, tx, hist
vars == <<st, sf, sAck, sNext, finSent, wrote, rNext, rFrags, rBuf, rClosed, net, loss, dup, tx, hist>>

Init == /\ st = [e \in Ends |-> "initiated"]
        /\ sf = [e \in Ends |-> <<>>] /\ sAck = [e \in Ends |-> 1] /\ sNext = [e \in Ends |-> 1]
        /\ finSent = [e \in Ends |-> FALSE] /\ wrote = [e \in Ends |-> 0]
        /\ rNext = [e \in Ends |-> 1] /\ rFrags = [e \in Ends |-> {}] /\ rBuf = [e \in Ends |-> <<>>]
        /\ rClosed = [e \in Ends |-> FALSE]
        /\ net = [e \in Ends |-> {}] /\ loss = 0 /\ dup = 0 /\ tx = 0 /\ hist = <<>>

Write(e) ==
    /\ st[e] \in {"initiated", "closeWait"} /\ ~finSent[e] /\ wrote[e] < ToWrite(e)
    /\ sf' = [sf EXCEPT ![e] = Append(@, [no |-> sNext[e], kind |-> "data"])]
    /\ sNext' = [sNext EXCEPT ![e] = @ + 1] /\ wrote' = [wrote EXCEPT ![e] = @ + 1]
    /\ UNCHANGED <<st, sAck, finSent, rNext, rFrags, rBuf, rClosed, net, loss, dup, tx, hist>>

Close(e) ==
    /\ st[e] \in {"initiated", "closeWait"}
    /\ st' = [st EXCEPT ![e] = IF @ = "initiated" THEN "finWait1" ELSE "lastAck"]
    /\ finSent' = [finSent EXCEPT ![e] = TRUE]
    /\ sf' = [sf EXCEPT ![e] = Append(@, [no |-> sNext[e], kind |-> "fin"])]      \* FIN is numbered after all data
    /\ sNext' = [sNext EXCEPT ![e] = @ + 1]
    /\ UNCHANGED <<sAck, wrote, rNext, rFrags, rBuf, rClosed, net, loss, dup, tx, hist>>

(* any unacknowledged frame inside the window is put on the wire *)
Transmit(e, i) ==
    /\ st[e] # "closed" /\ i \in 1..Len(sf[e]) /\ i <= Win /\ tx < MaxTx
    /\ tx' = tx + 1
    /\ net' = [net EXCEPT ![Peer(e)] = @ \cup {[kind |-> sf[e][i].kind, no |-> sf[e][i].no, ack |-> rNext[e], id |-> tx]}]
    /\ UNCHANGED <<st, sf, sAck, sNext, finSent, wrote, rNext, rFrags, rBuf, rClosed, loss, dup, hist>>

(* an empty frame carrying the current acknowledgement *)
SendAck(e) ==
    /\ st[e] # "closed" /\ tx < MaxTx
    /\ tx' = tx + 1
    /\ net' = [net EXCEPT ![Peer(e)] = @ \cup {[kind |-> "ack", no |-> sNext[e], ack |-> rNext[e], id |-> tx]}]
    /\ UNCHANGED <<st, sf, sAck, sNext, finSent, wrote, rNext, rFrags, rBuf, rClosed, loss, dup, hist>>

RECURSIVE Drain(_, _, _, _)
Drain(nx, fr, bf, cl) ==
    IF \E x \in fr : x.no = nx
    THEN LET x == CHOOSE y \in fr : y.no = nx
         IN  Drain(nx + 1, {y \in fr : y.no # nx}, IF x.fin THEN bf ELSE Append(bf, nx), cl \/ x.fin)
    ELSE <<nx, {y \in fr : y.no > nx}, bf, cl>>

Recv(e, f, keep) ==
    /\ f \in net[e] /\ st[e] # "closed"
    /\ (keep => dup < MaxDup) /\ dup' = IF keep THEN dup + 1 ELSE dup
    /\ net' = [net EXCEPT ![e] = IF keep THEN @ ELSE @ \ {f}]
    /\ LET carriesAck == f.kind \in {"ack", "fin"}
           buffered   == f.kind \in {"data", "fin"} /\ ~rClosed[e] /\ rNext[e] <= f.no /\ f.no <= rNext[e] + 1000
           d          == IF rClosed[e] THEN <<rNext[e], rFrags[e], rBuf[e], TRUE>>
                         ELSE Drain(rNext[e], IF buffered THEN rFrags[e] \cup {[no |-> f.no, fin |-> f.kind = "fin"]} ELSE rFrags[e], rBuf[e], FALSE)
           finNow     == ~rClosed[e] /\ d[4]
           newAck     == IF carriesAck /\ f.ack > sAck[e] /\ f.ack <= sNext[e] THEN f.ack ELSE sAck[e]
           popped     == newAck - sAck[e]
           sf1        == SubSeq(sf[e], popped + 1, Len(sf[e]))
           st5        == IF carriesAck /\ st[e] # "initiated" /\ Len(sf1) = 0
                         THEN CASE st[e] = "finWait1" -> "finWait2"
                                [] st[e] \in {"closing", "lastAck"} -> "closed"
                                [] OTHER -> st[e]
                         ELSE st[e]
           finEv      == (f.kind = "fin" /\ d[4]) \/ finNow
           st6        == IF finEv /\ st5 # "closed"
                         THEN CASE st5 = "initiated" -> "closeWait"
                                [] st5 = "finWait1" -> "closing"
                                [] st5 = "finWait2" -> "closed"
                                [] OTHER -> st5
                         ELSE st5
       IN /\ rNext' = [rNext EXCEPT ![e] = d[1]] /\ rFrags' = [rFrags EXCEPT ![e] = d[2]]
          /\ rBuf' = [rBuf EXCEPT ![e] = d[3]] /\ rClosed' = [rClosed EXCEPT ![e] = d[4] \/ st6 = "closed"]
          /\ sAck' = [sAck EXCEPT ![e] = newAck] /\ sf' = [sf EXCEPT ![e] = sf1]
          /\ st' = [st EXCEPT ![e] = st6]
    /\ UNCHANGED <<sNext, finSent, wrote, loss, tx, hist>>

Lose(e, f) ==
    /\ f \in net[e] /\ loss < MaxLoss
    /\ loss' = loss + 1 /\ net' = [net EXCEPT ![e] = @ \ {f}]
    /\ hist' = Append(hist, [dir |-> Peer(e), kind |-> f.kind, no |-> f.no])
    /\ UNCHANGED <<st, sf, sAck, sNext, finSent, wrote, rNext, rFrags, rBuf, rClosed, dup, tx>>

(* the code's timers that give up *)
LastAckTimeout(e) ==
    /\ st[e] = "lastAck"
    /\ st' = [st EXCEPT ![e] = "closed"] /\ rClosed' = [rClosed EXCEPT ![e] = TRUE]
    /\ UNCHANGED <<sf, sAck, sNext, finSent, wrote, rNext, rFrags, rBuf, net, loss, dup, tx, hist>>
MaxRTODrop(e) ==
    /\ DropOnMaxRTO /\ Len(sf[e]) > 0 /\ st[e] # "closed"
    /\ sf' = [sf EXCEPT ![e] = Tail(@)]
    /\ UNCHANGED <<st, sAck, sNext, finSent, wrote, rNext, rFrags, rBuf, rClosed, net, loss, dup, tx, hist>>

Next == \/ \E e \in Ends : Write(e) \/ Close(e) \/ SendAck(e) \/ LastAckTimeout(e) \/ MaxRTODrop(e)
        \/ \E e \in Ends, i \in 1..Win : Transmit(e, i)
        \/ \E e \in Ends : \E f \in net[e] : Recv(e, f, FALSE) \/ Recv(e, f, TRUE) \/ Lose(e, f)
Spec == Init /\ [][Next]_vars

-----------------------------------------------------------------------------
(* C08 at protocol level *)
Prefix == \A e \in Ends : \A i \in 1..Len(rBuf[e]) : rBuf[e][i] = i /\ i <= wrote[Peer(e)]
(* end-of-stream (receiver closed by an in-order FIN) only after every data frame written before the close *)
EOFAfterData == \A e \in Ends : (rClosed[e] /\ st[e] \in {"closeWait", "lastAck", "closing"} /\ finSent[Peer(e)])
                                   => Len(rBuf[e]) = wrote[Peer(e)]
SenderNumbering == \A e \in Ends : \A i \in 1..Len(sf[e]) : sf[e][i].no = sAck[e] + i - 1
(* C16 at protocol level: an end that waits for closure while its peer is gone and nothing is in flight can *)
(* only be released by a timer - the code has one for lastAck, none for finWait1 / finWait2.                *)
NoOrphan == \A e \in Ends : ~(st[e] \in {"finWait1", "finWait2"} /\ st[Peer(e)] = "closed" /\ net[e] = {})
View == <<st, sf, sAck, sNext, finSent, wrote, rNext, rFrags, rBuf, rClosed, net, loss, dup, tx>>
=============================================================================
