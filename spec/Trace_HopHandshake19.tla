------------------------ MODULE Trace_HopHandshake19 ------------------------
(* Trace validation for the quantitative clauses of C19, in terms of HopHandshake.tla:        *)
(*  hellos   n ClientHello datagrams from n distinct addresses: SrvCH is stateless, so the    *)
(*           tables hold 0 handshakes and 0 sessions afterwards and each hello got one reply  *)
(*  cookie   a ClientAck whose cookie was minted for another address / port / client key / *)
(*           under the previous cookie key / by another server instance (IPv4, IPv6 and         *)
(*           IPv4-mapped source addresses): ckOK of SrvCA is false, nothing is allocated         *)
(*  hprobe   a datagram of class c sent to a hidden-mode server: only class "fresh-hr" (a     *)
(*           fresh well-formed hidden request made with the server's KEM key) is answered; a     *)
(*           request stamped in the future or more than the window in the past is not fresh      *)
EXTENDS Integers, Sequences, TLC, Json
Trace == ndJsonDeserialize("trace.ndjson")
VARIABLES l, bad
Ev == Trace[l]
Good(e) ==
    CASE e.ev = "hellos" -> e.handshakes = 0 /\ e.sessions = 0 /\ e.replies = e.n
      [] e.ev = "cookie" -> IF e.class \in {"genuine", "genuine-v6", "genuine-v4mapped"} THEN e.allocated = 1 /\ e.replies = 1
                            ELSE e.allocated = 0 /\ e.replies = 0
      [] e.ev = "hprobe" -> IF e.class \in {"fresh-hr", "hr-skew-fresh"} THEN e.replies = 1 ELSE e.replies = 0
      [] OTHER -> FALSE
TInit == l = 1 /\ bad = 0
TNext == /\ l <= Len(Trace) /\ l' = l + 1
         /\ IF Good(Ev) THEN bad' = bad ELSE bad' = bad + 1 /\ PrintT(<<"MISMATCH", l>>)
TSpec == TInit /\ [][TNext]_<<l, bad>>
HW == TLCSet(1, l)
Accepted == TLCGet(1) = Len(Trace) + 1
=============================================================================
