------------------------------- MODULE Cyclist -------------------------------
(* The Cyclist duplex mode (Daemen, Hoffert, Peeters, Van Assche, Van Keer: "Xoodyak, a         *)
(* lightweight cryptographic scheme", section 2, algorithms 2 and 3) with the parameters of       *)
(* cyclist/cyclist.go: b = 200 bytes, Rhash = Rkin = Rkout = 136, lratchet = 32.                  *)
(*                                                                                               *)
(* The mode is modelled as the decomposition of every interface call into Up and Down steps       *)
(* with their colour bytes and block lengths, depending on the object's mode and phase.  The      *)
(* permutation f is not part of the mode: at this level it is an uninterpreted function           *)
(* (KeccakP.tla defines the one the code must use).                                              *)
(*                                                                                               *)
(* A step is a record [k, c, n]: k = "up" | "down", c = the colour byte handed to the step,        *)
(* n = the length of the block absorbed (down) or extracted (up).                                  *)
EXTENDS Integers, Sequences, TLC

Rate == 136
LRatchet == 32
Min(a, b) == IF a < b THEN a ELSE b

UpS(c, n) == [k |-> "up", c |-> c, n |-> n]
DownS(c, n) == [k |-> "down", c |-> c, n |-> n]

(* lengths of Split(X, r): an empty string is one empty block *)
RECURSIVE SplitLens(_, _)
SplitLens(len, r) == IF len <= r THEN <<len>> ELSE <<r>> \o SplitLens(len - r, r)

(* AbsorbAny(X, r, cD) starting in phase ph: before every block an Up(0, 0x00) unless the phase is up *)
RECURSIVE AbsorbBlocks(_, _, _)
AbsorbBlocks(lens, ph, cd) ==
    IF lens = <<>> THEN <<>>
    ELSE (IF ph = "up" THEN <<>> ELSE <<UpS(0, 0)>>) \o <<DownS(cd, Head(lens))>> \o AbsorbBlocks(Tail(lens), "down", 0)
AbsorbAny(len, r, cd, ph) == AbsorbBlocks(SplitLens(len, r), ph, cd)

(* Crypt(I): per block Up(|Ii|, cu) then Down(Pi, 0x00); cu = 0x80 for the first block *)
RECURSIVE CryptBlocks(_, _)
CryptBlocks(lens, cu) ==
    IF lens = <<>> THEN <<>>
    ELSE <<UpS(cu, 0), DownS(0, Head(lens))>> \o CryptBlocks(Tail(lens), 0)
Crypt(len) == CryptBlocks(SplitLens(len, Rate), 128)
(* the code extracts the key stream directly from the state after Up(0): the up step itself reports n = 0 *)

(* SqueezeAny(l, cu): Up(min(l, R), cu); while more is needed: Down(empty, 0x00), Up(.., 0x00) *)
RECURSIVE SqueezeMore(_)
SqueezeMore(rest) == IF rest = 0 THEN <<>> ELSE <<DownS(0, 0), UpS(0, Min(rest, Rate))>> \o SqueezeMore(rest - Min(rest, Rate))
SqueezeAny(l, cu) == <<UpS(cu, Min(l, Rate))>> \o SqueezeMore(l - Min(l, Rate))

PhaseAfter(steps, ph) == IF steps = <<>> THEN ph ELSE steps[Len(steps)].k

(* one interface call: [op, a, b, c] with operand lengths; returns the steps *)
Steps(call, mode, ph) ==
    CASE call.op = "InitializeEmpty" -> <<>>
      [] call.op = "Initialize" ->
           IF call.a = 0 THEN <<>>                                  \* no key: hash mode, empty state
           ELSE LET s1 == AbsorbAny(call.a + call.b + 1, Rate, 2, "up")          \* K || id || enc8(|id|), colour 0x02
                IN s1 \o (IF call.c > 0 THEN AbsorbAny(call.c, 1, 0, PhaseAfter(s1, "up")) ELSE <<>>)   \* counter byte by byte
      [] call.op = "Absorb" -> AbsorbAny(call.a, Rate, 3, ph)
      [] call.op \in {"Encrypt", "Decrypt"} -> Crypt(call.a)
      [] call.op = "Squeeze" -> SqueezeAny(call.a, 64)
      [] call.op = "SqueezeKey" -> SqueezeAny(call.a, 32)
      [] call.op = "Ratchet" -> LET s1 == SqueezeAny(LRatchet, 16) IN s1 \o AbsorbAny(LRatchet, Rate, 0, PhaseAfter(s1, ph))
ModeAfter(call, mode) ==
    CASE call.op = "InitializeEmpty" -> "hash"
      [] call.op = "Initialize" -> IF call.a = 0 THEN "hash" ELSE "keyed"
      [] OTHER -> mode
PhaseAfterCall(call, mode, ph) ==
    IF call.op \in {"InitializeEmpty", "Initialize"} THEN PhaseAfter(Steps(call, mode, ph), "up")
    ELSE PhaseAfter(Steps(call, mode, ph), ph)
Allowed(call, mode) == call.op \in {"Encrypt", "Decrypt", "SqueezeKey", "Ratchet"} => mode = "keyed"

(* the colour that reaches the state: in hash mode Up adds nothing and Down keeps only the low bit *)
Effective(step, mode) == IF mode = "hash" THEN (IF step.k = "up" THEN 0 ELSE step.c % 2) ELSE step.c
=============================================================================
