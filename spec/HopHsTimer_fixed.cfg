SPECIFICATION Spec
CONSTANTS Handshakes = {1, 2, 3}  ByIdentity = TRUE
INVARIANT OnlyOwnTimer
CHECK_DEADLOCK FALSE
