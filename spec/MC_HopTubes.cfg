SPECIFICATION Spec
CONSTANTS D = 2  DB = 0  Win = 2  MaxLoss = 1  MaxDup = 1  MaxTx = 4  DropOnMaxRTO = FALSE
INVARIANTS Prefix EOFAfterData SenderNumbering
VIEW View
CHECK_DEADLOCK FALSE
