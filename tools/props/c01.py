# C01 — handshake completes only with a peer that proved its certified key (DESIGN.md §3 C01)
import random
import lib
from props import hs_common as H

def run(v, tier, replay):
    thorough = tier == "thorough"
    v.assumptions += ["symbolic cryptography (transcript terms; MAC/tag = transcript; DH = unordered key pair; KEM by owner)",
                      "structured adversary: per hop one of ok/drop/tamper(field)/truncate/splice/readdr, plus replay, cookie-key rotation, clock tick; at most 1 move (families A,B) or 2 (family C, thorough)",
                      "role instances: 12 server instances (honest under 4 client policies, hidden-only, impostor, wrong name, expired, wrong type, untrusted root, self-signed) x 7 client kinds",
                      "a refusal is never a violation; only completions/offers the property forbids are"]
    H.selftest_mutant(v)
    nun = 0
    fams = ["A", "B"] + (["C", "Ch"] if thorough else [])
    for fam in fams:
        behs = H.tlc_family(v, fam)
        if fam in ("C",) and len(behs) > 12000:
            random.Random(lib.seed()).shuffle(behs)
            behs = behs[:12000]
        res = H.replay(v, behs, fam)
        nun += H.judge(v, "C01", behs, res)
    v.cov["exhaustive"] = True
    if nun:
        if not v.viol:
            raise lib.Inconclusive("%d behaviours differ between model and code in ways no property clause explains (see UNEXPLAINED lines)" % nun)
