SPECIFICATION Spec
CONSTANTS N = 4  Win = 1000  MaxSteps = 7
INVARIANTS InOrderNoGapsNoDups AckIsNextMinusOne FragsAboveWindowStart
VIEW View
CHECK_DEADLOCK FALSE
