SPECIFICATION Spec
CONSTANTS Handshakes = {1, 2, 3}  ByIdentity = FALSE
INVARIANT OnlyOwnTimer
CHECK_DEADLOCK FALSE
