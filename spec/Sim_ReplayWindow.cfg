SPECIFICATION SSpec
CONSTANTS NumBlocks = 8  BlockSize = 2  MaxSeq = 36  ClearCap = 8
INVARIANT Equiv
CONSTRAINT Emit
CHECK_DEADLOCK FALSE
