SPECIFICATION Spec
INVARIANTS OthersIntact Stoppable Emit
CONSTANT OpenSeqs <- OpenSeqsDeep
CHECK_DEADLOCK FALSE
