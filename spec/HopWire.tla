------------------------------- MODULE HopWire -------------------------------
(* Wire formats of Hop (C18).  A codec is a sequence of fields; a variable-length field is    *)
(* carried behind a length prefix of w bytes and may have a tighter documented maximum.  A    *)
(* value is abstracted to the lengths of its variable fields (and its enum bytes).            *)
(*                                                                                           *)
(*   Representable(c, v)   every variable field fits its prefix and its maximum               *)
(*   EncLen / DecLen       what a w-byte big-endian prefix can carry                          *)
(* FormatSound (checked by TLC over all boundary lengths) is the format-level round trip: a   *)
(* length survives its prefix iff it is representable - so an encoder that does not REJECT a  *)
(* non-representable value necessarily mis-frames it.                                         *)
(* The trace specification (Trace_HopWire) judges the real encoders/decoders against          *)
(* Representable: representable => encodes, decodes, equal; not representable => the ENCODER   *)
(* reports an error; accepted bytes => decode(encode(decode(b))) = decode(b).                  *)
EXTENDS Integers, Sequences, FiniteSets, TLC

Pow256(w) == CASE w = 1 -> 256 [] w = 2 -> 65536 [] w = 4 -> 2147483647      \* TLC integers are 32-bit: 4-byte prefixes are treated as unbounded here
EncLen(n, w) == n % Pow256(w)          \* what ends up in the prefix when the encoder just casts
DecLen(p, w) == p

(* codec -> field -> [w: prefix width, max: largest representable length]                     *)
Fmt == [
  string    |-> [s     |-> [w |-> 1, max |-> 255]],                                   \* common.WriteString
  name      |-> [label |-> [w |-> 1, max |-> 252]],                                   \* certs.Name: block size = len+3 in ONE byte
  idchunk   |-> [total |-> [w |-> 2, max |-> 512], label |-> [w |-> 1, max |-> 252]],                                 \* certs.IDChunk: serialized length incl. its 2-byte prefix
  denial    |-> [reason |-> [w |-> 1, max |-> 255]],                                  \* authgrants IntentDenied
  intent    |-> [sni |-> [w |-> 1, max |-> 252], user |-> [w |-> 1, max |-> 255], cmd |-> [w |-> 1, max |-> 255]],
  targetinfo|-> [url |-> [w |-> 1, max |-> 255]],                                     \* authgrants proxy TargetInfo
  failure   |-> [err |-> [w |-> 1, max |-> 255]],                                     \* authgrants proxy WriteFailure
  frame     |-> [data |-> [w |-> 2, max |-> 65535]],                                  \* tubes frame / initiate frame
  exec      |-> [cmd |-> [w |-> 4, max |-> 2147483646], term |-> [w |-> 4, max |-> 2147483646]],
  userauth  |-> [user |-> [w |-> 2, max |-> 65535]],
  pfaddr    |-> [addr |-> [w |-> 2, max |-> 65535]],                                  \* portforwarding address packet
  execfail  |-> [err |-> [w |-> 2, max |-> 65535]],                                   \* codex.SendFailure
  pembundle |-> [count |-> [w |-> 4, max |-> 2147483646]]                             \* a stream of PEM-encoded certificates (trust file): any number
]
Codecs == DOMAIN Fmt

Representable(c, lens) == \A f \in DOMAIN lens : f \in DOMAIN Fmt[c] => lens[f] <= Fmt[c][f].max

(* format-level model: all boundary lengths *)
Boundary == {0, 1, 2, 251, 252, 253, 254, 255, 256, 257, 300, 511, 512, 513, 65534, 65535, 65536, 65537, 70000}
VARIABLES c, f, n
MInit == c \in Codecs /\ f \in DOMAIN Fmt[c] /\ n \in Boundary
MNext == UNCHANGED <<c, f, n>>
MSpec == MInit /\ [][MNext]_<<c, f, n>>
FormatSound == (n <= Fmt[c][f].max) => (DecLen(EncLen(n, Fmt[c][f].w), Fmt[c][f].w) = n)
MaxFitsPrefix == Fmt[c][f].max < Pow256(Fmt[c][f].w)
CastMisframes == (n >= Pow256(Fmt[c][f].w)) => (DecLen(EncLen(n, Fmt[c][f].w), Fmt[c][f].w) # n)
=============================================================================
