------------------------------- MODULE HopConn -------------------------------
(* Lifecycle of a transport client (transport/client.go Handshake / Close / Read) at the        *)
(* granularity of its atomic state operations and channel operations.  The same election         *)
(* pattern (state CAS, closeDone / closeErr) is used by transport/server.go Close.               *)
(*                                                                                               *)
(*   state          atomic word: created handshaking open closing closed error                   *)
(*   hsDone         handshakeDone closed: publishes err / ss of the elected Handshake caller      *)
(*   closeDone      closed after the elected Close caller stored closeErr and stopped everything  *)
(*   sock           the underlying socket is closed (reads and writes on it then fail)            *)
(*   ss             a session and its Handle are installed; hClosed: that Handle is closed        *)
(*   listen         the listen goroutine (counted in the wait group) is running                   *)
(*                                                                                               *)
(* WaitHS = FALSE is the variant in which Close does not wait for an in-flight handshake (a       *)
(* plausible slip: testing the state word after the CAS instead of the value seen before it):     *)
(* TLC must find a Handle that is installed after Close has completed and that nobody closes,     *)
(* so that a later Read blocks for ever.                                                          *)
EXTENDS Integers, Sequences, FiniteSets, TLC
CONSTANTS Handshakers, Closers, Readers, WaitHS

(* --algorithm HopConn
variables state = "created", hsDone = FALSE, closeDone = FALSE, closeErr = "unset", sock = FALSE,
          ss = FALSE, hClosed = FALSE, listen = FALSE, cerr = "unset",
          res = [p \in Handshakers \cup Closers \cup Readers |-> "none"];

fair process H \in Handshakers
variables herr = "ok";
begin
H0: while res[self] = "none" do
      if state = "created" then
        state := "handshaking";                          \* CAS created -> handshaking: this caller is elected
HW:     either                                           \* the exchange: datagrams are written and read
          herr := "neterr";                              \* a write / read fails (always possible: timeout, closed socket)
        or
          await ~sock;                                   \* all datagrams went out and came in
HI:       ss := TRUE;                                    \* session state and Handle installed
HC:       if state = "handshaking" then                  \* CAS handshaking -> open
            state := "open"; listen := TRUE;
          else
            herr := "eof";
          end if;
        end either;
H2:     if herr # "ok" then
          cerr := herr;                                  \* c.err stored before the state is published
H2b:      if state = "handshaking" then state := "error"; ss := FALSE; end if;
        end if;
H3:     hsDone := TRUE;                                  \* close(handshakeDone)
H4:     res[self] := IF state \in {"closing", "closed"} THEN "eof" ELSE herr;
      elsif state = "handshaking" then
HWt:    await hsDone;
      elsif state = "open" then res[self] := "ok";
      elsif state = "error" then res[self] := cerr;
      else res[self] := "eof";
      end if;
    end while;
end process;

fair process C \in Closers
variables prev = "none";
begin
C0: if state \in {"closing", "closed"} then
CW:   await closeDone;
      res[self] := closeErr;
    else
      prev := state; state := "closing";                 \* CAS prev -> closing: this caller is elected
C1:   closeErr := "E"; sock := TRUE;                     \* underlyingConn.Close(): result E, socket dead
C2:   if WaitHS /\ prev = "handshaking" then
        await hsDone;
      end if;
C3:   await ~listen;                                     \* wg.Wait()
C4:   if ss then hClosed := TRUE; end if;
C5:   state := "closed";
C6:   closeDone := TRUE;
      res[self] := closeErr;
    end if;
end process;

fair process L = "listen"
begin
L0: while TRUE do
      await listen /\ state # "open" /\ sock;            \* the loop ends when the state left open; a closed socket wakes it
      listen := FALSE;
    end while;
end process;

fair process R \in Readers                               \* a Read that starts once somebody has called Close
begin
R0: await state \in {"closing", "closed"};
R1: if state = "closing" then
      res[self] := "eof";
    else
R2:   await closeDone;
      if ~ss then
        res[self] := "eof";
      else
R3:     await hClosed;                                   \* Handle.Read on an empty queue: released only by its close
        res[self] := "eof";
      end if;
    end if;
end process;
end algorithm; *)
\* BEGIN TRANSLATION
VARIABLES pc, state, hsDone, closeDone, closeErr, sock, ss, hClosed, listen, 
          cerr, res, herr, prev

vars == << pc, state, hsDone, closeDone, closeErr, sock, ss, hClosed, listen, 
           cerr, res, herr, prev >>

ProcSet == (Handshakers) \cup (Closers) \cup {"listen"} \cup (Readers)

Init == (* Global variables *)
        /\ state = "created"
        /\ hsDone = FALSE
        /\ closeDone = FALSE
        /\ closeErr = "unset"
        /\ sock = FALSE
        /\ ss = FALSE
        /\ hClosed = FALSE
        /\ listen = FALSE
        /\ cerr = "unset"
        /\ res = [p \in Handshakers \cup Closers \cup Readers |-> "none"]
        (* Process H *)
        /\ herr = [self \in Handshakers |-> "ok"]
        (* Process C *)
        /\ prev = [self \in Closers |-> "none"]
        /\ pc = [self \in ProcSet |-> CASE self \in Handshakers -> "H0"
                                        [] self \in Closers -> "C0"
                                        [] self = "listen" -> "L0"
                                        [] self \in Readers -> "R0"]

H0(self) == /\ pc[self] = "H0"
            /\ IF res[self] = "none"
                  THEN /\ IF state = "created"
                             THEN /\ state' = "handshaking"
                                  /\ pc' = [pc EXCEPT ![self] = "HW"]
                                  /\ res' = res
                             ELSE /\ IF state = "handshaking"
                                        THEN /\ pc' = [pc EXCEPT ![self] = "HWt"]
                                             /\ res' = res
                                        ELSE /\ IF state = "open"
                                                   THEN /\ res' = [res EXCEPT ![self] = "ok"]
                                                   ELSE /\ IF state = "error"
                                                              THEN /\ res' = [res EXCEPT ![self] = cerr]
                                                              ELSE /\ res' = [res EXCEPT ![self] = "eof"]
                                             /\ pc' = [pc EXCEPT ![self] = "H0"]
                                  /\ state' = state
                  ELSE /\ pc' = [pc EXCEPT ![self] = "Done"]
                       /\ UNCHANGED << state, res >>
            /\ UNCHANGED << hsDone, closeDone, closeErr, sock, ss, hClosed, 
                            listen, cerr, herr, prev >>

HW(self) == /\ pc[self] = "HW"
            /\ \/ /\ herr' = [herr EXCEPT ![self] = "neterr"]
                  /\ pc' = [pc EXCEPT ![self] = "H2"]
               \/ /\ ~sock
                  /\ pc' = [pc EXCEPT ![self] = "HI"]
                  /\ herr' = herr
            /\ UNCHANGED << state, hsDone, closeDone, closeErr, sock, ss, 
                            hClosed, listen, cerr, res, prev >>

HI(self) == /\ pc[self] = "HI"
            /\ ss' = TRUE
            /\ pc' = [pc EXCEPT ![self] = "HC"]
            /\ UNCHANGED << state, hsDone, closeDone, closeErr, sock, hClosed, 
                            listen, cerr, res, herr, prev >>

HC(self) == /\ pc[self] = "HC"
            /\ IF state = "handshaking"
                  THEN /\ state' = "open"
                       /\ listen' = TRUE
                       /\ herr' = herr
                  ELSE /\ herr' = [herr EXCEPT ![self] = "eof"]
                       /\ UNCHANGED << state, listen >>
            /\ pc' = [pc EXCEPT ![self] = "H2"]
            /\ UNCHANGED << hsDone, closeDone, closeErr, sock, ss, hClosed, 
                            cerr, res, prev >>

H2(self) == /\ pc[self] = "H2"
            /\ IF herr[self] # "ok"
                  THEN /\ cerr' = herr[self]
                       /\ pc' = [pc EXCEPT ![self] = "H2b"]
                  ELSE /\ pc' = [pc EXCEPT ![self] = "H3"]
                       /\ cerr' = cerr
            /\ UNCHANGED << state, hsDone, closeDone, closeErr, sock, ss, 
                            hClosed, listen, res, herr, prev >>

H2b(self) == /\ pc[self] = "H2b"
             /\ IF state = "handshaking"
                   THEN /\ state' = "error"
                        /\ ss' = FALSE
                   ELSE /\ TRUE
                        /\ UNCHANGED << state, ss >>
             /\ pc' = [pc EXCEPT ![self] = "H3"]
             /\ UNCHANGED << hsDone, closeDone, closeErr, sock, hClosed, 
                             listen, cerr, res, herr, prev >>

H3(self) == /\ pc[self] = "H3"
            /\ hsDone' = TRUE
            /\ pc' = [pc EXCEPT ![self] = "H4"]
            /\ UNCHANGED << state, closeDone, closeErr, sock, ss, hClosed, 
                            listen, cerr, res, herr, prev >>

H4(self) == /\ pc[self] = "H4"
            /\ res' = [res EXCEPT ![self] = IF state \in {"closing", "closed"} THEN "eof" ELSE herr[self]]
            /\ pc' = [pc EXCEPT ![self] = "H0"]
            /\ UNCHANGED << state, hsDone, closeDone, closeErr, sock, ss, 
                            hClosed, listen, cerr, herr, prev >>

HWt(self) == /\ pc[self] = "HWt"
             /\ hsDone
             /\ pc' = [pc EXCEPT ![self] = "H0"]
             /\ UNCHANGED << state, hsDone, closeDone, closeErr, sock, ss, 
                             hClosed, listen, cerr, res, herr, prev >>

H(self) == H0(self) \/ HW(self) \/ HI(self) \/ HC(self) \/ H2(self)
              \/ H2b(self) \/ H3(self) \/ H4(self) \/ HWt(self)

C0(self) == /\ pc[self] = "C0"
            /\ IF state \in {"closing", "closed"}
                  THEN /\ pc' = [pc EXCEPT ![self] = "CW"]
                       /\ UNCHANGED << state, prev >>
                  ELSE /\ prev' = [prev EXCEPT ![self] = state]
                       /\ state' = "closing"
                       /\ pc' = [pc EXCEPT ![self] = "C1"]
            /\ UNCHANGED << hsDone, closeDone, closeErr, sock, ss, hClosed, 
                            listen, cerr, res, herr >>

CW(self) == /\ pc[self] = "CW"
            /\ closeDone
            /\ res' = [res EXCEPT ![self] = closeErr]
            /\ pc' = [pc EXCEPT ![self] = "Done"]
            /\ UNCHANGED << state, hsDone, closeDone, closeErr, sock, ss, 
                            hClosed, listen, cerr, herr, prev >>

C1(self) == /\ pc[self] = "C1"
            /\ closeErr' = "E"
            /\ sock' = TRUE
            /\ pc' = [pc EXCEPT ![self] = "C2"]
            /\ UNCHANGED << state, hsDone, closeDone, ss, hClosed, listen, 
                            cerr, res, herr, prev >>

C2(self) == /\ pc[self] = "C2"
            /\ IF WaitHS /\ prev[self] = "handshaking"
                  THEN /\ hsDone
                  ELSE /\ TRUE
            /\ pc' = [pc EXCEPT ![self] = "C3"]
            /\ UNCHANGED << state, hsDone, closeDone, closeErr, sock, ss, 
                            hClosed, listen, cerr, res, herr, prev >>

C3(self) == /\ pc[self] = "C3"
            /\ ~listen
            /\ pc' = [pc EXCEPT ![self] = "C4"]
            /\ UNCHANGED << state, hsDone, closeDone, closeErr, sock, ss, 
                            hClosed, listen, cerr, res, herr, prev >>

C4(self) == /\ pc[self] = "C4"
            /\ IF ss
                  THEN /\ hClosed' = TRUE
                  ELSE /\ TRUE
                       /\ UNCHANGED hClosed
            /\ pc' = [pc EXCEPT ![self] = "C5"]
            /\ UNCHANGED << state, hsDone, closeDone, closeErr, sock, ss, 
                            listen, cerr, res, herr, prev >>

C5(self) == /\ pc[self] = "C5"
            /\ state' = "closed"
            /\ pc' = [pc EXCEPT ![self] = "C6"]
            /\ UNCHANGED << hsDone, closeDone, closeErr, sock, ss, hClosed, 
                            listen, cerr, res, herr, prev >>

C6(self) == /\ pc[self] = "C6"
            /\ closeDone' = TRUE
            /\ res' = [res EXCEPT ![self] = closeErr]
            /\ pc' = [pc EXCEPT ![self] = "Done"]
            /\ UNCHANGED << state, hsDone, closeErr, sock, ss, hClosed, listen, 
                            cerr, herr, prev >>

C(self) == C0(self) \/ CW(self) \/ C1(self) \/ C2(self) \/ C3(self)
              \/ C4(self) \/ C5(self) \/ C6(self)

L0 == /\ pc["listen"] = "L0"
      /\ listen /\ state # "open" /\ sock
      /\ listen' = FALSE
      /\ pc' = [pc EXCEPT !["listen"] = "L0"]
      /\ UNCHANGED << state, hsDone, closeDone, closeErr, sock, ss, hClosed, 
                      cerr, res, herr, prev >>

L == L0

R0(self) == /\ pc[self] = "R0"
            /\ state \in {"closing", "closed"}
            /\ pc' = [pc EXCEPT ![self] = "R1"]
            /\ UNCHANGED << state, hsDone, closeDone, closeErr, sock, ss, 
                            hClosed, listen, cerr, res, herr, prev >>

R1(self) == /\ pc[self] = "R1"
            /\ IF state = "closing"
                  THEN /\ res' = [res EXCEPT ![self] = "eof"]
                       /\ pc' = [pc EXCEPT ![self] = "Done"]
                  ELSE /\ pc' = [pc EXCEPT ![self] = "R2"]
                       /\ res' = res
            /\ UNCHANGED << state, hsDone, closeDone, closeErr, sock, ss, 
                            hClosed, listen, cerr, herr, prev >>

R2(self) == /\ pc[self] = "R2"
            /\ closeDone
            /\ IF ~ss
                  THEN /\ res' = [res EXCEPT ![self] = "eof"]
                       /\ pc' = [pc EXCEPT ![self] = "Done"]
                  ELSE /\ pc' = [pc EXCEPT ![self] = "R3"]
                       /\ res' = res
            /\ UNCHANGED << state, hsDone, closeDone, closeErr, sock, ss, 
                            hClosed, listen, cerr, herr, prev >>

R3(self) == /\ pc[self] = "R3"
            /\ hClosed
            /\ res' = [res EXCEPT ![self] = "eof"]
            /\ pc' = [pc EXCEPT ![self] = "Done"]
            /\ UNCHANGED << state, hsDone, closeDone, closeErr, sock, ss, 
                            hClosed, listen, cerr, herr, prev >>

R(self) == R0(self) \/ R1(self) \/ R2(self) \/ R3(self)

Next == L
           \/ (\E self \in Handshakers: H(self))
           \/ (\E self \in Closers: C(self))
           \/ (\E self \in Readers: R(self))

Spec == /\ Init /\ [][Next]_vars
        /\ \A self \in Handshakers : WF_vars(H(self))
        /\ \A self \in Closers : WF_vars(C(self))
        /\ WF_vars(L)
        /\ \A self \in Readers : WF_vars(R(self))

\* END TRANSLATION
-----------------------------------------------------------------------------
(* C17: close reports the same result to every caller: the result of closing the socket *)
SameResult == \A c \in Closers : res[c] \in {"none", "E"}
(* once Close has completed there is no open Handle, now or later, and no worker *)
NothingLeft == closeDone => (~listen /\ (ss => hClosed))
(* every call returns *)
Termination == <>(\A p \in Handshakers \cup Closers \cup Readers : res[p] # "none")
=============================================================================
