package hopserver

// Verification driver (go test -overlay, verif tag): one grant, many simultaneous requests for it in ONE
// session.  checkCmd / checkPF run in a goroutine per request; a grant authorizes a single action however
// the requests are timed.  Writes one line per round: how many of the simultaneous requests passed the check.

import (
	"bufio"
	"encoding/json"
	"io"
	"os"
	"sync"
	"testing"
	"time"

	"github.com/sirupsen/logrus"

	"hop.computer/hop/authgrants"
	"hop.computer/hop/pkg/thunks"
)

func TestVerifGrantsConcurrent(t *testing.T) {
	out := os.Getenv("VT_OUT")
	if out == "" {
		t.Skip("VT_OUT not set")
	}
	logrus.SetOutput(io.Discard)
	logrus.SetLevel(logrus.PanicLevel)
	fo, err := os.Create(out)
	if err != nil {
		t.Fatal(err)
	}
	defer fo.Close()
	w := bufio.NewWriter(fo)
	defer w.Flush()
	now := time.Date(2031, 3, 1, 12, 0, 0, 0, time.UTC)
	old := thunks.TimeNow
	thunks.TimeNow = func() time.Time { return now }
	defer func() { thunks.TimeNow = old }()
	rounds := 3000
	for _, n := range []int{2, 4, 8} {
		for _, kind := range []string{"cmd", "shell", "pf"} {
			over := 0
			maxok := 0
			panics := 0
			for r := 0; r < rounds; r++ {
				ag := authgrants.Authgrant{StartTime: now.Add(-time.Minute), ExpTime: now.Add(time.Hour)}
				switch kind {
				case "cmd":
					ag.GrantType = authgrants.Command
					ag.AssociatedData.CommandGrantData.Cmd = "make deploy"
				case "shell":
					ag.GrantType = authgrants.Shell
				case "pf":
					ag.GrantType = authgrants.LocalPF
				}
				sess := &hopSession{user: "u", usingAuthGrant: true, authorizedActions: []authgrants.Authgrant{ag}}
				var wg sync.WaitGroup
				start := make(chan struct{})
				var mu sync.Mutex
				ok := 0
				for i := 0; i < n; i++ {
					wg.Add(1)
					go func() {
						defer wg.Done()
						defer func() {
							if r := recover(); r != nil {
								mu.Lock()
								panics++
								mu.Unlock()
							}
						}()
						<-start
						var err error
						switch kind {
						case "cmd":
							_, err = sess.checkCmd("make deploy", false)
						case "shell":
							_, err = sess.checkCmd("", true)
						case "pf":
							err = sess.checkPF(4)
						}
						if err == nil {
							mu.Lock()
							ok++
							mu.Unlock()
						}
					}()
				}
				close(start)
				wg.Wait()
				if ok > 1 {
					over++
				}
				if ok > maxok {
					maxok = ok
				}
			}
			b, _ := json.Marshal(map[string]any{"ev": "concgrant", "kind": kind, "n": n, "rounds": rounds, "rounds_with_more_than_one": over, "max_ok": maxok, "panics": panics})
			w.Write(b)
			w.WriteByte('\n')
		}
	}
	w.WriteString("{\"done\":true}\n")
}
