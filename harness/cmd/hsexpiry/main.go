// hsexpiry: ONE long-lived server (and one verification policy shared by all clients) sees the same certificate twice:
// while it is valid and after it has expired.  "Valid" is judged at the time of each handshake, so the second
// handshake must be refused although nothing but the clock has changed.  Controls: a long-lived certificate is
// accepted before and after.
//
//	hsexpiry out.ndjson
package main

import (
	"io"
	"os"
	"time"

	"github.com/sirupsen/logrus"

	"verif/harness/hopkit"
	"verif/harness/rec"
	"verif/harness/simwire"
)

func yn(b bool) string {
	if b {
		return "yes"
	}
	return "no"
}

func main() {
	logrus.SetOutput(io.Discard)
	w := rec.Must(os.Args[1])
	defer w.Close()
	pki := hopkit.NewPKI()
	for _, side := range []string{"client-cert", "server-cert"} {
		for _, hidden := range []bool{false, true} {
			wd := hopkit.NewWorld()
			life := 2 * time.Second
			short := pki.IssueShortLived("a.example", life)
			long := pki.Issue("valid", "a.example")
			expiry := short.Leaf.ExpiresAt
			srvPol := pki.Policy("store", "")
			cliPol := pki.Policy("store", "a.example") // one policy object for every client
			port := 0
			try := func(phase string, cert *hopkit.Ident, s *hopkit.Srv) {
				port++
				cid, opt := cert, hopkit.CliOpt{Verify: cliPol}
				if side == "server-cert" {
					cid = long
				}
				opt.Ident = cid
				if hidden {
					opt.ServerKEM = &s.KEM.Public
				}
				c := wd.NewClient(simwire.Addr("10.0.1.1", 1000+port), s.EP.Addr(), opt)
				err := wd.RunHandshake(c, s)
				offered := 0
				for {
					if _, e := s.T.AcceptTimeout(20 * time.Millisecond); e != nil {
						break
					}
					offered++
				}
				w.Ev("expiry", "side", side, "hidden", yn(hidden), "phase", phase, "completed", yn(err == nil), "offered", offered,
					"late_ms", time.Since(expiry).Milliseconds())
				c.T.Close()
			}
			mk := func(id *hopkit.Ident, n int) *hopkit.Srv {
				o := hopkit.SrvOpt{Ident: id, ClientVerify: srvPol, Hidden: hidden}
				if hidden {
					o.KEM = hopkit.NewKEM()
				}
				return wd.NewServer(simwire.Addr("10.0.0.1", 70+n), o)
			}
			var sShort, sLong *hopkit.Srv
			if side == "client-cert" {
				sShort = mk(long, 1) // the server is long-lived and honest; the CLIENT certificate is the short-lived one
				sLong = sShort
			} else {
				sShort, sLong = mk(short, 1), mk(long, 2)
			}
			try("control-before", long, sLong)
			try("before", short, sShort)
			time.Sleep(time.Until(expiry.Add(1200 * time.Millisecond)))
			try("after", short, sShort)
			try("control-after", long, sLong)
			wd.Close()
		}
	}
}
