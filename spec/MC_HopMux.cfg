SPECIFICATION Spec
CONSTANTS MaxGen = 4  Stale = FALSE
INVARIANTS DistinctIds OfferedOnce Isolation
CHECK_DEADLOCK FALSE
