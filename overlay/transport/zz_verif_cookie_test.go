package transport

// Verification driver for C19 (added with `go test -overlay`, verif tag): Client Acks whose cookie was NOT minted by
// the server they are sent to.  The forger runs the client side honestly against a Server Hello it produced itself
// (writePQServerHello with a cookie key of its choice, for a source address of its choice), so everything in the
// acknowledgement is consistent except that the real server never generated that cookie key.  Key classes: all-zero,
// all-ones, a counting pattern, random, and "the key another instance is using".  The real server (UDP loopback) must
// neither answer nor create handshake or session state.  A genuine exchange is the control.

import (
	"bufio"
	"crypto/rand"
	"encoding/json"
	"net"
	"os"
	"testing"
	"time"

	"github.com/sirupsen/logrus"

	"hop.computer/hop/keys"
)

func vcTables(s *Server) (int, int) {
	s.m.RLock()
	defer s.m.RUnlock()
	return len(s.handshakes), len(s.sessions)
}

func vcClientHS(t *testing.T, vc *VerifyConfig) (*HandshakeState, []byte) {
	hs := new(HandshakeState)
	hs.duplex.InitializeEmpty()
	hs.duplex.Absorb([]byte(PostQuantumProtocolName))
	hs.kem = new(kemState)
	eph, err := keys.GenerateKEMKeyPair(rand.Reader)
	if err != nil {
		t.Fatal(err)
	}
	hs.kem.ephemeral = *eph
	hs.dh = new(dhState)
	hs.dh.ephemeral.Generate()
	hs.certVerify = vc
	buf := make([]byte, 65535)
	n, err := writePQClientHello(hs, buf)
	if err != nil {
		t.Fatal(err)
	}
	return hs, buf[:n]
}

func vcForgedAck(t *testing.T, vc *VerifyConfig, cookieKey [KeyLen]byte, from *net.UDPAddr) []byte {
	hs, hello := vcClientHS(t, vc)
	fake := new(HandshakeState)
	fake.duplex.InitializeEmpty()
	fake.duplex.Absorb([]byte(PostQuantumProtocolName))
	fake.kem = new(kemState)
	if _, err := readPQClientHello(fake, hello); err != nil {
		t.Fatal(err)
	}
	fake.cookieKey = cookieKey
	fake.remoteAddr = from
	sh := make([]byte, 65535)
	n, err := writePQServerHello(fake, sh)
	if err != nil {
		t.Fatal(err)
	}
	if _, err := readPQServerHello(hs, sh[:n]); err != nil {
		t.Fatal(err)
	}
	hs.RekeyFromSqueeze(PostQuantumProtocolName)
	ack := make([]byte, 65535)
	n, err = hs.writePQClientAck(ack)
	if err != nil {
		t.Fatal(err)
	}
	return ack[:n]
}

func TestVerifForgedCookies(t *testing.T) {
	out := os.Getenv("VT_OUT")
	if out == "" {
		t.Skip("verification driver: VT_OUT not set")
	}
	logrus.SetLevel(logrus.PanicLevel)
	fo, err := os.Create(out)
	if err != nil {
		t.Fatal(err)
	}
	defer fo.Close()
	w := bufio.NewWriter(fo)
	defer w.Flush()
	emit := func(m map[string]any) {
		b, _ := json.Marshal(m)
		w.Write(b)
		w.WriteByte('\n')
	}
	newServer := func() (*Server, *net.UDPAddr, *VerifyConfig) {
		pc, err := net.ListenUDP("udp4", &net.UDPAddr{IP: net.IPv4(127, 0, 0, 1)})
		if err != nil {
			t.Fatal(err)
		}
		sc, vc := newTestServerConfig(t)
		s, err := NewServer(pc, *sc)
		if err != nil {
			t.Fatal(err)
		}
		go s.Serve()
		return s, pc.LocalAddr().(*net.UDPAddr), vc
	}
	other, _, _ := newServer() // "the key another instance is using"
	defer other.Close()
	other.cookieLock.Lock()
	otherKey := other.cookieKey
	other.cookieLock.Unlock()
	var zero, ones, count, random [KeyLen]byte
	for i := range ones {
		ones[i], count[i] = 0xff, byte(i)
	}
	rand.Read(random[:])
	classes := []struct {
		name string
		key  [KeyLen]byte
	}{{"forged-key-zero", zero}, {"forged-key-ones", ones}, {"forged-key-counting", count}, {"forged-key-random", random}, {"forged-key-other-instance", otherKey}}
	for _, rotated := range []bool{false, true} {
		s, serverAddr, vc := newServer()
		if rotated {
			s.VerifRotateCookieKey()
		}
		sock, err := net.ListenUDP("udp4", &net.UDPAddr{IP: net.IPv4(127, 0, 0, 1)})
		if err != nil {
			t.Fatal(err)
		}
		port := sock.LocalAddr().(*net.UDPAddr).Port
		reply := make([]byte, 65535)
		for _, c := range classes {
			for _, ip := range []net.IP{net.IPv4(127, 0, 0, 1).To4(), net.IPv4(127, 0, 0, 1).To16()} {
				h0, s0 := vcTables(s)
				ack := vcForgedAck(t, vc, c.key, &net.UDPAddr{IP: ip, Port: port})
				sock.WriteToUDP(ack, serverAddr)
				replies := 0
				sock.SetReadDeadline(time.Now().Add(250 * time.Millisecond))
				if _, _, err := sock.ReadFromUDP(reply); err == nil {
					replies++
				}
				h1, s1 := vcTables(s)
				emit(map[string]any{"ev": "cookie", "class": c.name, "allocated": (h1 - h0) + (s1 - s0), "replies": replies, "iplen": len(ip), "rotated": rotated})
			}
		}
		// control: the genuine exchange is answered and allocates
		hs, hello := vcClientHS(t, vc)
		sock.WriteToUDP(hello, serverAddr)
		sock.SetReadDeadline(time.Now().Add(5 * time.Second))
		n, _, err := sock.ReadFromUDP(reply)
		ok := err == nil
		if ok {
			_, err = readPQServerHello(hs, reply[:n])
			ok = err == nil
		}
		replies, alloc := 0, 0
		if ok {
			hs.RekeyFromSqueeze(PostQuantumProtocolName)
			ack := make([]byte, 65535)
			n, _ = hs.writePQClientAck(ack)
			h0, s0 := vcTables(s)
			sock.WriteToUDP(ack[:n], serverAddr)
			sock.SetReadDeadline(time.Now().Add(5 * time.Second))
			if n, _, err := sock.ReadFromUDP(reply); err == nil && n > 0 && MessageType(reply[0]) == MessageTypeServerAuth {
				replies = 1
			}
			h1, s1 := vcTables(s)
			alloc = (h1 - h0) + (s1 - s0)
			if alloc > 1 {
				alloc = 1
			}
		}
		emit(map[string]any{"ev": "cookie", "class": "genuine", "allocated": alloc, "replies": replies, "iplen": 4, "rotated": rotated})
		sock.Close()
		s.Close()
	}
	emit(map[string]any{"ev": "summary"})
}
