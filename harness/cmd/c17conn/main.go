// c17conn runs small concurrent programs on real transport clients, servers and server handles over a
// simulated network (race-detector build, seeded schedule perturbation at the verif yield points) and records
// for every call how long it took and what it returned.  The socket under each object is wrapped: its Close
// can be made to report an error, and a scenario can hold the handshake goroutine right after its k-th
// datagram went out, so that Close arrives at a chosen point of an in-flight handshake.
//
//	c17conn <out.ndjson> <seed> <rounds>
package main

import (
	"errors"
	"fmt"
	"io"
	"net"
	"os"
	"runtime"
	"strconv"
	"strings"
	"sync"
	"time"

	"github.com/sirupsen/logrus"

	"hop.computer/hop/pkg/vt"
	"hop.computer/hop/transport"
	"verif/harness/hopkit"
	"verif/harness/rec"
	"verif/harness/simwire"
)

var w *rec.W
var errSock = errors.New("socket close failed (injected)")

// conn wraps a simwire endpoint.
type conn struct {
	*simwire.Endpoint
	mu       sync.Mutex
	writes   int
	holdAt   int           // hold the writer after this many writes (0 = never)
	reached  chan struct{} // closed when the writer is held
	release  chan struct{} // closed to let it go
	closeErr error
	closed   chan struct{}
	once     sync.Once
}

func newConn(ep *simwire.Endpoint) *conn {
	return &conn{Endpoint: ep, reached: make(chan struct{}), release: make(chan struct{}), closed: make(chan struct{})}
}

func (c *conn) WriteMsgUDP(b, oob []byte, addr *net.UDPAddr) (int, int, error) {
	n, o, err := c.Endpoint.WriteMsgUDP(b, oob, addr)
	c.mu.Lock()
	c.writes++
	hold := c.holdAt != 0 && c.writes == c.holdAt
	c.mu.Unlock()
	if hold {
		close(c.reached)
		<-c.release
	}
	return n, o, err
}

func (c *conn) Close() error {
	err := c.Endpoint.Close()
	c.once.Do(func() { close(c.closed) })
	if c.closeErr != nil {
		return c.closeErr
	}
	return err
}

func timed(d time.Duration, f func() string) (string, int64, bool) {
	t0 := time.Now()
	ch := make(chan string, 1)
	go func() { ch <- f() }()
	select {
	case r := <-ch:
		return r, time.Since(t0).Milliseconds(), true
	case <-time.After(d):
		return "pending", time.Since(t0).Milliseconds(), false
	}
}

func errs(err error) string {
	switch {
	case err == nil:
		return "ok"
	case err == io.EOF:
		return "eof"
	case err == errSock:
		return "sockerr"
	case err == transport.ErrTimeout || errors.Is(err, os.ErrDeadlineExceeded):
		return "timeout"
	}
	var ne net.Error
	if errors.As(err, &ne) && ne.Timeout() {
		return "timeout"
	}
	return "err:" + err.Error()
}

func yn(b bool) string {
	if b {
		return "yes"
	}
	return "no"
}

type world struct {
	net  *simwire.Net
	pki  *hopkit.PKI
	sid  *hopkit.Ident
	cid  *hopkit.Ident
	port int
}

func (wd *world) server(closeErr error) (*transport.Server, *conn, chan error) {
	wd.port++
	sc := newConn(wd.net.Listen(simwire.Addr("10.0.0.1", wd.port)))
	sc.closeErr = closeErr
	s, err := transport.NewServer(sc, transport.ServerConfig{KeyPair: wd.sid.Key, Certificate: wd.sid.Leaf, Intermediate: wd.sid.Inter,
		HandshakeTimeout: 5 * time.Second})
	if err != nil {
		panic(err)
	}
	served := make(chan error, 1)
	go func() { served <- s.Serve() }()
	sc.Endpoint.WaitIdle(5 * time.Second)
	return s, sc, served
}

func (wd *world) client(sc *conn, closeErr error, holdAt int, hsTimeout time.Duration) (*transport.Client, *conn) {
	wd.port++
	cc := newConn(wd.net.Listen(simwire.Addr("10.0.1.1", wd.port)))
	cc.closeErr = closeErr
	cc.holdAt = holdAt
	c := transport.NewClient(cc, sc.Endpoint.Addr(), transport.ClientConfig{Exchanger: wd.cid.Key, Leaf: wd.cid.Leaf, Intermediate: wd.cid.Inter,
		Verify: *wd.pki.Policy("store", "a.example"), HSTimeout: hsTimeout})
	return c, cc
}

var scn int

// clientScenario: Close arrives at a chosen point of the client's life.
//
//	at: "created" | "hold1" | "hold2" | "hold3" (handshake goroutine held after its k-th datagram) |
//	    "noreply" (server never answers: handshake blocked in a read) | "open" | "open-data" (two messages queued)
func clientScenario(wd *world, at string, closers int, sockErr bool, extraHS int) {
	scn++
	id := scn
	ev := func(kv ...any) {
		w.Ev("call", append([]any{"sc", id, "obj", "client", "at", at, "closers", closers, "sockerr", yn(sockErr), "extrahs", extraHS}, kv...)...)
	}
	var ce error
	if sockErr {
		ce = errSock
	}
	s, sc, served := wd.server(nil)
	hold := 0
	if strings.HasPrefix(at, "hold") {
		hold, _ = strconv.Atoi(at[4:])
	}
	c, cc := wd.client(sc, ce, hold, 4*time.Second)
	if at == "noreply" {
		// the server's socket is closed under it: nothing will ever answer
		sc.Endpoint.Close()
	}
	var wg sync.WaitGroup
	hsRes := make(chan string, 8)
	startHS := func() {
		wg.Add(1)
		go func() {
			defer wg.Done()
			res, ms, ret := timed(8*time.Second, func() string { return errs(c.Handshake()) })
			ev("op", "handshake", "res", res, "ms", ms, "ret", yn(ret))
			hsRes <- res
		}()
	}
	queued := 0
	switch at {
	case "created":
	case "open", "open-data":
		startHS()
		if r := <-hsRes; r != "ok" {
			ev("op", "setup", "res", "handshake failed: "+r, "ms", 0, "ret", "yes")
			return
		}
		if at == "open-data" {
			h, err := s.AcceptTimeout(2 * time.Second)
			if err == nil {
				for k := 0; k < 2; k++ {
					if h.WriteMsg([]byte(fmt.Sprintf("msg-%d", k))) == nil {
						queued++
					}
				}
				// wait until the client's listener has queued them
				for k := 0; k < 400; k++ {
					if v, ok := c.VerifSession(); ok && v.Queued >= queued {
						break
					}
					time.Sleep(time.Millisecond)
				}
			}
		}
	default:
		startHS()
		if hold > 0 {
			select {
			case <-cc.reached:
			case <-time.After(3 * time.Second):
				ev("op", "setup", "res", "handshake never wrote datagram "+at, "ms", 0, "ret", "yes")
				close(cc.release)
				return
			}
		} else {
			time.Sleep(20 * time.Millisecond) // blocked in its first read
		}
	}
	for k := 0; k < extraHS; k++ {
		startHS()
	}
	// the Close callers
	closeRes := make([]string, closers)
	var cw sync.WaitGroup
	for k := 0; k < closers; k++ {
		cw.Add(1)
		go func(k int) {
			defer cw.Done()
			res, ms, ret := timed(8*time.Second, func() string { return errs(c.Close()) })
			closeRes[k] = res
			ev("op", "close", "res", res, "ms", ms, "ret", yn(ret), "want", map[bool]string{true: "sockerr", false: "ok"}[sockErr])
		}(k)
	}
	if hold > 0 {
		// let the held handshake goroutine go once Close has closed the socket (or shortly after, if it does not)
		select {
		case <-cc.closed:
		case <-time.After(time.Second):
		}
		time.Sleep(30 * time.Millisecond)
		close(cc.release)
	}
	cw.Wait()
	wg.Wait()
	same := true
	for _, r := range closeRes {
		same = same && r == closeRes[0]
	}
	ev("op", "closeset", "res", strings.Join(closeRes, ","), "ms", 0, "ret", "yes", "same", yn(same))
	// after Close has returned: a later Close reports the same, reads hand out what was queued and then
	// end-of-stream, writes and Handshake fail
	res, ms, ret := timed(5*time.Second, func() string { return errs(c.Close()) })
	ev("op", "close-again", "res", res, "ms", ms, "ret", yn(ret), "same", yn(res == closeRes[0]))
	got := 0
	res, ms, ret = timed(5*time.Second, func() string {
		buf := make([]byte, 100)
		for k := 0; k < 10; k++ {
			var err error
			if k%2 == 0 {
				_, err = c.ReadMsg(buf)
			} else {
				_, err = c.Read(buf)
			}
			if err != nil {
				return errs(err)
			}
			got++
		}
		return "ok"
	})
	ev("op", "postread", "res", res, "ms", ms, "ret", yn(ret), "got", got, "queued", queued)
	res, ms, ret = timed(5*time.Second, func() string { _, err := c.Write([]byte("late")); return errs(err) })
	ev("op", "postwrite", "res", res, "ms", ms, "ret", yn(ret))
	res, ms, ret = timed(5*time.Second, func() string { return errs(c.Handshake()) })
	ev("op", "posthandshake", "res", res, "ms", ms, "ret", yn(ret))
	ev("op", "isclosed", "res", yn(c.IsClosed()), "ms", 0, "ret", "yes")
	s.Close()
	<-served
}

// silentScenario: the server never answers and nobody calls Close: the handshake and every call waiting for it must
// end by themselves at the earlier of the two limits a client can be given (a timeout and an absolute deadline).
func silentScenario(wd *world, limits string) {
	scn++
	id := scn
	ev := func(kv ...any) {
		w.Ev("call", append([]any{"sc", id, "obj", "client", "at", "silent-" + limits, "closers", 0, "sockerr", "no", "extrahs", 1}, kv...)...)
	}
	s, sc, served := wd.server(nil)
	wd.port++
	cc := newConn(wd.net.Listen(simwire.Addr("10.0.1.1", wd.port)))
	cfg := transport.ClientConfig{Exchanger: wd.cid.Key, Leaf: wd.cid.Leaf, Intermediate: wd.cid.Inter, Verify: *wd.pki.Policy("store", "a.example")}
	short, long := 300*time.Millisecond, 30*time.Second
	switch limits {
	case "timeout":
		cfg.HSTimeout = short
	case "deadline":
		cfg.HSDeadline = time.Now().Add(short)
	case "both-deadline-first":
		cfg.HSTimeout, cfg.HSDeadline = long, time.Now().Add(short)
	case "both-timeout-first":
		cfg.HSTimeout, cfg.HSDeadline = short, time.Now().Add(long)
	}
	c := transport.NewClient(cc, sc.Endpoint.Addr(), cfg)
	sc.Endpoint.Close() // nothing will ever answer
	var wg sync.WaitGroup
	call := func(op string, f func() error) {
		wg.Add(1)
		go func() {
			defer wg.Done()
			res, ms, ret := timed(6*time.Second, func() string { return errs(f()) })
			ev("op", op, "res", res, "ms", ms, "ret", yn(ret))
		}()
	}
	call("silent-handshake", c.Handshake)
	time.Sleep(5 * time.Millisecond)
	call("silent-handshake", c.Handshake)
	call("silent-write", func() error { _, err := c.Write([]byte("x")); return err })
	call("silent-read", func() error { _, err := c.ReadMsg(make([]byte, 10)); return err })
	wg.Wait()
	timed(5*time.Second, func() string { return errs(c.Close()) })
	s.Close()
	<-served
}

// serverScenario: Close on a serving server with sessions, concurrent Accept callers and Close callers.
func serverScenario(wd *world, clients, msgs, closers int, sockErr bool) {
	scn++
	id := scn
	ev := func(kv ...any) {
		w.Ev("call", append([]any{"sc", id, "obj", "server", "clients", clients, "msgs", msgs, "closers", closers, "sockerr", yn(sockErr)}, kv...)...)
	}
	var ce error
	if sockErr {
		ce = errSock
	}
	s, sc, served := wd.server(ce)
	var handles []*transport.Handle
	var cls []*transport.Client
	for k := 0; k < clients; k++ {
		c, _ := wd.client(sc, nil, 0, 4*time.Second)
		if err := c.Handshake(); err != nil {
			ev("op", "setup", "res", "handshake failed: "+errs(err), "ms", 0, "ret", "yes")
			return
		}
		cls = append(cls, c)
		if k < clients-1 || clients == 1 { // the last of several stays in the accept queue
			h, err := s.AcceptTimeout(2 * time.Second)
			if err != nil {
				ev("op", "setup", "res", "accept failed: "+errs(err), "ms", 0, "ret", "yes")
				return
			}
			handles = append(handles, h)
		}
	}
	queued := 0
	if len(handles) > 0 {
		c := cls[0]
		h := handles[0]
		for k := 0; k < msgs; k++ {
			if c.WriteMsg([]byte(fmt.Sprintf("m-%d", k))) == nil {
				queued++
			}
		}
		for k := 0; k < 400 && h.VerifSession().Queued < queued; k++ {
			time.Sleep(time.Millisecond)
		}
	}
	var wg sync.WaitGroup
	pendingInQueue := 0
	if clients > 1 {
		pendingInQueue = 1
	}
	// blocked callers: Accept (when nothing is pending), a reader on a handle with an empty queue, a writer
	if pendingInQueue == 0 {
		wg.Add(1)
		go func() {
			defer wg.Done()
			res, ms, ret := timed(9*time.Second, func() string { _, err := s.Accept(); return errs(err) })
			ev("op", "accept-blocked", "res", res, "ms", ms, "ret", yn(ret))
		}()
	}
	if len(handles) > 0 && msgs == 0 {
		wg.Add(1)
		go func() {
			defer wg.Done()
			res, ms, ret := timed(9*time.Second, func() string { _, err := handles[0].Read(make([]byte, 10)); return errs(err) })
			ev("op", "read-blocked", "res", res, "ms", ms, "ret", yn(ret))
		}()
	}
	wg.Add(1)
	go func() {
		defer wg.Done()
		res, ms, ret := timed(5*time.Second, func() string { return errs(s.Serve()) })
		ev("op", "serve-again", "res", res, "ms", ms, "ret", yn(ret))
	}()
	time.Sleep(10 * time.Millisecond)
	closeRes := make([]string, closers)
	var cw sync.WaitGroup
	for k := 0; k < closers; k++ {
		cw.Add(1)
		go func(k int) {
			defer cw.Done()
			res, ms, ret := timed(8*time.Second, func() string { return errs(s.Close()) })
			closeRes[k] = res
			ev("op", "close", "res", res, "ms", ms, "ret", yn(ret), "want", map[bool]string{true: "sockerr", false: "ok"}[sockErr])
		}(k)
	}
	cw.Wait()
	res, ms, ret := timed(5*time.Second, func() string { return errs(<-served) })
	ev("op", "serve-returns", "res", res, "ms", ms, "ret", yn(ret))
	wg.Wait()
	same := true
	for _, r := range closeRes {
		same = same && r == closeRes[0]
	}
	ev("op", "closeset", "res", strings.Join(closeRes, ","), "ms", 0, "ret", "yes", "same", yn(same))
	res, ms, ret = timed(5*time.Second, func() string { return errs(s.Close()) })
	ev("op", "close-again", "res", res, "ms", ms, "ret", yn(ret), "same", yn(res == closeRes[0]))
	// Accept after close: connections that were established and queued may still be handed out, then end-of-stream
	acc := 0
	res, ms, ret = timed(5*time.Second, func() string {
		for k := 0; k < 5; k++ {
			if _, err := s.AcceptTimeout(time.Second); err != nil {
				return errs(err)
			}
			acc++
		}
		return "ok"
	})
	ev("op", "postaccept", "res", res, "ms", ms, "ret", yn(ret), "got", acc, "queued", pendingInQueue)
	if len(handles) > 0 {
		h := handles[0]
		got := 0
		res, ms, ret = timed(5*time.Second, func() string {
			for k := 0; k < 10; k++ {
				if _, err := h.ReadMsg(make([]byte, 100)); err != nil {
					return errs(err)
				}
				got++
			}
			return "ok"
		})
		ev("op", "postread", "res", res, "ms", ms, "ret", yn(ret), "got", got, "queued", queued)
		res, ms, ret = timed(5*time.Second, func() string { return errs(h.WriteMsg([]byte("late"))) })
		ev("op", "postwrite", "res", res, "ms", ms, "ret", yn(ret))
		ev("op", "isclosed", "res", yn(h.IsClosed()), "ms", 0, "ret", "yes")
	}
	for _, c := range cls {
		c.Close()
	}
}

// handleScenario: concurrent calls on one server handle.
func handleScenario(wd *world, kind string) {
	scn++
	id := scn
	ev := func(kv ...any) { w.Ev("call", append([]any{"sc", id, "obj", "handle", "kind", kind}, kv...)...) }
	s, sc, served := wd.server(nil)
	c, _ := wd.client(sc, nil, 0, 4*time.Second)
	if err := c.Handshake(); err != nil {
		ev("op", "setup", "res", "handshake failed: "+errs(err), "ms", 0, "ret", "yes")
		return
	}
	h, err := s.AcceptTimeout(2 * time.Second)
	if err != nil {
		ev("op", "setup", "res", "accept failed", "ms", 0, "ret", "yes")
		return
	}
	var wg sync.WaitGroup
	reader := func(name string, want string) {
		wg.Add(1)
		go func() {
			defer wg.Done()
			res, ms, ret := timed(6*time.Second, func() string { _, err := h.Read(make([]byte, 10)); return errs(err) })
			ev("op", name, "res", res, "ms", ms, "ret", yn(ret), "want", want)
		}()
	}
	switch kind {
	case "read+close":
		reader("read-blocked", "eof")
		reader("read-blocked", "eof")
		time.Sleep(5 * time.Millisecond)
		res, ms, ret := timed(5*time.Second, func() string { return errs(h.Close()) })
		ev("op", "hclose", "res", res, "ms", ms, "ret", yn(ret))
	case "read+deadline-future":
		reader("read-blocked", "timeout")
		time.Sleep(5 * time.Millisecond)
		h.SetReadDeadline(time.Now().Add(40 * time.Millisecond))
	case "read+deadline-past":
		reader("read-blocked", "timeout")
		time.Sleep(5 * time.Millisecond)
		h.SetDeadline(time.Now().Add(-time.Second))
	case "deadline-then-close":
		h.SetReadDeadline(time.Now().Add(30 * time.Millisecond))
		reader("read-blocked", "timeout|eof")
		wg.Add(2)
		go func() { defer wg.Done(); h.SetReadDeadline(time.Time{}) }()
		go func() { defer wg.Done(); time.Sleep(time.Millisecond); h.Close() }()
	case "writers+close":
		for k := 0; k < 3; k++ {
			wg.Add(1)
			go func() {
				defer wg.Done()
				res, ms, ret := timed(5*time.Second, func() string {
					for j := 0; j < 20; j++ {
						if _, err := h.Write([]byte("data")); err != nil {
							return errs(err)
						}
					}
					return "ok"
				})
				ev("op", "writes", "res", res, "ms", ms, "ret", yn(ret), "want", "ok|eof")
			}()
		}
		res, ms, ret := timed(5*time.Second, func() string { return errs(h.Close()) })
		ev("op", "hclose", "res", res, "ms", ms, "ret", yn(ret))
		res, ms, ret = timed(5*time.Second, func() string { return errs(h.Close()) })
		ev("op", "hclose", "res", res, "ms", ms, "ret", yn(ret))
	case "eof-is-final":
		// the handle is closed locally and has reported end-of-stream; the peer keeps sending: end-of-stream stays
		h.Close()
		res, ms, ret := timed(5*time.Second, func() string { _, err := h.Read(make([]byte, 100)); return errs(err) })
		ev("op", "read-after-close", "res", res, "ms", ms, "ret", yn(ret), "want", "eof")
		for k := 0; k < 3; k++ {
			c.WriteMsg([]byte(fmt.Sprintf("late-%d", k)))
		}
		time.Sleep(30 * time.Millisecond)
		for k := 0; k < 2; k++ {
			res, ms, ret = timed(5*time.Second, func() string {
				h.SetReadDeadline(time.Now().Add(200 * time.Millisecond))
				n, err := h.ReadMsg(make([]byte, 100))
				if err == nil {
					return fmt.Sprintf("data(%d bytes)", n)
				}
				return errs(err)
			})
			ev("op", "read-after-close", "res", res, "ms", ms, "ret", yn(ret), "want", "eof")
		}
	case "eof-is-final-client":
		// the same on the client: closed locally, the server handle keeps sending
		c.Close()
		for k := 0; k < 3; k++ {
			h.WriteMsg([]byte(fmt.Sprintf("late-%d", k)))
		}
		time.Sleep(30 * time.Millisecond)
		for k := 0; k < 2; k++ {
			res, ms, ret := timed(5*time.Second, func() string {
				n, err := c.ReadMsg(make([]byte, 100))
				if err == nil {
					return fmt.Sprintf("data(%d bytes)", n)
				}
				return errs(err)
			})
			ev("op", "read-after-close", "res", res, "ms", ms, "ret", yn(ret), "want", "eof")
		}
	case "peer-close":
		reader("read-blocked", "eof")
		time.Sleep(5 * time.Millisecond)
		c.Close()
		// the peer's Close sends nothing in this implementation: the reader is released by the local side
		time.Sleep(20 * time.Millisecond)
		h.Close()
	}
	wg.Wait()
	if kind != "read+close" && kind != "writers+close" && kind != "peer-close" && kind != "deadline-then-close" && !strings.HasPrefix(kind, "eof-is-final") {
		// the deadline expired; it can be moved again and the handle still works
		h.SetReadDeadline(time.Time{})
		c.WriteMsg([]byte("after"))
		res, ms, ret := timed(5*time.Second, func() string { _, err := h.ReadMsg(make([]byte, 100)); return errs(err) })
		ev("op", "read-after-deadline-reset", "res", res, "ms", ms, "ret", yn(ret), "want", "ok")
	}
	h.Close()
	c.Close()
	s.Close()
	<-served
}

func transportGoroutines() (int, string) {
	buf := make([]byte, 1<<22)
	buf = buf[:runtime.Stack(buf, true)]
	n, sample := 0, ""
	for _, g := range strings.Split(string(buf), "\n\n") {
		if strings.Contains(g, "hop.computer/hop/transport.") || strings.Contains(g, "hop.computer/hop/common.") {
			n++
			if sample == "" {
				for _, l := range strings.Split(g, "\n") {
					if strings.Contains(l, "hop.computer/hop/") {
						sample = strings.TrimSpace(l)
						break
					}
				}
			}
		}
	}
	return n, sample
}

func main() {
	logrus.SetOutput(io.Discard)
	logrus.SetLevel(logrus.PanicLevel)
	w = rec.Must(os.Args[1])
	defer w.Close()
	seed, _ := strconv.ParseInt(os.Args[2], 10, 64)
	rounds, _ := strconv.Atoi(os.Args[3])
	time.AfterFunc(400*time.Second, func() { w.Ev("stuck", "after_s", 400); w.Close(); os.Exit(3) })
	pki := hopkit.NewPKI()
	for r := 0; r < rounds; r++ {
		vt.SetYield(seed*131 + int64(r) + 1)
		wd := &world{net: simwire.New(), pki: pki, sid: pki.Issue("valid", "a.example"), cid: pki.Issue("valid", "client.example"), port: 100}
		wd.net.Auto = true
		for _, at := range []string{"created", "hold1", "hold2", "hold3", "noreply", "open", "open-data"} {
			for _, closers := range []int{1, 3} {
				for _, se := range []bool{false, true} {
					extra := (r + closers) % 2
					w.Ev("scenario", "obj", "client", "at", at, "closers", closers, "sockerr", yn(se), "extrahs", extra)
					clientScenario(wd, at, closers, se, extra)
					w.Flush()
				}
			}
		}
		for _, lim := range []string{"timeout", "deadline", "both-deadline-first", "both-timeout-first"} {
			w.Ev("scenario", "obj", "client", "at", "silent-"+lim, "closers", 0, "sockerr", "no", "extrahs", 1)
			silentScenario(wd, lim)
			w.Flush()
		}
		for _, cl := range []int{0, 1, 2} {
			for _, msgs := range []int{0, 2} {
				for _, closers := range []int{1, 3} {
					se := (cl+msgs+closers+r)%2 == 0
					w.Ev("scenario", "obj", "server", "clients", cl, "msgs", msgs, "closers", closers, "sockerr", yn(se))
					serverScenario(wd, cl, msgs, closers, se)
					w.Flush()
				}
			}
		}
		for _, k := range []string{"read+close", "read+deadline-future", "read+deadline-past", "deadline-then-close", "writers+close", "peer-close", "eof-is-final", "eof-is-final-client"} {
			w.Ev("scenario", "obj", "handle", "kind", k)
			handleScenario(wd, k)
			w.Flush()
		}
	}
	var n int
	var sample string
	for k := 0; k < 30; k++ {
		time.Sleep(100 * time.Millisecond)
		if n, sample = transportGoroutines(); n == 0 {
			break
		}
	}
	w.Ev("leak", "goroutines", n, "sample", sample)
	w.Ev("done")
}
